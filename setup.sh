#!/bin/bash
# Build the whole Coq development from a clean state (full .vo build) and run the hygiene grep.
set -e
HERE="$(cd "$(dirname "$0")" && pwd)"; cd "$HERE"
export LV_REPO=${LV_REPO:-/repo}
export PYTHONPATH=$LV_REPO:$HERE/harness PYTHONHASHSEED=0 PYTHONDONTWRITEBYTECODE=1
# forbidden constructs anywhere in the development
if grep -rnE '\b(Admitted|admit|Axiom|Parameter|Conjecture|Abort All)\b|Unset Guard|bypass_check|type-in-type|impredicative-set|Admit Obligations' \
     --include='*.v' coq/Model coq/Proofs coq/Properties; then
  echo "forbidden construct found" >&2; exit 1
fi
/venv/bin/python harness/srcparams.py > /dev/null
cd coq
find . -name '*.vo' -o -name '*.vos' -o -name '*.vok' -o -name '*.glob' -o -name '.*.aux' | xargs -r rm -f
coq_makefile -f _CoqProject $(find Model Gen Proofs Properties -name '*.v' | sort) -o Makefile > /dev/null
timeout 3000 make -j12 > /tmp/lv_setup_make.log 2>&1 || { tail -50 /tmp/lv_setup_make.log; exit 1; }
grep -c 'Closed under the global context' /tmp/lv_setup_make.log || true
if grep -n '^Axioms:' /tmp/lv_setup_make.log; then echo "a property theorem depends on axioms" >&2; exit 1; fi
rm -f /tmp/lv_setup_make.log
echo setup-ok
