(* LabProofs.v — the persisted store evolves like a plain map (C08); a second run loads what the first stored (C06). *)
Require Import LT.Model.Base LT.Model.Sched LT.Model.Lab LT.Proofs.BaseLemmas LT.Proofs.PlanProofs
  LT.Proofs.SchedInv LT.Proofs.SchedThms.

Lemma lookup_del_all {V} ks : forall (m : list (nat * V)) k,
  lookup (del_all ks m) k = if mem k ks then None else lookup m k.
Proof.
  unfold del_all. induction ks as [|a ks IH]; intros m k; cbn [fold_left]; [reflexivity|].
  rewrite IH, lookup_del. change (mem k (a :: ks)) with (Nat.eqb k a || mem k ks).
  destruct (mem k ks); [now rewrite orb_true_r|]. rewrite orb_false_r. reflexivity.
Qed.

Definition is_some {A} (o : option A) : bool := match o with Some _ => true | None => false end.

(* which tasks a run (re)writes: needed, not served from the cache, succeeding, of a caching type *)
Definition written (c : cfg) (t : nat) : bool :=
  mem t (plan c) && negb (use_cache_in c (pre c) t) && is_some (ref c t) && cacheable_of c (ty_of c t).

Section Lab.
  Variable p : params.
  Hypothesis Hguard : p_dep_guard p = true.

  (* after a run that returns: exactly the written tasks hold their reference value, every other entry is as
     before — for every graph, oracle, failure pattern, bust flag, limits *)
  Theorem run_store_spec c o r : wf c -> fst (run p c o) = Returned r ->
    forall t, lookup (store (snd (run p c o))) t = if written c t then ref c t else lookup (pre c) t.
  Proof.
    intros Hwf E t. pose proof (run_Reach p c o) as HR. rewrite E in HR.
    pose proof (Reach_Inv p c Hwf Hguard _ HR) as I.
    assert (Hd : loop_done (snd (run p c o)) = true).
    { eapply (loop_returned_state p c); [constructor|exact E]. }
    set (s := snd (run p c o)) in *. unfold written.
    destruct (mem t (plan c)) eqn:Ep; cbn [andb].
    - apply mem_In in Ep. pose proof (done_all_finished c s I Hd t Ep) as Hf.
      destruct (use_cache_in c (pre c) t) eqn:Eu; cbn [negb andb].
      + apply (I_store4 c s I). intros (_ & _ & F & _). congruence.
      + destruct (ref c t) as [v|] eqn:Er; cbn [is_some andb].
        * destruct (cacheable_of c (ty_of c t)) eqn:Ec.
          -- rewrite <- Er. apply (I_store3 c s I); auto. intro F. apply (I_fail_ref c s I t Hf) in F. congruence.
          -- apply (I_store4 c s I). intros (_ & _ & _ & F). congruence.
        * apply (I_store4 c s I). intros (_ & F & _). apply F. apply (I_fail_ref c s I t Hf). exact Er.
    - apply mem_false in Ep. apply (I_store4 c s I). intros (F & _). apply Ep. apply (I_cover c s I). tauto.
  Qed.

  (* task types without a cache, and Labs without storage, never persist anything *)
  Corollary null_inert c o r t : wf c -> fst (run p c o) = Returned r -> cacheable_of c (ty_of c t) = false ->
    lookup (store (snd (run p c o))) t = lookup (pre c) t.
  Proof.
    intros Hwf E Hc. rewrite (run_store_spec c o r Hwf E). unfold written. rewrite Hc. now rewrite andb_false_r.
  Qed.

  (* bust_cache re-executes everything it needs and replaces what it ran *)
  Corollary bust_replaces c o r t v : wf c -> bust c = true -> fst (run p c o) = Returned r ->
    In t (plan c) -> ref c t = Some v -> cacheable_of c (ty_of c t) = true ->
    lookup (store (snd (run p c o))) t = Some v.
  Proof.
    intros Hwf Hb E Hp Hr Hc. rewrite (run_store_spec c o r Hwf E). unfold written, use_cache_in.
    rewrite Hb, Hr, Hc. cbn [negb andb is_some]. apply mem_In in Hp. now rewrite Hp.
  Qed.

  (* C06: whatever a run left in the store, a later run (same graph, bust_cache off, any request, any oracle)
     treats as cached: it is submitted as a load, contributes no dependencies, and its outcome is the stored value *)
  Theorem second_run_loads c st rq cnt fails t v : wf c -> (forall u, In u rq -> u < ntasks c) -> lookup st t = Some v ->
    let c2 := with_run c st rq false cnt fails in
    use_cache_in c2 (pre c2) t = true /\ pdeps_of c2 t = [] /\ ref c2 t = Some v.
  Proof.
    intros Hwf Hrq Hl. cbn zeta.
    assert (Hu : use_cache_in (with_run c st rq false cnt fails) st t = true).
    { unfold use_cache_in, has. cbn [with_run bust negb andb]. now rewrite Hl. }
    assert (Hwf2 : wf (with_run c st rq false cnt fails)).
    { destruct Hwf as (A & B & C). repeat split; auto. }
    split; [exact Hu|]. split.
    - unfold pdeps_of. cbn [with_run pre]. now rewrite Hu.
    - rewrite (ref_unfold _ t Hwf2). cbn [with_run pre]. rewrite Hu. exact Hl.
  Qed.
End Lab.
