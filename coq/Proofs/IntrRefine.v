(* IntrRefine.v — without interrupts, the detailed coordinator + process-runner model (Intr.v: executor queue, worker slots,
   the generator protocol of wait, future bookkeeping) refines the abstract scheduler model (Sched.v): every run of it is a
   run of Sched under the oracle "the registered futures that are done, in submission order, one batch per wait".  Hence
   everything proved of Sched.run for all oracles holds of the process-runner model. *)
Require Import LT.Model.Base LT.Model.Sched LT.Model.Intr LT.Proofs.BaseLemmas LT.Proofs.PlanProofs LT.Proofs.SchedInv
  LT.Proofs.SchedThms LT.Proofs.SchedLimits.

Lemma tick_none w : budget w = None ->
  exists w', tick w = (inl tt, w') /\ ws w' = ws w /\ f2t w' = f2t w /\ budget w' = None /\ oracle w' = oracle w /\ maxw_ w' = maxw_ w.
Proof. intros H. unfold tick. rewrite H. eexists. split; [reflexivity|]. cbn. repeat split. Qed.

Lemma norm_order_nil rem : norm_order [] rem = rem.
Proof.
  unfold norm_order. cbn [dedup filter app]. induction rem as [|x l IH]; [reflexivity|]. cbn [filter mem existsb negb] in *. now rewrite IH.
Qed.

(* between two waits: every future is registered and queued or running, in submission order = the active tasks *)
Definition live (q : nat * fstat * bool) : Prop := registered q = true /\ (stat_of q = FQueued \/ stat_of q = FRunning).
Definition FInv (w : world) : Prop :=
  map tid_of (f2t w) = active (ws w) /\ (forall q, In q (f2t w) -> live q) /\ budget w = None.

Section Refine.
  Variable P : iparams.
  Variable c : cfg.
  Let p := ip P.

  (* ---- one yielded (task, result): Future.result, capture, complete_task, remove_results = Sched.complete *)
  Lemma consume_step w t r : budget w = None -> r = exec c (ws w) t ->
    let m := (modify (fun w => let s := ws w in
                         set_ws w {| needed := needed s; pending := pending s; active := active s; finished := finished s;
                                     failed := failed s;
                                     rmap := match r with Some v => (t, v) :: rmap s | None => rmap s end;
                                     results := results s; store := store s; hist := EFinish t r :: hist s |}) ;;;
              consume_one P c t r) in
    match complete p c (ws w) t [] with
    | SOk s' => exists w', m w = (inl tt, w') /\ ws w' = s' /\ f2t w' = f2t w /\ budget w' = None /\ oracle w' = oracle w /\ maxw_ w' = maxw_ w
    | SRaise u s' => exists w', m w = (inr (LabErr t), w') /\ ws w' = s' /\ u = t
    | SBad => ~ In t (active (ws w))
    end.
  Proof.
    intros Hb Hr. cbn zeta. unfold complete. rewrite norm_order_nil.
    destruct (mem t (active (ws w))) eqn:Em; cbn [negb]; [|now apply mem_false].
    rewrite <- Hr. clear Hr.
    destruct w as [s f mw bu se fi orc tk te ns]. cbn [budget ws] in *. subst bu.
    destruct s as [nd pe ac fn fl rm rs sto hi]. cbn [active] in Em.
    destruct r as [v|].
    - unfold consume_one, bind, modify, get, ret, raise, tick.
      cbn -[removable remove_results use_cache_in cacheable_of sort_nat mem ty_of].
      destruct (mem t (req c)) eqn:Er;
      cbn -[removable remove_results use_cache_in cacheable_of sort_nat mem ty_of]; rewrite Em;
      cbn -[removable remove_results use_cache_in cacheable_of sort_nat mem ty_of].
      + eexists. split; [reflexivity|]. cbn -[removable remove_results use_cache_in cacheable_of sort_nat mem ty_of]. repeat split.
      + eexists. split; [reflexivity|]. cbn -[removable remove_results use_cache_in cacheable_of sort_nat mem ty_of]. repeat split.
    - unfold consume_one, bind, modify, get, ret, raise, tick.
      cbn -[removable remove_results use_cache_in cacheable_of sort_nat mem ty_of]. rewrite Em.
      cbn -[removable remove_results use_cache_in cacheable_of sort_nat mem ty_of].
      destruct (cont c) eqn:Ec; cbn -[removable remove_results use_cache_in cacheable_of sort_nat mem ty_of].
      + eexists. split; [reflexivity|]. cbn -[removable remove_results use_cache_in cacheable_of sort_nat mem ty_of]. repeat split.
      + eexists. split; [reflexivity|]. cbn. repeat split.
  Qed.

  (* ---- start_task + submit_task + executor.submit for one task = Sched.start *)
  Lemma start_more_stat (free : nat) : forall l q, In q (start_more free l) ->
    exists q0, In q0 l /\ tid_of q = tid_of q0 /\ registered q = registered q0 /\
               (stat_of q = stat_of q0 \/ (stat_of q0 = FQueued /\ stat_of q = FRunning)).
  Proof.
    intros l. revert free. induction l as [|[[t s] r] l IH]; intros free q Hq; cbn [start_more] in Hq; [destruct Hq|].
    destruct s.
    - destruct free as [|k].
      + exists q. destruct Hq as [<-|Hq]; [split; [now left|]|split; [now right|]]; repeat split; auto.
      + destruct Hq as [<-|Hq].
        * exists (t, FQueued, r). split; [now left|]. repeat split; auto.
        * destruct (IH k q Hq) as (q0 & A & B). exists q0. split; [now right|exact B].
    - destruct Hq as [<-|Hq]; [exists (t, FRunning, r); split; [now left|repeat split; auto]|].
      destruct (IH free q Hq) as (q0 & A & B). exists q0. split; [now right|exact B].
    - destruct Hq as [<-|Hq]; [exists (t, FDone r0, r); split; [now left|repeat split; auto]|].
      destruct (IH free q Hq) as (q0 & A & B). exists q0. split; [now right|exact B].
    - destruct Hq as [<-|Hq]; [exists (t, FCancelled, r); split; [now left|repeat split; auto]|].
      destruct (IH free q Hq) as (q0 & A & B). exists q0. split; [now right|exact B].
  Qed.

  Lemma start_more_tids' (free : nat) : forall l, map tid_of (start_more free l) = map tid_of l.
  Proof.
    intros l. revert free. induction l as [|[[t s] r] l IH]; intros free; cbn [start_more]; [reflexivity|].
    destruct s; try (cbn [map]; now rewrite IH). destruct free; [reflexivity|]. cbn [map]. now rewrite IH.
  Qed.

  Lemma submit_one_step w t : FInv w ->
    exists w', submit_one c t w = (inl tt, w') /\ ws w' = start c (ws w) t /\ FInv w' /\ oracle w' = oracle w /\ maxw_ w' = maxw_ w.
  Proof.
    intros (Ht & Hl & Hb).
    destruct w as [s f mw bu se fi orc tk te ns]. cbn [budget ws f2t] in *. subst bu.
    unfold submit_one, bind, modify, tick, restart. cbn -[start start_more count_running].
    eexists. split; [reflexivity|]. cbn -[start start_more count_running]. split; [reflexivity|]. split; [|split; reflexivity].
    unfold FInv. cbn -[start start_more count_running]. split; [|split; [|reflexivity]].
    - rewrite map_map.
      transitivity (map tid_of (start_more (mw - count_running (f ++ [(t, FQueued, false)])) (f ++ [(t, FQueued, false)]))).
      + apply map_ext. intros q. destruct (Nat.eqb (tid_of q) t); reflexivity.
      + rewrite start_more_tids', map_app, Ht. reflexivity.
    - intros q Hq. apply in_map_iff in Hq. destruct Hq as (q1 & Hq1 & Hin).
      destruct (start_more_stat _ _ _ Hin) as (q0 & Hin0 & Htid & Hreg & Hst).
      apply in_app_or in Hin0. destruct Hin0 as [Hin0|[<-|[]]].
      + destruct (Hl q0 Hin0) as [R0 S0]. unfold live.
        destruct (Nat.eqb (tid_of q1) t) eqn:E; subst q; unfold registered, stat_of in *; cbn [fst snd] in *.
        * split; [reflexivity|]. destruct Hst as [Hst|[_ Hst]]; rewrite Hst; [exact S0|now right].
        * split; [congruence|]. destruct Hst as [Hst|[_ Hst]]; rewrite Hst; [exact S0|now right].
      + assert (Ht1 : tid_of q1 = t) by exact Htid. unfold live. rewrite Ht1, Nat.eqb_refl in Hq1. subst q.
        unfold registered, stat_of in *. cbn [fst snd] in *. split; [reflexivity|].
        destruct Hst as [Hst|[_ Hst]]; rewrite Hst; [now left|now right].
  Qed.

  Lemma submit_all l : forall w, FInv w ->
    exists w', for_each l (submit_one c) w = (inl tt, w') /\ ws w' = fold_left (start c) l (ws w) /\ FInv w' /\
               oracle w' = oracle w /\ maxw_ w' = maxw_ w.
  Proof.
    induction l as [|t l IH]; intros w HF; cbn [for_each fold_left].
    - exists w. split; [reflexivity|]. split; [reflexivity|]. split; [exact HF|]. split; reflexivity.
    - destruct (submit_one_step w t HF) as (w1 & E1 & S1 & F1 & O1 & M1).
      destruct (IH w1 F1) as (w2 & E2 & S2 & F2 & O2 & M2).
      exists w2. unfold bind. rewrite E1, E2. split; [reflexivity|]. split; [congruence|]. split; [exact F2|]. split; congruence.
  Qed.

  (* ---- the loop over the futures that are done: = Sched.process_batch *)
  Hypothesis Hwf : wf c.
  Hypothesis Hguard : p_dep_guard p = true.
  Hypothesis Hpop : ip_gen P = PopFirst.

  Definition donefut (q : nat * fstat * bool) : Prop := exists r, stat_of q = FDone r /\ r = ref c (tid_of q).
  (* while the done futures in dl are being processed: the others are live *)
  Definition GInv (dl : list (nat * fstat * bool)) (w : world) : Prop :=
    map tid_of (f2t w) = active (ws w) /\ budget w = None /\
    (forall q, In q (f2t w) -> live q \/ (In (tid_of q) (map tid_of dl))).

  Lemma NoDup_map_filter_local (q : nat * fstat * bool -> bool) l : NoDup (map tid_of l) -> NoDup (map tid_of (filter q l)).
  Proof.
    induction l as [|x l IH]; cbn [map filter]; intros H; [constructor|]. inversion H as [|? ? Hni Hnd]; subst.
    destruct (q x); [|now apply IH]. cbn [map]. constructor; [|now apply IH].
    intro F. apply Hni. apply in_map_iff in F. destruct F as (y & Ey & Hy). apply filter_In in Hy. apply in_map_iff. exists y. tauto.
  Qed.

  Lemma map_tid_filter t0 f : map tid_of (filter (fun q => negb (Nat.eqb (tid_of q) t0)) f) = remove1 t0 (map tid_of f).
  Proof.
    induction f as [|q f IH]; [reflexivity|]. cbn [filter map remove1]. rewrite (Nat.eqb_sym t0 (tid_of q)).
    destruct (Nat.eqb (tid_of q) t0); cbn [negb map]; now rewrite IH.
  Qed.

  Definition the_body (q : nat * fstat * bool) : M unit :=
    let t := tid_of q in
    match ip_gen P with
    | PopFirst => modify (fun w => set_f2t w (filter (fun q => negb (Nat.eqb (tid_of q) t)) (f2t w)))
    | _ => ret tt
    end ;;;
    match stat_of q with
    | FCancelled => ret tt
    | FDone r =>
      tick ;;;
      modify (fun w => let s := ws w in
                       set_ws w {| needed := needed s; pending := pending s; active := active s; finished := finished s;
                                   failed := failed s;
                                   rmap := match r with Some v => (t, v) :: rmap s | None => rmap s end;
                                   results := results s; store := store s; hist := EFinish t r :: hist s |}) ;;;
      consume_one P c t r
    | _ => ret tt
    end.

  Lemma process_done : forall dl w, GInv dl w -> Reach p c (ws w) -> NoDup (map tid_of dl) ->
    (forall q, In q dl -> In (tid_of q) (active (ws w)) /\ donefut q) ->
    match process_batch p c (ws w) (map (fun q => (tid_of q, [])) dl) with
    | SOk s' => exists w', for_each dl the_body w = (inl tt, w') /\ ws w' = s' /\ GInv [] w' /\ Reach p c s' /\
                           oracle w' = oracle w /\ maxw_ w' = maxw_ w
    | SRaise t s' => exists w', for_each dl the_body w = (inr (LabErr t), w') /\ ws w' = s'
    | SBad => False
    end.
  Proof.
    induction dl as [|q dl IH]; intros w HG Hr Hnd Hdl; cbn [map process_batch for_each].
    - exists w. split; [reflexivity|]. split; [reflexivity|]. split; [exact HG|]. split; [exact Hr|]. split; reflexivity.
    - destruct HG as (Ht & Hb & Hq).
      destruct (Hdl q (or_introl eq_refl)) as (Hact & r & Hst & Href).
      pose proof (Reach_Inv p c Hwf Hguard _ Hr) as I.
      (* pop, then the tick at the entry of Future.result *)
      set (t := tid_of q) in *.
      set (w1 := set_f2t w (filter (fun q0 => negb (Nat.eqb (tid_of q0) t)) (f2t w))).
      assert (Hb1 : budget w1 = None) by exact Hb.
      destruct (tick_none w1 Hb1) as (w2 & E2 & S2 & F2 & B2 & O2 & M2).
      assert (Hexec : r = exec c (ws w2) t).
      { rewrite S2. cbn [w1 set_f2t ws]. rewrite (exec_ref c (ws w) t Hwf I Hact). exact Href. }
      pose proof (consume_step w2 t r B2 Hexec) as Hc. cbn zeta in Hc. rewrite S2 in Hc. cbn [w1 set_f2t ws] in Hc.
      assert (Hbody : forall rest : M unit, (the_body q ;;; rest) w =
                (match (modify (fun w0 => let s := ws w0 in
                          set_ws w0 {| needed := needed s; pending := pending s; active := active s; finished := finished s;
                                       failed := failed s;
                                       rmap := match r with Some v => (t, v) :: rmap s | None => rmap s end;
                                       results := results s; store := store s; hist := EFinish t r :: hist s |}) ;;;
                        consume_one P c t r) w2 with
                 | (inl a, w') => rest w'
                 | (inr e, w') => (@inr unit exn e, w')
                 end)).
      { intros rest. unfold the_body. rewrite Hpop, Hst. fold t. unfold bind at 1. unfold bind at 1. unfold modify at 1. fold w1.
        unfold bind at 1. rewrite E2. reflexivity. }
      rewrite Hbody. cbn zeta.
      destruct (complete p c (ws w) t []) as [s1|u s1|] eqn:Ec.
      + destruct Hc as (w3 & E3 & S3 & F3 & B3 & O3 & M3). rewrite E3.
        assert (Hr1 : Reach p c s1) by (econstructor; eauto).
        assert (HG3 : GInv dl w3).
        { split; [|split; [exact B3|]].
          - rewrite F3, F2. cbn [w1 set_f2t f2t]. rewrite map_tid_filter, Ht, S3.
            symmetry. apply (complete_active p c (ws w) t [] s1). now left.
          - intros q0 Hq0. rewrite F3, F2 in Hq0. cbn [w1 set_f2t f2t] in Hq0. apply filter_In in Hq0. destruct Hq0 as [Hin Hne].
            destruct (Hq q0 Hin) as [Hl|Hd]; [now left|]. right. cbn [map] in Hd. destruct Hd as [Hd|Hd]; [|exact Hd].
            apply negb_true_iff, Nat.eqb_neq in Hne. fold t in Hd. congruence. }
        assert (Hdl3 : forall q0, In q0 dl -> In (tid_of q0) (active (ws w3)) /\ donefut q0).
        { intros q0 Hq0. destruct (Hdl q0 (or_intror Hq0)) as [A B]. split; [|exact B].
          rewrite S3, (complete_active p c (ws w) t [] s1 (or_introl Ec)). apply In_remove1. split; [exact A|].
          intros Heq. cbn [map] in Hnd. apply NoDup_cons_iff in Hnd. destruct Hnd as [Hni _]. apply Hni. apply in_map_iff. exists q0. split; [|exact Hq0].
          fold t. congruence. }
        cbn [map] in Hnd. apply NoDup_cons_iff in Hnd. destruct Hnd as [_ Hnd'].
        specialize (IH w3 HG3 ltac:(rewrite S3; exact Hr1) Hnd' Hdl3). rewrite S3 in IH.
        destruct (process_batch p c s1 (map (fun q0 => (tid_of q0, [])) dl)) as [s2|u s2|].
        * destruct IH as (w4 & E4 & S4 & G4 & R4 & O4 & M4). exists w4. rewrite E4.
          assert (Ow1 : oracle w1 = oracle w) by reflexivity. assert (Mw1 : maxw_ w1 = maxw_ w) by reflexivity.
          split; [reflexivity|]. split; [exact S4|]. split; [exact G4|]. split; [exact R4|]. split; congruence.
        * destruct IH as (w4 & E4 & S4). exists w4. rewrite E4. split; auto.
        * exact IH.
      + destruct Hc as (w3 & E3 & S3 & ->). rewrite E3. exists w3. split; auto.
      + apply Hc. exact Hact.
  Qed.

  (* ---- workers finishing, then free slots refilled: futures are live or done with the reference value *)
  Definition okfut (s0 : st) (q : nat * fstat * bool) : Prop :=
    registered q = true /\ (stat_of q = FQueued \/ stat_of q = FRunning \/ exists r, stat_of q = FDone r /\ r = exec c s0 (tid_of q)).

  Lemma finish_fold b : forall w, (forall q, In q (f2t w) -> okfut (ws w) q) ->
    let w' := fold_left (finish_worker c) b w in
    ws w' = ws w /\ map tid_of (f2t w') = map tid_of (f2t w) /\ (forall q, In q (f2t w') -> okfut (ws w) q) /\
    budget w' = budget w /\ oracle w' = oracle w /\ maxw_ w' = maxw_ w.
  Proof.
    induction b as [|t0 b IH]; intros w Hok; cbn [fold_left]; cbn zeta.
    { split; [reflexivity|]. split; [reflexivity|]. split; [exact Hok|]. split; [reflexivity|]. split; reflexivity. }
    assert (Hok1 : forall q, In q (f2t (finish_worker c w t0)) -> okfut (ws (finish_worker c w t0)) q).
    { intros q Hq. unfold finish_worker in Hq. cbn [set_f2t f2t] in Hq. apply in_map_iff in Hq. destruct Hq as (q0 & Eq & Hin).
      change (ws (finish_worker c w t0)) with (ws w).
      destruct (Hok q0 Hin) as [R0 S0]. destruct (Nat.eqb (tid_of q0) t0) eqn:E; [|subst q; split; assumption].
      destruct q0 as [[tq sq] rq]. unfold okfut, tid_of, stat_of, registered in R0, S0, E |- *. cbn [fst snd] in R0, S0, E, Eq.
      apply Nat.eqb_eq in E. subst tq.
      destruct sq; subst q; cbn [fst snd]; try (split; [exact R0|exact S0]).
      split; [exact R0|]. right. right. exists (exec c (ws w) t0). split; reflexivity. }
    destruct (IH (finish_worker c w t0) Hok1) as (A & B & C & D & E & F). cbn zeta in *.
    assert (Hw : ws (finish_worker c w t0) = ws w) by reflexivity.
    split; [now rewrite A|]. split.
    - rewrite B. unfold finish_worker. cbn [set_f2t f2t]. rewrite map_map. apply map_ext. intros q.
      destruct (Nat.eqb (tid_of q) t0); [|reflexivity]. destruct (stat_of q); reflexivity.
    - split; [intros q Hq; rewrite <- Hw; now apply C|]. repeat split; [now rewrite D|now rewrite E|now rewrite F].
  Qed.

  Definition isdone (q : nat * fstat * bool) : bool :=
    registered q && match stat_of q with FDone _ | FCancelled => true | _ => false end.

  Lemma restart_ok w s0 : (forall q, In q (f2t w) -> okfut s0 q) ->
    ws (restart w) = ws w /\ map tid_of (f2t (restart w)) = map tid_of (f2t w) /\ (forall q, In q (f2t (restart w)) -> okfut s0 q) /\
    budget (restart w) = budget w /\ oracle (restart w) = oracle w /\ maxw_ (restart w) = maxw_ w.
  Proof.
    intros Hok. unfold restart. cbn [ws f2t budget oracle maxw_]. split; [reflexivity|]. split; [apply start_more_tids'|].
    split; [|repeat split].
    intros q Hq. destruct (start_more_stat _ _ _ Hq) as (q0 & Hin & Htid & Hreg & Hst). destruct (Hok q0 Hin) as [R0 S0].
    split; [congruence|]. rewrite Htid. destruct Hst as [Hst|[Hq0 Hst]]; rewrite Hst; [exact S0|]. right. now left.
  Qed.

  Lemma wait_step w b o2 : FInv w -> Reach p c (ws w) -> oracle w = b :: o2 ->
    exists dl,
      match process_batch p c (ws w) (map (fun q => (tid_of q, [])) dl) with
      | SOk s' => exists w', wait_and_process P c w = (inl tt, w') /\ ws w' = s' /\ FInv w' /\ Reach p c s' /\
                             oracle w' = o2 /\ maxw_ w' = maxw_ w
      | SRaise t s' => exists w', wait_and_process P c w = (inr (LabErr t), w') /\ ws w' = s'
      | SBad => False
      end.
  Proof.
    intros (Ht & Hl & Hb) Hr Ho.
    pose proof (Reach_Inv p c Hwf Hguard _ Hr) as I.
    destruct (tick_none w Hb) as (w0 & E0 & S0 & F0 & B0 & O0 & M0).
    set (w0' := {| ws := ws w0; f2t := f2t w0; maxw_ := maxw_ w0; budget := budget w0; second := second w0; fired := fired w0;
                   oracle := o2; ticks := ticks w0; terminated := terminated w0; nstarts := nstarts w0 |}).
    assert (En : next_batch w0 = (inl (Some b), w0')) by (unfold next_batch; rewrite O0, Ho; reflexivity).
    assert (Hok0 : forall q, In q (f2t w0') -> okfut (ws w0') q).
    { intros q Hq. cbn [w0' f2t] in Hq. rewrite F0 in Hq. destruct (Hl q Hq) as [R S']. split; [exact R|]. destruct S' as [S'|S']; auto. }
    destruct (finish_fold b w0' Hok0) as (A1 & A2 & A3 & A4 & A5 & A6). cbn zeta in *.
    set (wf1 := fold_left (finish_worker c) b w0') in *.
    destruct (restart_ok wf1 (ws w0') A3) as (R1 & R2 & R3 & R4 & R5 & R6).
    set (w1 := restart wf1) in *.
    set (dl := filter isdone (f2t w1)).
    exists dl.
    assert (Hws1 : ws w1 = ws w) by (rewrite R1, A1; cbn [w0' ws]; exact S0).
    assert (Htid1 : map tid_of (f2t w1) = active (ws w)) by (rewrite R2, A2; cbn [w0' f2t]; rewrite F0; exact Ht).
    assert (Hb1 : budget w1 = None) by (rewrite R4, A4; cbn [w0' budget]; exact B0).
    assert (Hdone : forall q, In q dl -> In (tid_of q) (active (ws w1)) /\ donefut q).
    { intros q Hq. unfold dl in Hq. apply filter_In in Hq. destruct Hq as [Hin Hd]. split.
      - rewrite Hws1, <- Htid1. now apply in_map.
      - destruct (R3 q Hin) as [Rq Sq]. unfold isdone in Hd. rewrite Rq in Hd. cbn [andb] in Hd.
        destruct Sq as [Sq|[Sq|(r & Sq & Er)]]; rewrite Sq in Hd; try discriminate.
        exists r. split; [exact Sq|]. rewrite Er. cbn [w0' ws]. rewrite S0. apply (exec_ref c (ws w) (tid_of q) Hwf I).
        rewrite <- Ht. rewrite <- F0. change (f2t w0) with (f2t w0'). rewrite <- A2, <- R2. now apply in_map. }
    assert (HG : GInv dl w1).
    { split; [rewrite Hws1; exact Htid1|]. split; [exact Hb1|]. intros q Hq. destruct (R3 q Hq) as [Rq Sq].
      destruct Sq as [Sq|[Sq|(r & Sq & Er)]]; [left; split; auto|left; split; auto|].
      right. apply in_map. unfold dl. apply filter_In. split; [exact Hq|]. unfold isdone. now rewrite Rq, Sq. }
    assert (Hnd : NoDup (map tid_of dl)).
    { unfold dl. apply NoDup_map_filter_local. rewrite Htid1. apply I. }
    pose proof (process_done dl w1 HG ltac:(rewrite Hws1; exact Hr) Hnd Hdone) as HP. rewrite Hws1 in HP.
    assert (Hprog : wait_and_process P c w =
                    match for_each dl the_body w1 with
                    | (inl _, w') => (inl tt, w')
                    | (inr e, w') => (inr e, w')
                    end).
    { unfold wait_and_process. unfold bind at 1. rewrite E0. unfold bind at 1. rewrite En. unfold bind at 1. unfold ret at 1.
      unfold bind at 1. unfold modify at 1. fold wf1. fold w1. unfold bind at 1. unfold get at 1. unfold bind at 1.
      change (filter (fun p0 => registered p0 && match stat_of p0 with FDone _ | FCancelled => true | _ => false end) (f2t w1)) with dl.
      change (for_each dl _ w1) with (for_each dl the_body w1).
      destruct (for_each dl the_body w1) as [[u|e] w2]; [|reflexivity]. rewrite Hpop. reflexivity. }
    destruct (process_batch p c (ws w) (map (fun q => (tid_of q, [])) dl)) as [s'|t s'|].
    - destruct HP as (w2 & E2 & S2 & (G1 & G2 & G3) & Rs & O2 & M2). exists w2. rewrite Hprog, E2.
      split; [reflexivity|]. split; [exact S2|]. split.
      + split; [exact G1|]. split; [|exact G2]. intros q Hq. destruct (G3 q Hq) as [Hlive|[]]. exact Hlive.
      + split; [exact Rs|]. split; [rewrite O2, R5, A5; reflexivity|]. rewrite M2, R6, A6. cbn [w0' maxw_]. exact M0.
    - destruct HP as (w2 & E2 & S2). exists w2. rewrite Hprog, E2. split; [reflexivity|exact S2].
    - exact HP.
  Qed.

  (* ---- the main loop *)
  Hypothesis Hcmp : p_cmp p = CmpGe.
  Hypothesis Hcap : forall y, maxpar_of c y <> Some 0.

  Lemma loop_cond_done w : FInv w -> negb (loop_cond w) = loop_done (ws w).
  Proof.
    intros (Ht & Hl & _). unfold loop_cond, loop_done. destruct (pending (ws w)) as [|x l]; cbn [negb orb]; [|reflexivity].
    destruct (f2t w) as [|q f] eqn:Ef; cbn [map] in Ht; rewrite <- Ht; cbn [existsb negb]; [reflexivity|].
    destruct (Hl q (or_introl eq_refl)) as [Rq _]. now rewrite Rq.
  Qed.

  Lemma wait_exhausted w : budget w = None -> oracle w = [] -> exists w', wait_and_process P c w = (inr Exhausted, w').
  Proof.
    intros Hb Ho. destruct (tick_none w Hb) as (w0 & E0 & S0 & F0 & B0 & O0 & M0).
    unfold wait_and_process. unfold bind at 1. rewrite E0. unfold bind at 1. unfold next_batch. rewrite O0, Ho.
    unfold bind at 1. unfold raise. eexists. reflexivity.
  Qed.

  Theorem main_loop_refines : forall fuel w, FInv w -> Reach p c (ws w) ->
    match main_loop P c fuel w with
    | (inl true, w') => exists o', loop p c (ws w) o' = (final p c (ws w'), ws w')
    | (inr (LabErr t), w') => exists o', loop p c (ws w) o' = (RaisedLabError t, ws w')
    | (inl false, _) | (inr Exhausted, _) => True
    | (inr KI, _) | (inr KeyErr, _) => False
    end.
  Proof.
    induction fuel as [|f IH]; intros w HF Hr; cbn [main_loop]; [exact I|].
    unfold bind at 1. unfold get at 1. rewrite (loop_cond_done w HF).
    destruct (loop_done (ws w)) eqn:Ed.
    - unfold ret. exists []. cbn [loop]. now rewrite Ed.
    - destruct (submit_all (get_ready p c (ws w)) w HF) as (w1 & E1 & S1 & F1 & O1 & M1).
      unfold bind at 1. fold p. rewrite E1. fold (submit_phase p c (ws w)) in S1.
      pose proof (Reach_submit_phase p c (ws w) Hr) as Hr1. rewrite <- S1 in Hr1.
      pose proof (progress p c Hcmp Hwf Hguard Hcap (ws w) (Reach_Inv p c Hwf Hguard _ Hr) Ed) as Hprog.
      destruct (oracle w1) as [|b o2] eqn:Eo.
      + destruct (wait_exhausted w1 (proj2 (proj2 F1)) Eo) as (w2 & E2). unfold bind at 1. rewrite E2. exact I.
      + destruct (wait_step w1 b o2 F1 Hr1 Eo) as (dl & Hw). rewrite S1 in Hw.
        destruct (process_batch p c (submit_phase p c (ws w)) (map (fun q => (tid_of q, [])) dl)) as [s'|t s'|] eqn:Eb.
        * destruct Hw as (w2 & E2 & S2 & F2 & R2 & O2 & M2). unfold bind at 1. rewrite E2.
          specialize (IH w2 F2 ltac:(rewrite S2; exact R2)). rewrite S2 in IH.
          destruct (main_loop P c f w2) as [[[|]|e] w3]; try exact IH.
          -- destruct IH as (o' & Eo'). exists (map (fun q => (tid_of q, [])) dl :: o'). cbn [loop]. rewrite Ed.
             destruct (active (submit_phase p c (ws w))) eqn:Ea; [congruence|]. rewrite Eb. exact Eo'.
          -- destruct e; try exact IH. destruct IH as (o' & Eo'). exists (map (fun q => (tid_of q, [])) dl :: o'). cbn [loop]. rewrite Ed.
             destruct (active (submit_phase p c (ws w))) eqn:Ea; [congruence|]. rewrite Eb. exact Eo'.
        * destruct Hw as (w2 & E2 & S2). unfold bind at 1. rewrite E2.
          exists [map (fun q => (tid_of q, [])) dl]. cbn [loop]. rewrite Ed.
          destruct (active (submit_phase p c (ws w))) eqn:Ea; [congruence|]. rewrite Eb, S2. reflexivity.
        * destruct Hw.
  Qed.

  Hypothesis Hfinal : p_final p = FFilter.

  (* Without interrupts, a run of the process-runner model is a run of the abstract scheduler model: same returned dict or
     same LabError, same final coordinator state (history included). *)
  Theorem intr_refines_sched maxw o :
    let '(out, w) := run_intr P c maxw o None None in
    match out with
    | IReturned r => exists o', run p c o' = (Returned r, ws w)
    | IRaised (LabErr t) => exists o', run p c o' = (RaisedLabError t, ws w)
    | IOutOfOracle => True
    | IRaised _ => False
    end.
  Proof.
    unfold run_intr, irun. set (fuel := S (S (List.length o))). set (w0 := init_world c maxw o None None).
    assert (HF : FInv w0).
    { unfold FInv, w0, init_world, init. cbn. split; [reflexivity|]. split; [intros ? []|reflexivity]. }
    assert (Hr : Reach p c (ws w0)) by constructor.
    pose proof (main_loop_refines fuel w0 HF Hr) as HM.
    unfold try_catch, bind. destruct (main_loop P c fuel w0) as [[[|]|e] w1].
    - unfold get, ret. unfold final_of. fold p. destruct HM as (o' & Eo'). unfold final in *. rewrite Hfinal in *.
      exists o'. exact Eo'.
    - unfold get, ret. exact I.
    - destruct e; try (exfalso; exact HM).
      + unfold ret. exact HM.
      + unfold ret. exact I.
  Qed.
End Refine.

Require Import LT.Proofs.SchedRef.
Theorem process_runner_returns_reference P : p_dep_guard (ip P) = true -> ip_gen P = PopFirst -> p_cmp (ip P) = CmpGe ->
  p_final (ip P) = FFilter -> forall c maxw o r w,
  wfb c = true -> store_sound c -> (forall t, In t (req c) -> pure c t <> None) -> (forall y, maxpar_of c y <> Some 0) ->
  run_intr P c maxw o None None = (IReturned r, w) ->
  map (fun kv => (fst kv, Some (snd kv))) r = map (fun t => (t, pure c t)) (dedup (req c)).
Proof.
  intros Hg Hp Hc Hf c maxw o r w Hw Hs Hok Hcap E.
  pose proof (intr_refines_sched P c (wfb_wf c Hw) Hg Hp Hc Hcap Hf maxw o) as H. rewrite E in H. destruct H as (o' & Ho').
  apply (returns_reference (ip P) Hg Hf c o' r Hw Hs Hok). now rewrite Ho'.
Qed.
