(* BaseLemmas.v — list / association-list lemmas used by the scheduler proofs. *)
Require Import LT.Model.Base.

Lemma mem_In x l : mem x l = true <-> In x l.
Proof.
  unfold mem. rewrite existsb_exists. split.
  - intros [y [Hy E]]. apply Nat.eqb_eq in E. now subst.
  - intros H. exists x. split; [exact H|apply Nat.eqb_refl].
Qed.
Lemma mem_false x l : mem x l = false <-> ~ In x l.
Proof. rewrite <- mem_In. destruct (mem x l); split; congruence. Qed.

Lemma In_remove1 x y l : In y (remove1 x l) <-> In y l /\ y <> x.
Proof.
  unfold remove1. rewrite filter_In, negb_true_iff, Nat.eqb_neq. intuition congruence.
Qed.

Lemma NoDup_remove1 x l : NoDup l -> NoDup (remove1 x l).
Proof. apply NoDup_filter. Qed.

Lemma NoDup_app_intro {A} (a b : list A) :
  NoDup a -> NoDup b -> (forall x, In x a -> ~ In x b) -> NoDup (a ++ b).
Proof.
  induction a as [|x a IH]; intros Ha Hb Hd; cbn [app]; [exact Hb|].
  inversion Ha as [|? ? Hx Ha']; subst. constructor.
  - rewrite in_app_iff. intros [H|H]; [contradiction|]. apply (Hd x); [now left|exact H].
  - apply IH; auto. intros y Hy. apply Hd. now right.
Qed.
Lemma NoDup_app_inv {A} (a b : list A) :
  NoDup (a ++ b) -> NoDup a /\ NoDup b /\ (forall x, In x a -> ~ In x b).
Proof.
  induction a as [|x a IH]; cbn [app]; intros H.
  - repeat split; [constructor|exact H|intros x []].
  - inversion H as [|? ? Hx H']; subst. destruct (IH H') as (A1 & A2 & A3). repeat split.
    + constructor; [intro Hi; apply Hx; apply in_or_app; now left|exact A1].
    + exact A2.
    + intros y [<-|Hy]; [intro Hi; apply Hx; apply in_or_app; now right|now apply A3].
Qed.

Lemma In_dedup x l : In x (dedup l) <-> In x l.
Proof.
  induction l as [|a l IH]; cbn [dedup]; [tauto|]. cbn [In]. rewrite In_remove1, IH.
  destruct (Nat.eq_dec x a); intuition congruence.
Qed.
Lemma NoDup_dedup l : NoDup (dedup l).
Proof.
  induction l as [|a l IH]; cbn [dedup]; constructor.
  - rewrite In_remove1. tauto.
  - now apply NoDup_remove1.
Qed.
Lemma dedup_nil l : dedup l = [] -> l = [].
Proof. destruct l; cbn [dedup]; congruence. Qed.

Section MapLemmas.
  Context {V : Type}.
  Implicit Types m : list (nat * V).

  Lemma lookup_del_other k k' m : k <> k' -> lookup (del k' m) k = lookup m k.
  Proof.
    intros Hne. induction m as [|[a v] m IH]; cbn [del filter lookup fst]; [reflexivity|].
    destruct (Nat.eqb_spec k' a) as [Heq|Hka]; cbn [negb lookup].
    - subst a. destruct (Nat.eqb_spec k k'); [congruence|]. exact IH.
    - destruct (Nat.eqb_spec k a); [reflexivity|]. exact IH.
  Qed.
  Lemma lookup_del_same k m : lookup (del k m) k = None.
  Proof.
    induction m as [|[a v] m IH]; cbn [del filter lookup fst]; [reflexivity|].
    destruct (Nat.eqb_spec k a) as [Heq|Hka]; cbn [negb lookup]; [exact IH|].
    destruct (Nat.eqb_spec k a); [congruence|exact IH].
  Qed.
  Lemma lookup_del k k' m : lookup (del k' m) k = if Nat.eqb k k' then None else lookup m k.
  Proof.
    destruct (Nat.eqb_spec k k') as [->|Hne]; [apply lookup_del_same|now apply lookup_del_other].
  Qed.
  Lemma has_lookup m k : has m k = true <-> lookup m k <> None.
  Proof. unfold has. destruct (lookup m k); split; congruence. Qed.
  Lemma has_false m k : has m k = false <-> lookup m k = None.
  Proof. unfold has. destruct (lookup m k); split; congruence. Qed.
  Lemma lookup_In_keys m k v : lookup m k = Some v -> In k (keys m).
  Proof.
    induction m as [|[a w] m IH]; cbn [lookup keys map fst]; [congruence|].
    destruct (Nat.eqb_spec k a) as [->|Hne]; [now left|]. intros H. right. now apply IH.
  Qed.
  Lemma keys_lookup m k : In k (keys m) -> lookup m k <> None.
  Proof.
    induction m as [|[a w] m IH]; cbn [lookup keys map fst]; [tauto|].
    destruct (Nat.eqb_spec k a) as [->|Hne]; [congruence|]. intros [H|H]; [congruence|now apply IH].
  Qed.
  Lemma all_none_nil m : (forall k, lookup m k = None) -> m = [].
  Proof.
    destruct m as [|[a w] m]; [reflexivity|]. intros H. specialize (H a). cbn [lookup] in H.
    rewrite Nat.eqb_refl in H. discriminate.
  Qed.
End MapLemmas.

Lemma opt_all_map_ext {A B} (f g : A -> option B) l :
  (forall x, In x l -> f x = g x) -> opt_all (map f l) = opt_all (map g l).
Proof.
  induction l as [|a l IH]; intros H; cbn [map opt_all]; [reflexivity|].
  rewrite (H a (or_introl eq_refl)). destruct (g a); [|reflexivity].
  rewrite IH; [reflexivity|]. intros; apply H; now right.
Qed.

Lemma list_min_exists (l : list nat) : l <> [] -> exists m, In m l /\ forall x, In x l -> m <= x.
Proof.
  induction l as [|a l IH]; [congruence|]. intros _. destruct l as [|b l].
  - exists a. split; [now left|]. intros x [<-|[]]. lia.
  - destruct (IH ltac:(discriminate)) as (m & Hm & Hle). destruct (Nat.le_ge_cases a m).
    + exists a. split; [now left|]. intros x [<-|Hx]; [lia|]. specialize (Hle x Hx). lia.
    + exists m. split; [now right|]. intros x [<-|Hx]; [lia|]. now apply Hle.
Qed.

Lemma filter_nil_iff {A} (f : A -> bool) l : filter f l = [] <-> forall x, In x l -> f x = false.
Proof.
  induction l as [|a l IH]; cbn [filter]; [split; [intros _ x []|reflexivity]|].
  destruct (f a) eqn:E; split.
  - discriminate.
  - intros H. specialize (H a (or_introl eq_refl)). congruence.
  - intros H x [<-|Hx]; [exact E|]. now apply IH.
  - intros H. apply IH. intros x Hx. apply H. now right.
Qed.

Lemma In_sort_nat x l : In x (sort_nat l) <-> In x l.
Proof.
  assert (Hins : forall y l', In x (insert_sorted y l') <-> x = y \/ In x l').
  { intros y l'. induction l' as [|b l' IH]; cbn [insert_sorted In]; [intuition|].
    destruct (y <=? b); cbn [In]; [intuition|]. rewrite IH. intuition. }
  induction l as [|a l IH]; cbn [sort_nat fold_right]; [tauto|].
  fold (sort_nat l). rewrite Hins, IH. cbn [In]. intuition.
Qed.

Lemma flat_map_ext_in_local {A B} (f g : A -> list B) l :
  (forall x, In x l -> f x = g x) -> flat_map f l = flat_map g l.
Proof.
  induction l as [|a l IH]; intros H; cbn [flat_map]; [reflexivity|].
  rewrite (H a (or_introl eq_refl)), IH; [reflexivity|]. intros; apply H; now right.
Qed.

Lemma In_firstn_local {A} (l : list A) k x : In x (firstn k l) -> In x l.
Proof. intros H. rewrite <- (firstn_skipn k l). apply in_or_app. now left. Qed.

Lemma In_skipn_local {A} (l : list A) k x : In x (skipn k l) -> In x l.
Proof. intros H. rewrite <- (firstn_skipn k l). apply in_or_app. now right. Qed.
