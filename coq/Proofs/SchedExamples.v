(* SchedExamples.v — concrete configurations meeting the hypotheses of the scheduler theorems (non-vacuity). *)
Require Import LT.Model.Base LT.Model.Sched LT.Proofs.BaseLemmas LT.Proofs.PlanProofs LT.Proofs.SchedInv
  LT.Proofs.SchedThms LT.Proofs.SchedLimits LT.Proofs.SchedRef.

Definition good_params : params := {| p_cmp := CmpGe; p_dep_guard := true; p_missing := MContinue; p_final := FFilter |}.

(* diamond over a shared leaf, one failing task, a cached entry, two types with limits 1 and none *)
Definition ex_cfg : cfg :=
  {| ntasks := 5; deps := [[]; [0]; [0]; [1; 2]; [0]]; reads := [[]; [0]; [0]; [1; 2]; [0]];
     behs := [BOk; BOk; BOk; BOk; BRaise]; ty := [0; 1; 1; 0; 1]; maxpar := [None; Some 1];
     cacheable := [true; false]; req := [3; 4; 3; 1]; pre := [(0, Node 0 [])]; bust := false; cont := true |}.
Definition ex_oracle : list batch := [[(0, [])]; [(4, [])]; [(1, [])]; [(2, [])]; [(3, [])]].

Example ex_wf : wfb ex_cfg = true.
Proof. vm_compute. reflexivity. Qed.

Example ex_store_sound : store_sound ex_cfg.
Proof.
  intros t v H. destruct t as [|t]; cbn in H; [|discriminate]. injection H as <-. vm_compute. reflexivity.
Qed.

Example ex_run : fst (run good_params ex_cfg ex_oracle)
                 = Returned [(3, Node 3 [Node 1 [Node 0 []]; Node 2 [Node 0 []]]); (1, Node 1 [Node 0 []])].
Proof. vm_compute. reflexivity. Qed.

Example ex_run_rmap_empty : rmap (snd (run good_params ex_cfg ex_oracle)) = [].
Proof. vm_compute. reflexivity. Qed.

(* the same graph, everything succeeding: premises of the all-succeed theorem are satisfiable *)
Definition ex_ok : cfg :=
  {| ntasks := 4; deps := [[]; [0]; [0]; [1; 2]]; reads := [[]; [0]; [0]; [1; 2]];
     behs := [BOk; BOk; BOk; BOk]; ty := [0; 1; 1; 0]; maxpar := [None; Some 1];
     cacheable := [true; false]; req := [3; 1]; pre := [(0, Node 0 [])]; bust := false; cont := false |}.
Example ex_ok_wf : wfb ex_ok = true.
Proof. vm_compute. reflexivity. Qed.
Example ex_ok_sound : store_sound ex_ok.
Proof. intros t v H. destruct t as [|t]; cbn in H; [|discriminate]. injection H as <-. vm_compute. reflexivity. Qed.
Example ex_ok_all : forall t, In t (req ex_ok) -> pure ex_ok t <> None.
Proof. intros t [<-|[<-|[]]]; vm_compute; discriminate. Qed.
Example ex_ok_caps : forall y, maxpar_of ex_ok y <> Some 0.
Proof. intros [|[|[|y]]]; vm_compute; discriminate. Qed.

(* a run that stops at the first failure *)
Definition ex_stop : cfg :=
  {| ntasks := 2; deps := [[]; [0]]; reads := [[]; [0]]; behs := [BRaise; BOk]; ty := [0; 0]; maxpar := [None];
     cacheable := [false]; req := [1]; pre := []; bust := false; cont := false |}.
Example ex_stop_run : fst (run good_params ex_stop [[(0, [])]]) = RaisedLabError 0.
Proof. vm_compute. reflexivity. Qed.
