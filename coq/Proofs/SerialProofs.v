(* SerialProofs.v — the serial runner refines the abstract runner: its run is the abstract run under the oracle "complete the
   oldest submitted task, alone", so everything proved for every oracle holds for it; it never offers a bad completion. *)
Require Import LT.Model.Base LT.Model.Sched LT.Model.Serial LT.Proofs.BaseLemmas.

Theorem serial_refines p c : forall fuel s rels,
  loop p c s (serial_oracle p c s rels fuel) = serial_loop p c s rels fuel.
Proof.
  induction fuel as [|f IH]; intros s rels; cbn [serial_loop serial_oracle].
  - destruct (loop_done s) eqn:Ed; cbn [loop]; rewrite Ed; reflexivity.
  - destruct (loop_done s) eqn:Ed; [cbn [loop]; now rewrite Ed|].
    destruct (active (submit_phase p c s)) as [|t rest] eqn:Ea.
    + cbn [loop]. rewrite Ed, Ea. reflexivity.
    + cbn [loop]. rewrite Ed, Ea. cbn [process_batch].
      destruct (complete p c (submit_phase p c s) t (hd [] rels)) as [s2|u s2|] eqn:Ec; [apply IH|reflexivity|reflexivity].
Qed.

Corollary serial_run_is_a_run p c rels : exists o, run p c o = serial_run p c rels.
Proof. exists (serial_oracle p c (init c) rels (S (List.length (plan c)))). apply serial_refines. Qed.

(* the task the serial runner completes is always one it was given *)
Theorem serial_never_bad p c : forall fuel s rels, fst (serial_loop p c s rels fuel) <> BadOracle.
Proof.
  induction fuel as [|f IH]; intros s rels; cbn [serial_loop].
  - destruct (loop_done s); cbn [fst]; [|discriminate]. unfold final. destruct (p_final p); [discriminate| |]; destruct (opt_all _); discriminate.
  - destruct (loop_done s) eqn:Ed.
    + cbn [fst]. unfold final. destruct (p_final p); [discriminate| |]; destruct (opt_all _); discriminate.
    + destruct (active (submit_phase p c s)) as [|t rest] eqn:Ea; [cbn [fst]; discriminate|].
      destruct (complete p c (submit_phase p c s) t (hd [] rels)) as [s2|u s2|] eqn:Ec; [apply IH|cbn [fst]; discriminate|].
      exfalso. unfold complete in Ec. rewrite Ea in Ec. cbn [mem existsb] in Ec. rewrite Nat.eqb_refl in Ec. cbn [orb negb] in Ec.
      destruct (exec c (submit_phase p c s) t); [discriminate|]. destruct (cont c); discriminate.
Qed.

(* ---- the serial run always ends within |plan| polling rounds: it is never out of fuel, never stuck *)
Require Import LT.Proofs.PlanProofs LT.Proofs.SchedInv LT.Proofs.SchedThms LT.Proofs.SchedLimits.

Section SerialTerminates.
  Variable p : params.
  Variable c : cfg.
  Hypothesis Hwf : wf c.
  Hypothesis Hguard : p_dep_guard p = true.

  Lemma serial_loop_terminates : forall fuel s rels, Reach p c s -> measure s < fuel ->
    fst (serial_loop p c s rels fuel) <> OutOfOracle.
  Proof.
    induction fuel as [|f IH]; intros s rels Hr Hm; [lia|]. cbn [serial_loop].
    destruct (loop_done s) eqn:Ed.
    - cbn [fst]. unfold final. destruct (p_final p); [discriminate| |]; destruct (opt_all _); discriminate.
    - pose proof (Reach_Inv p c Hwf Hguard s Hr) as I. pose proof (Reach_submit_phase p c s Hr) as H1.
      destruct (active (submit_phase p c s)) as [|t rest] eqn:Ea; [cbn [fst]; discriminate|].
      destruct (complete p c (submit_phase p c s) t (hd [] rels)) as [s2|u s2|] eqn:Ec; cbn [fst]; try discriminate.
      apply IH; [econstructor; eauto|].
      pose proof (measure_complete p c Hwf _ _ _ _ (Reach_Inv p c Hwf Hguard _ H1) Ec) as Hc.
      rewrite (measure_submit_phase p c Hguard s I) in Hc. lia.
  Qed.

  Theorem serial_terminates rels : fst (serial_run p c rels) <> OutOfOracle.
  Proof.
    unfold serial_run. apply serial_loop_terminates; [constructor|].
    unfold measure, init. cbn [pending active List.length]. lia.
  Qed.
End SerialTerminates.

Require Import LT.Proofs.SchedRef.
Theorem serial_returns_reference p : p_dep_guard p = true -> p_final p = FFilter -> forall c rels r,
  wfb c = true -> store_sound c -> (forall t, In t (req c) -> pure c t <> None) ->
  fst (serial_run p c rels) = Returned r ->
  map (fun kv => (fst kv, Some (snd kv))) r = map (fun t => (t, pure c t)) (dedup (req c)).
Proof.
  intros Hg Hf c rels r Hw Hs Hok E. destruct (serial_run_is_a_run p c rels) as [o Ho].
  apply (returns_reference p Hg Hf c o r Hw Hs Hok). now rewrite Ho.
Qed.

Theorem serial_ends p : p_cmp p = CmpGe -> p_dep_guard p = true -> forall c rels,
  wfb c = true -> (forall y, maxpar_of c y <> Some 0) ->
  (fst (serial_run p c rels) <> OutOfOracle) /\ (fst (serial_run p c rels) <> Stuck) /\ (fst (serial_run p c rels) <> BadOracle).
Proof.
  intros Hc Hg c rels Hw Hcap. split; [exact (serial_terminates p c (wfb_wf c Hw) Hg rels)|]. split.
  - destruct (serial_run_is_a_run p c rels) as [o Ho]. rewrite <- Ho. exact (never_stuck p c Hc (wfb_wf c Hw) Hg Hcap o).
  - exact (serial_never_bad p c (S (List.length (plan c))) (init c) rels).
Qed.
