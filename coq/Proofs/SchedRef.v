(* SchedRef.v — the reference value does not depend on scheduling parameters nor on a sound cache (C01),
   and statements about the event history of whole runs (C02, C03). *)
Require Import LT.Model.Base LT.Model.Sched LT.Proofs.BaseLemmas LT.Proofs.PlanProofs LT.Proofs.SchedInv
  LT.Proofs.SchedThms LT.Proofs.SchedLimits.

Definition nocache (c : cfg) : cfg :=
  {| ntasks := ntasks c; deps := deps c; reads := reads c; behs := behs c; ty := ty c; maxpar := maxpar c;
     cacheable := cacheable c; req := req c; pre := []; bust := bust c; cont := cont c |}.

(* plain sequential dependency-first evaluation, no cache *)
Definition pure (c : cfg) (t : nat) : option val := ref (nocache c) t.
Definition store_sound (c : cfg) : Prop := forall t v, lookup (pre c) t = Some v -> pure c t = Some v.

Lemma wf_nocache c : wf c -> wf (nocache c).
Proof. intros H. exact H. Qed.

Lemma ref_pure c : wf c -> store_sound c -> forall t, ref c t = pure c t.
Proof.
  intros Hwf Hs t. induction t as [t IH] using lt_wf_ind. unfold pure.
  rewrite (ref_unfold c t Hwf), (ref_unfold (nocache c) t (wf_nocache c Hwf)).
  assert (Hnc : use_cache_in (nocache c) (pre (nocache c)) t = false).
  { unfold use_cache_in. cbn [nocache pre has lookup]. apply andb_false_r. }
  rewrite Hnc. destruct (use_cache_in c (pre c) t) eqn:Euc.
  - unfold use_cache_in in Euc. apply andb_true_iff in Euc. destruct Euc as [_ Eh]. unfold has in Eh.
    destruct (lookup (pre c) t) as [v|] eqn:El; [|discriminate]. pose proof (Hs t v El) as Hp.
    unfold pure in Hp. rewrite (ref_unfold (nocache c) t (wf_nocache c Hwf)), Hnc in Hp. now rewrite Hp.
  - change (beh_of (nocache c) t) with (beh_of c t). change (reads_of (nocache c) t) with (reads_of c t).
    destruct (beh_of c t); [|reflexivity]. f_equal. apply opt_all_map_ext. intros d Hd.
    apply IH. destruct Hwf as (H1 & H2 & _). apply H1. now apply H2.
Qed.

Lemma pure_ext c1 c2 : reads c1 = reads c2 -> behs c1 = behs c2 -> forall t, pure c1 t = pure c2 t.
Proof.
  intros Hr Hb t. unfold pure, ref. generalize (S t). intros f. revert t.
  induction f as [|f IH]; intros t; cbn [ref_f]; [reflexivity|].
  assert (H1 : use_cache_in (nocache c1) (pre (nocache c1)) t = false) by (unfold use_cache_in; cbn [nocache pre has lookup]; apply andb_false_r).
  assert (H2 : use_cache_in (nocache c2) (pre (nocache c2)) t = false) by (unfold use_cache_in; cbn [nocache pre has lookup]; apply andb_false_r).
  rewrite H1, H2. unfold beh_of, reads_of. cbn [nocache behs reads]. rewrite Hr, Hb.
  destruct (nth t (behs c2) BOk); [|reflexivity]. f_equal. f_equal. apply map_ext. exact IH.
Qed.

Lemma expected_all_ok c (l : list nat) : (forall t, In t l -> ref c t <> None) ->
  map (fun kv => (fst kv, Some (snd kv))) (flat_map (fun t => match ref c t with Some v => [(t, v)] | None => [] end) l)
  = map (fun t => (t, ref c t)) l.
Proof.
  induction l as [|a l IH]; intros H; cbn [flat_map map]; [reflexivity|].
  destruct (ref c a) as [v|] eqn:E; [|exfalso; apply (H a); [now left|exact E]].
  cbn [app map fst snd]. f_equal. apply IH. intros t Ht. apply H. now right.
Qed.

Section Run.
  Variable p : params.
  Hypothesis Hguard : p_dep_guard p = true.
  Hypothesis Hmiss : p_missing p = MContinue.
  Hypothesis Hfinal : p_final p = FFilter.

  (* C01: keys are exactly the requested tasks in request order; each value is the sequential-evaluation value *)
  Theorem returns_reference c o r : wfb c = true -> store_sound c ->
    (forall t, In t (req c) -> pure c t <> None) ->
    fst (run p c o) = Returned r ->
    map (fun kv => (fst kv, Some (snd kv))) r = map (fun t => (t, pure c t)) (dedup (req c)).
  Proof.
    intros Hw Hs Hok E. apply wfb_wf in Hw.
    rewrite (run_returns_expected p c Hw Hguard Hfinal o r E). unfold expected.
    rewrite expected_all_ok.
    - apply map_ext. intros t. now rewrite (ref_pure c Hw Hs).
    - intros t Ht. rewrite (ref_pure c Hw Hs). apply Hok. apply (proj1 (In_dedup _ _)). exact Ht.
  Qed.

  (* C01: independence of backend schedule (oracle), limits, types, cache pre-state, bust_cache, continue flag *)
  Theorem returns_independent c1 c2 o1 o2 r1 r2 : wfb c1 = true -> wfb c2 = true ->
    store_sound c1 -> store_sound c2 ->
    reads c1 = reads c2 -> behs c1 = behs c2 -> req c1 = req c2 ->
    (forall t, In t (req c1) -> pure c1 t <> None) ->
    fst (run p c1 o1) = Returned r1 -> fst (run p c2 o2) = Returned r2 -> r1 = r2.
  Proof.
    intros W1 W2 S1 S2 Hr Hb Hq Hok E1 E2.
    pose proof (returns_reference c1 o1 r1 W1 S1 Hok E1) as H1.
    assert (Hok2 : forall t, In t (req c2) -> pure c2 t <> None).
    { intros t Ht. rewrite <- (pure_ext c1 c2 Hr Hb). apply Hok. now rewrite Hq. }
    pose proof (returns_reference c2 o2 r2 W2 S2 Hok2 E2) as H2.
    rewrite Hq in H1. rewrite (map_ext _ _ (fun t => f_equal (pair t) (pure_ext c1 c2 Hr Hb t))) in H1.
    rewrite <- H2 in H1. clear -H1. revert r2 H1.
    induction r1 as [|[a v] r1 IH]; intros [|[b w] r2] H; cbn [map fst snd] in H; try discriminate; [reflexivity|].
    injection H as -> -> H. f_equal. now apply IH.
  Qed.

  (* ------------------------------------------------------------ the history of any run (C02, C03) *)
  Definition hist_ok (c : cfg) (h : list event) : Prop :=
    NoDup (submitted h) /\
    (forall t, In t (submitted h) -> Needed c t) /\
    (forall h2 t uc h1, h = h2 ++ ESubmit t uc :: h1 ->
        uc = use_cache_in c (pre c) t /\ forall d, In d (pdeps_of c t) -> In d (finishes h1)) /\
    (forall t r, In (EFinish t r) h -> r = ref c t).

  Lemma Inv_hist_ok c s : wf c -> Inv c s -> hist_ok c (hist s).
  Proof.
    intros Hwf I. split; [apply I|]. split; [|split].
    - intros t Ht. apply (I_hsub c s I) in Ht. destruct (plan_spec c Hwf) as (_ & _ & _ & P4 & _).
      apply P4. apply (I_cover c s I). tauto.
    - intros h2 t uc h1 E. destruct (I_horder c s I h2 t uc h1 E) as (A & B & C). auto.
    - apply I.
  Qed.

  Theorem run_hist_ok c o : wfb c = true -> hist_ok c (hist (snd (run p c o))).
  Proof.
    intros Hw. apply wfb_wf in Hw. pose proof (run_Reach p c o) as HR.
    destruct (fst (run p c o)) eqn:E; try (apply Inv_hist_ok; [exact Hw|]; now apply (Reach_Inv p c Hw Hguard)).
    destruct HR as (s & order & Hr & Ec).
    destruct (raise_is_failure p c Hw Hguard s t order _ Hr Ec) as (A & B & C & D & F & G & H).
    pose proof (Inv_hist_ok c s Hw (Reach_Inv p c Hw Hguard s Hr)) as (K1 & K2 & K3 & K4).
    rewrite F. split; [exact K1|]. split; [exact K2|]. split.
    - intros h2 u uc h1 E2. destruct h2 as [|e h2]; cbn [app] in E2; [discriminate|].
      injection E2 as _ E2. eapply K3; eauto.
    - intros u r [Hu|Hu]; [injection Hu as <- <-; congruence|now apply K4].
  Qed.

  (* what a running task reads (C02) *)
  Theorem reads_real c s t : wf c -> Reach p c s -> In t (active s) -> use_cache_in c (pre c) t = false ->
    exec c s t = ref c t /\
    forall d, In d (reads_of c t) ->
      In d (finished s) /\ lookup (rmap s) d = ref c d /\ (In d (failed s) <-> ref c d = None).
  Proof.
    intros Hwf Hr Ha Huc. pose proof (Reach_Inv p c Hwf Hguard s Hr) as I.
    split; [now apply exec_ref|]. intros d Hd.
    assert (Hpd : In d (pdeps_of c t)).
    { unfold pdeps_of. rewrite Huc. destruct Hwf as (_ & H2 & _). now apply H2. }
    pose proof (I_deps c s I t Ha d Hpd) as Hf. split; [exact Hf|]. split; [|now apply (I_fail_ref c s I)].
    destruct (ref c d) as [v|] eqn:Er.
    - assert (Hnf : ~ In d (failed s)). { intro F. apply (I_fail_ref c s I d Hf) in F. congruence. }
      assert (Hne : pdependents c (plan c) (finished s) d <> []).
      { intro E. rewrite pdependents_nil in E. apply (I_af c s I t Ha). apply E; [|exact Hpd].
        apply (I_cover c s I). right; now left. }
      pose proof (I_retained c s I d Hf Hnf Hne) as Hl.
      destruct (lookup (rmap s) d) as [w|] eqn:El; [|congruence].
      destruct (I_sound c s I d w El) as [Hw _]. congruence.
    - destruct (lookup (rmap s) d) as [w|] eqn:El; [|reflexivity].
      destruct (I_sound c s I d w El) as [Hw _]. congruence.
  Qed.
End Run.
