(* SchedInv.v — the invariants of the coordinator model, proved for every reachable state. *)
Require Import LT.Model.Base LT.Model.Sched LT.Proofs.BaseLemmas LT.Proofs.PlanProofs.

(* ------------------------------------------------------------------ reference evaluator *)
Lemma ref_f_stable c : wf c -> forall t f1 f2, t < f1 -> t < f2 -> ref_f c f1 t = ref_f c f2 t.
Proof.
  intros (Hd & Hr & _) t. induction t as [t IH] using lt_wf_ind. intros f1 f2 H1 H2.
  destruct f1 as [|f1]; [lia|]. destruct f2 as [|f2]; [lia|]. cbn [ref_f].
  destruct (use_cache_in c (pre c) t); [reflexivity|]. destruct (beh_of c t); [|reflexivity].
  f_equal. apply opt_all_map_ext. intros d Hin. specialize (Hd t d (Hr t d Hin)). apply IH; lia.
Qed.

Lemma ref_unfold c t : wf c ->
  ref c t = if use_cache_in c (pre c) t then lookup (pre c) t
            else match beh_of c t with
                 | BRaise => None
                 | BOk => option_map (Node t) (opt_all (map (ref c) (reads_of c t)))
                 end.
Proof.
  intros Hwf. unfold ref at 1. cbn [ref_f].
  destruct (use_cache_in c (pre c) t); [reflexivity|]. destruct (beh_of c t); [|reflexivity].
  f_equal. apply opt_all_map_ext. intros d Hin. unfold ref.
  pose proof Hwf as (Hd & Hr & Hq). specialize (Hd t d (Hr t d Hin)).
  apply ref_f_stable; [exact Hwf|lia|lia].
Qed.

(* ------------------------------------------------------------------ small facts about the model functions *)
Lemma In_pdependents c nd fin d u :
  In u (pdependents c nd fin d) <-> In u nd /\ In d (pdeps_of c u) /\ ~ In u fin.
Proof.
  unfold pdependents. rewrite filter_In, andb_true_iff, negb_true_iff, mem_In, mem_false. tauto.
Qed.

Lemma pdependents_nil c nd fin d :
  pdependents c nd fin d = [] <-> forall u, In u nd -> In d (pdeps_of c u) -> In u fin.
Proof.
  split.
  - intros E u Hu Hd. destruct (mem u fin) eqn:Em; [now apply mem_In|]. apply mem_false in Em.
    assert (H : In u (pdependents c nd fin d)) by (apply In_pdependents; auto). rewrite E in H. destruct H.
  - intros H. destruct (pdependents c nd fin d) as [|u l] eqn:E; [reflexivity|].
    assert (Hu : In u (pdependents c nd fin d)) by (rewrite E; now left).
    apply In_pdependents in Hu. destruct Hu as (A & B & C). exfalso. apply C. now apply H.
Qed.

Lemma In_removable c nd fin t k :
  In k (removable c nd fin t) <-> In k (pdeps_of c t ++ [t]) /\ pdependents c nd fin k = [].
Proof.
  unfold removable. rewrite In_dedup, filter_In.
  destruct (pdependents c nd fin k); split; intros [A B]; split; auto; discriminate.
Qed.

Lemma In_norm_order order rem k : In k (norm_order order rem) <-> In k rem.
Proof.
  unfold norm_order. rewrite in_app_iff, !filter_In, In_dedup, negb_true_iff, mem_In, mem_false.
  destruct (in_dec Nat.eq_dec k order); tauto.
Qed.

Lemma mem_cons k d l : mem k (d :: l) = Nat.eqb k d || mem k l.
Proof. reflexivity. Qed.

Lemma lookup_remove_results p order : p_missing p = MContinue -> forall (m : list (nat * val)) k,
  lookup (remove_results p order m) k = if mem k order then None else lookup m k.
Proof.
  intros Hm. induction order as [|d o IH]; intros m k; cbn [remove_results]; [reflexivity|].
  rewrite mem_cons. destruct (has m d) eqn:Eh.
  - rewrite IH, lookup_del. destruct (Nat.eqb k d); cbn [orb]; [now destruct (mem k o)|reflexivity].
  - rewrite Hm, IH. apply has_false in Eh.
    destruct (Nat.eqb_spec k d) as [->|Hne]; cbn [orb]; [rewrite Eh; now destruct (mem d o)|reflexivity].
Qed.

Lemma lookup_remove_results_sub p order : forall (m : list (nat * val)) k w,
  lookup (remove_results p order m) k = Some w -> lookup m k = Some w.
Proof.
  induction order as [|d o IH]; intros m k w H; cbn [remove_results] in H; [exact H|].
  destruct (has m d).
  - apply IH in H. rewrite lookup_del in H. destruct (Nat.eqb k d); [discriminate|exact H].
  - destruct (p_missing p); [now apply IH|exact H|now apply IH].
Qed.

Lemma lookup_remove_results_other p order : forall (m : list (nat * val)) k,
  ~ In k order -> lookup (remove_results p order m) k = lookup m k.
Proof.
  induction order as [|d o IH]; intros m k Hn; cbn [remove_results]; [reflexivity|].
  assert (Hkd : k <> d) by (intros ->; apply Hn; now left).
  assert (Hno : ~ In k o) by (intro; apply Hn; now right).
  destruct (has m d).
  - rewrite IH by exact Hno. now apply lookup_del_other.
  - destruct (p_missing p); [now apply IH|reflexivity|now apply IH].
Qed.

Lemma fold_start_fields c l : forall s,
  let s' := fold_left (start c) l s in
  needed s' = needed s /\ finished s' = finished s /\ failed s' = failed s /\ rmap s' = rmap s /\
  results s' = results s /\ store s' = store s /\ active s' = active s ++ l.
Proof.
  induction l as [|a l IH]; intros s; cbn [fold_left].
  - rewrite app_nil_r. repeat split.
  - destruct (IH (start c s a)) as (A & B & C & D & E & F & G). cbn [start needed finished failed rmap results store active] in *.
    repeat split; try assumption. rewrite G, <- app_assoc. reflexivity.
Qed.

(* what get_ready_tasks selects *)
Lemma ready_loop_sub p c s l : forall chosen t, In t (ready_loop p c s chosen l) -> In t chosen \/ In t l.
Proof.
  induction l as [|a l IH]; intros chosen t H; cbn [ready_loop] in H; [now left|].
  assert (Hrec : forall ch, In t (ready_loop p c s ch l) -> (In t ch -> In t chosen \/ In t (a :: l)) ->
                            In t chosen \/ In t (a :: l)).
  { intros ch Hi Hch. destruct (IH ch t Hi) as [Hc|Hl]; [auto|right; now right]. }
  assert (Hadd : In t (chosen ++ [a]) -> In t chosen \/ In t (a :: l)).
  { intro Hi. apply in_app_or in Hi. destruct Hi as [|[<-|[]]]; [now left|right; now left]. }
  destruct (p_dep_guard p && negb (deps_done c s a)); [apply (Hrec chosen H); now left|].
  destruct (maxpar_of c (ty_of c a)) as [m|]; [|apply (Hrec _ H Hadd)].
  destruct (over_limit p _ m); [apply (Hrec chosen H); now left|apply (Hrec _ H Hadd)].
Qed.

Lemma ready_loop_deps p c s l : p_dep_guard p = true -> forall chosen t,
  In t (ready_loop p c s chosen l) -> In t chosen \/ deps_done c s t = true.
Proof.
  intros Hg. induction l as [|a l IH]; intros chosen t H; cbn [ready_loop] in H; [now left|].
  rewrite Hg in H. cbn [andb] in H.
  destruct (deps_done c s a) eqn:Ed; cbn [negb] in H; [|now apply IH].
  assert (Hadd : forall ch, ch = chosen ++ [a] -> In t (ready_loop p c s ch l) -> In t chosen \/ deps_done c s t = true).
  { intros ch -> Hi. destruct (IH _ t Hi) as [Hc|Hd]; [|now right].
    apply in_app_or in Hc. destruct Hc as [|[<-|[]]]; [now left|now right]. }
  destruct (maxpar_of c (ty_of c a)) as [m|]; [|eapply Hadd; eauto].
  destruct (over_limit p _ m); [now apply IH|eapply Hadd; eauto].
Qed.

Lemma ready_loop_NoDup p c s l : NoDup l -> forall chosen, NoDup chosen -> (forall x, In x chosen -> ~ In x l) ->
  NoDup (ready_loop p c s chosen l).
Proof.
  induction 1 as [|a l Ha Hl IH]; intros chosen Hc Hd; cbn [ready_loop]; [exact Hc|].
  assert (Hskip : NoDup (ready_loop p c s chosen l)).
  { apply IH; [exact Hc|]. intros x Hx Hi. apply (Hd x Hx). now right. }
  assert (Hadd : NoDup (ready_loop p c s (chosen ++ [a]) l)).
  { apply IH.
    - apply NoDup_app_intro; [exact Hc|constructor; [intros []|constructor]|].
      intros x Hx [E|[]]. subst x. apply (Hd a Hx). now left.
    - intros x Hx Hi. apply in_app_or in Hx. destruct Hx as [Hx|[E|[]]]; [apply (Hd x Hx); now right|subst x; contradiction]. }
  destruct (p_dep_guard p && negb (deps_done c s a)); [exact Hskip|].
  destruct (maxpar_of c (ty_of c a)) as [m|]; [|exact Hadd].
  destruct (over_limit p _ m); [exact Hskip|exact Hadd].
Qed.

Lemma deps_done_In c s t : deps_done c s t = true -> forall d, In d (pdeps_of c t) -> In d (finished s).
Proof. unfold deps_done. rewrite forallb_forall. intros H d Hd. apply mem_In. now apply H. Qed.

(* ------------------------------------------------------------------ history projections *)
Definition submitted (h : list event) : list nat :=
  flat_map (fun e => match e with ESubmit t _ => [t] | _ => [] end) h.
Definition finishes (h : list event) : list nat :=
  flat_map (fun e => match e with EFinish t _ => [t] | _ => [] end) h.

(* ------------------------------------------------------------------ the invariant *)
Record Inv (c : cfg) (s : st) : Prop := {
  I_needed : needed s = plan c;
  I_nd_p : NoDup (pending s);
  I_nd_a : NoDup (active s);
  I_nd_f : NoDup (finished s);
  I_pa : forall t, In t (pending s) -> ~ In t (active s) /\ ~ In t (finished s);
  I_af : forall t, In t (active s) -> ~ In t (finished s);
  I_cover : forall t, In t (plan c) <-> In t (pending s) \/ In t (active s) \/ In t (finished s);
  I_deps : forall t, In t (active s) -> forall d, In d (pdeps_of c t) -> In d (finished s);
  I_failed : forall t, In t (failed s) -> In t (finished s);
  I_fail_ref : forall t, In t (finished s) -> (In t (failed s) <-> ref c t = None);
  I_sound : forall d v, lookup (rmap s) d = Some v -> ref c d = Some v /\ In d (finished s);
  I_retained : forall d, In d (finished s) -> ~ In d (failed s) ->
               pdependents c (plan c) (finished s) d <> [] -> lookup (rmap s) d <> None;
  I_results : forall t v, lookup (results s) t = Some v -> ref c t = Some v /\ In t (req c) /\ In t (finished s);
  I_results2 : forall t, In t (finished s) -> In t (req c) -> lookup (results s) t = ref c t;
  I_store : forall t, In t (pending s) \/ In t (active s) -> lookup (store s) t = lookup (pre c) t;
  I_store2 : forall t v, lookup (store s) t = Some v ->
             lookup (pre c) t = Some v \/
             (In t (finished s) /\ ref c t = Some v /\ cacheable_of c (ty_of c t) = true
              /\ use_cache_in c (pre c) t = false);
  I_store3 : forall t, In t (finished s) -> ~ In t (failed s) -> use_cache_in c (pre c) t = false ->
             cacheable_of c (ty_of c t) = true -> lookup (store s) t = ref c t;
  I_store4 : forall t, ~ (In t (finished s) /\ ~ In t (failed s) /\ use_cache_in c (pre c) t = false /\
                          cacheable_of c (ty_of c t) = true) -> lookup (store s) t = lookup (pre c) t;
  I_hsub : forall t, In t (submitted (hist s)) <-> In t (active s) \/ In t (finished s);
  I_hnd : NoDup (submitted (hist s));
  I_hfin : forall t, In t (finishes (hist s)) <-> In t (finished s);
  I_horder : forall h2 t uc h1, hist s = h2 ++ ESubmit t uc :: h1 ->
             uc = use_cache_in c (pre c) t /\ In t (plan c) /\
             forall d, In d (pdeps_of c t) -> In d (finishes h1);
  I_hval : forall t r, In (EFinish t r) (hist s) -> r = ref c t;
}.

Lemma Inv_init c : wf c -> Inv c (init c).
Proof.
  intros Hwf. destruct (plan_spec c Hwf) as (P1 & P2 & P3 & P4 & P5).
  constructor; cbn [init needed pending active finished failed rmap results store hist lookup submitted finishes flat_map].
  - reflexivity.
  - exact P1.
  - constructor.
  - constructor.
  - intros t _. split; intros [].
  - intros t [].
  - intros t. cbn [In]. tauto.
  - intros t [].
  - intros t [].
  - intros t [].
  - intros d v H. discriminate.
  - intros d [].
  - intros t v H. discriminate.
  - intros t [].
  - reflexivity.
  - intros t v H. left. exact H.
  - intros t [].
  - reflexivity.
  - intros t. cbn [In]. tauto.
  - constructor.
  - intros t. cbn [In]. tauto.
  - intros h2 t uc h1 H. destruct h2; discriminate.
  - intros t r [].
Qed.

(* ------------------------------------------------------------------ start *)
Lemma submitted_cons_submit t uc h : submitted (ESubmit t uc :: h) = t :: submitted h.
Proof. reflexivity. Qed.

Lemma Inv_start c s t : Inv c s -> In t (pending s) ->
  (forall d, In d (pdeps_of c t) -> In d (finished s)) -> Inv c (start c s t).
Proof.
  intros I Hp Hdeps. destruct (I_pa c s I t Hp) as [Hna Hnf].
  assert (Hpl : In t (plan c)) by (apply (I_cover c s I); now left).
  constructor; cbn [start needed pending active finished failed rmap results store hist].
  - apply I.
  - apply NoDup_remove1, I.
  - apply NoDup_app_intro; [apply I|constructor; [intros []|constructor]|]. intros x Hx [<-|[]]. contradiction.
  - apply I.
  - intros u Hu. apply In_remove1 in Hu. destruct Hu as [Hu Hne]. destruct (I_pa c s I u Hu) as [A B].
    split; [|exact B]. intro Hi. apply in_app_or in Hi. destruct Hi as [|[E|[]]]; [auto|congruence].
  - intros u Hu. apply in_app_or in Hu. destruct Hu as [Hu|[<-|[]]]; [now apply (I_af c s I)|exact Hnf].
  - intros u. rewrite (I_cover c s I u), In_remove1, in_app_iff. cbn [In].
    destruct (Nat.eq_dec u t) as [->|Hne]; [tauto|]. intuition congruence.
  - intros u Hu d Hd. apply in_app_or in Hu. destruct Hu as [Hu|[<-|[]]]; [eapply (I_deps c s I); eauto|auto].
  - apply I.
  - apply I.
  - apply I.
  - apply I.
  - apply I.
  - apply I.
  - intros u Hu. apply (I_store c s I). destruct Hu as [Hu|Hu].
    + apply In_remove1 in Hu. left. tauto.
    + apply in_app_or in Hu. destruct Hu as [Hu|[<-|[]]]; [now right|now left].
  - apply I.
  - apply I.
  - apply I.
  - intros u. rewrite submitted_cons_submit. cbn [In]. rewrite (I_hsub c s I u), in_app_iff. cbn [In]. tauto.
  - rewrite submitted_cons_submit. constructor; [|apply I]. rewrite (I_hsub c s I t). tauto.
  - intros u. cbn [finishes flat_map app]. apply (I_hfin c s I).
  - intros h2 u uc h1 E. destruct h2 as [|e h2]; cbn [app] in E.
    + injection E as <- <- <-. split; [|split; [exact Hpl|]].
      * unfold use_cache_in. f_equal. unfold has. rewrite (I_store c s I t); [reflexivity|now left].
      * intros d Hd. apply (I_hfin c s I). auto.
    + injection E as _ E. eapply (I_horder c s I); eauto.
  - intros u r [F|F]; [discriminate|]. now apply (I_hval c s I).
Qed.

Lemma Inv_fold_start c l : forall s, Inv c s -> NoDup l -> (forall t, In t l -> In t (pending s)) ->
  (forall t, In t l -> forall d, In d (pdeps_of c t) -> In d (finished s)) ->
  Inv c (fold_left (start c) l s).
Proof.
  induction l as [|a l IH]; intros s I Hnd Hp Hd; cbn [fold_left]; [exact I|].
  inversion Hnd as [|? ? Ha Hnd']; subst. apply IH.
  - apply Inv_start; [exact I|apply Hp; now left|apply Hd; now left].
  - exact Hnd'.
  - intros t Ht. cbn [start pending]. apply In_remove1. split; [apply Hp; now right|]. intros ->. contradiction.
  - intros t Ht. cbn [start finished]. apply Hd. now right.
Qed.

Lemma Inv_submit_phase p c s : p_dep_guard p = true -> Inv c s -> Inv c (submit_phase p c s).
Proof.
  intros Hg I. unfold submit_phase. apply Inv_fold_start; [exact I| | |].
  - unfold get_ready. apply ready_loop_NoDup; [apply I|constructor|intros x []].
  - intros t Ht. unfold get_ready in Ht. apply ready_loop_sub in Ht. destruct Ht as [[]|Ht]. exact Ht.
  - intros t Ht. unfold get_ready in Ht. apply (ready_loop_deps p c s _ Hg) in Ht. destruct Ht as [[]|Ht].
    now apply deps_done_In.
Qed.

(* ------------------------------------------------------------------ complete *)
Lemma exec_ref c s t : wf c -> Inv c s -> In t (active s) -> exec c s t = ref c t.
Proof.
  intros Hwf I Ha. unfold exec. rewrite (ref_unfold c t Hwf).
  assert (Hu : use_cache_in c (store s) t = use_cache_in c (pre c) t).
  { unfold use_cache_in, has. rewrite (I_store c s I t); [reflexivity|now right]. }
  rewrite Hu. destruct (use_cache_in c (pre c) t) eqn:Euc.
  - apply (I_store c s I). now right.
  - destruct (beh_of c t); [|reflexivity]. f_equal. apply opt_all_map_ext. intros d Hd.
    assert (Hpd : In d (pdeps_of c t)).
    { unfold pdeps_of. rewrite Euc. destruct Hwf as (_ & Hr & _). now apply Hr. }
    pose proof (I_deps c s I t Ha d Hpd) as Hf.
    destruct (ref c d) as [v|] eqn:Er.
    + assert (Hnf : ~ In d (failed s)). { intro F. apply (I_fail_ref c s I d Hf) in F. congruence. }
      assert (Hne : pdependents c (plan c) (finished s) d <> []).
      { intro E. rewrite pdependents_nil in E. apply (I_af c s I t Ha). apply E; [|exact Hpd].
        apply (I_cover c s I). right; now left. }
      pose proof (I_retained c s I d Hf Hnf Hne) as Hl.
      destruct (lookup (rmap s) d) as [w|] eqn:El; [|congruence].
      destruct (I_sound c s I d w El) as [Hw _]. congruence.
    + destruct (lookup (rmap s) d) as [w|] eqn:El; [|reflexivity].
      destruct (I_sound c s I d w El) as [Hw _]. congruence.
Qed.

Lemma mem_norm_order order rem k : mem k (norm_order order rem) = mem k rem.
Proof.
  destruct (mem k rem) eqn:E.
  - apply mem_In. apply In_norm_order. now apply mem_In.
  - apply mem_false. rewrite In_norm_order. now apply mem_false.
Qed.

Lemma pdependents_mono c nd fin t d : pdependents c nd (t :: fin) d <> [] -> pdependents c nd fin d <> [].
Proof.
  intros H E. apply H. rewrite pdependents_nil in *. intros u Hu Hd. right. now apply E.
Qed.

Lemma submitted_app a b : submitted (a ++ b) = submitted a ++ submitted b.
Proof. apply flat_map_app. Qed.
Lemma finishes_app a b : finishes (a ++ b) = finishes a ++ finishes b.
Proof. apply flat_map_app. Qed.

Definition no_submit (l : list event) : Prop := forall t uc, ~ In (ESubmit t uc) l.

Lemma split_no_submit pre_ : no_submit pre_ -> forall h h2 t uc h1,
  pre_ ++ h = h2 ++ ESubmit t uc :: h1 -> exists h2', h = h2' ++ ESubmit t uc :: h1.
Proof.
  induction pre_ as [|e l IH]; intros Hn h h2 t uc h1 E; cbn [app] in E.
  - exists h2. exact E.
  - destruct h2 as [|e' h2]; cbn [app] in E.
    + injection E as -> _. exfalso. apply (Hn t uc). now left.
    + injection E as _ E. apply (IH (fun t uc H => Hn t uc (or_intror H)) _ _ _ _ _ E).
Qed.

Lemma or_move (P Q : Prop) (u t : nat) : (u = t -> P) -> (P \/ Q) <-> ((P /\ u <> t) \/ (t = u \/ Q)).
Proof.
  intros Pt. destruct (Nat.eq_dec u t) as [E|N].
  - split; [intros _; right; left; congruence|intros _; left; auto].
  - split.
    + intros [H|H]; [left; split; auto|right; now right].
    + intros [[H _]|[H|H]]; [now left|congruence|now right].
Qed.

Lemma Inv_complete_ok p c s t order v s' : wf c -> Inv c s ->
  ref c t = Some v -> complete p c s t order = SOk s' -> Inv c s'.
Proof.
  intros Hwf I Er E. unfold complete in E.
  destruct (mem t (active s)) eqn:Ema; cbn [negb] in E; [|discriminate]. apply mem_In in Ema.
  rewrite (exec_ref c s t Hwf I Ema), Er in E. injection E as <-.
  pose proof (I_af c s I t Ema) as Hnf.
  assert (Hpl : In t (plan c)) by (apply (I_cover c s I); right; now left).
  assert (Hnp : ~ In t (pending s)). { intro F. apply (I_pa c s I) in F. tauto. }
  assert (Hu : use_cache_in c (store s) t = use_cache_in c (pre c) t).
  { unfold use_cache_in, has. rewrite (I_store c s I t); [reflexivity|now right]. }
  rewrite (I_needed c s I).
  set (fin' := t :: finished s). set (rem := removable c (plan c) fin' t).
  assert (Hnotfailed : ~ In t (failed s)). { intro F. apply Hnf. now apply (I_failed c s I). }
  constructor; cbn [needed pending active finished failed rmap results store hist].
  - reflexivity.
  - apply I.
  - apply NoDup_remove1, I.
  - constructor; [exact Hnf|apply I].
  - intros u Hu'. destruct (I_pa c s I u Hu') as [A B]. split.
    + rewrite In_remove1. tauto.
    + intros [<-|F]; [contradiction|contradiction].
  - intros u Hu' [<-|F]; apply In_remove1 in Hu'; [tauto|]. apply (I_af c s I u); tauto.
  - intros u. rewrite (I_cover c s I u), In_remove1. cbn [In].
    destruct (Nat.eq_dec u t) as [->|Hne]; [split; intros _; [right; right; now left|right; left; exact Ema]|].
    split.
    + intros [H|[H|H]]; [now left|right; left; split; [exact H|exact Hne]|right; right; now right].
    + intros [H|[[H _]|[H|H]]]; [now left|right; now left|congruence|right; now right].
  - intros u Hu' d Hd. apply In_remove1 in Hu'. right. apply (I_deps c s I u); tauto.
  - intros u Hu'. right. now apply (I_failed c s I).
  - intros u [<-|Hu'].
    + split; [intro F; contradiction|congruence].
    + now apply (I_fail_ref c s I).
  - intros d w Hl. apply lookup_remove_results_sub in Hl. cbn [lookup] in Hl.
    destruct (Nat.eqb_spec d t) as [->|Hne].
    + injection Hl as <-. split; [exact Er|now left].
    + destruct (I_sound c s I d w Hl). split; [assumption|now right].
  - intros d Hd Hnfd Hne. rewrite lookup_remove_results_other.
    + cbn [lookup]. destruct (Nat.eqb_spec d t) as [->|Hdt]; [congruence|].
      destruct Hd as [F|Hd]; [congruence|]. apply (I_retained c s I d Hd Hnfd).
      eapply pdependents_mono; eauto.
    + rewrite In_norm_order. unfold rem. rewrite In_removable. tauto.
  - intros u w Hl. destruct (mem t (req c)) eqn:Emq.
    + cbn [lookup] in Hl. destruct (Nat.eqb_spec u t) as [->|Hne].
      * injection Hl as <-. apply mem_In in Emq. repeat split; auto. now left.
      * destruct (I_results c s I u w Hl) as (A & B & C). repeat split; auto. now right.
    + destruct (I_results c s I u w Hl) as (A & B & C). repeat split; auto. now right.
  - intros u [<-|Hu'] Hq.
    + apply mem_In in Hq. rewrite Hq. cbn [lookup]. rewrite Nat.eqb_refl. congruence.
    + assert (Hne : u <> t) by congruence.
      destruct (mem t (req c)); [cbn [lookup]; destruct (Nat.eqb_spec u t); [congruence|]|];
        now apply (I_results2 c s I).
  - intros u Hu'. assert (Hne : u <> t).
    { destruct Hu' as [F|F]; [congruence|apply In_remove1 in F; tauto]. }
    assert (Hold : lookup (store s) u = lookup (pre c) u).
    { apply (I_store c s I). destruct Hu' as [F|F]; [now left|apply In_remove1 in F; tauto]. }
    destruct (negb (use_cache_in c (store s) t) && cacheable_of c (ty_of c t)); [|exact Hold].
    cbn [lookup]. destruct (Nat.eqb_spec u t); [congruence|exact Hold].
  - intros u w Hl.
    destruct (negb (use_cache_in c (store s) t) && cacheable_of c (ty_of c t)) eqn:Es.
    + cbn [lookup] in Hl. destruct (Nat.eqb_spec u t) as [->|Hne].
      * injection Hl as <-. right. apply andb_true_iff in Es. destruct Es as [E1 E2].
        apply negb_true_iff in E1. rewrite Hu in E1. repeat split; auto. now left.
      * destruct (I_store2 c s I u w Hl) as [A|(A & B & C & D)]; [now left|right]. repeat split; auto. now right.
    + destruct (I_store2 c s I u w Hl) as [A|(A & B & C & D)]; [now left|right]. repeat split; auto. now right.
  - intros u [<-|Hu'] Hnfu Huc Hca.
    + rewrite Hu, Huc, Hca. cbn [negb andb lookup]. rewrite Nat.eqb_refl. congruence.
    + assert (Hne : u <> t) by congruence.
      destruct (negb (use_cache_in c (store s) t) && cacheable_of c (ty_of c t));
        [cbn [lookup]; destruct (Nat.eqb_spec u t); [congruence|]|]; now apply (I_store3 c s I).
  - intros u Hnc. destruct (Nat.eq_dec u t) as [->|Hne].
    + destruct (negb (use_cache_in c (store s) t) && cacheable_of c (ty_of c t)) eqn:Es.
      * exfalso. apply Hnc. apply andb_true_iff in Es. destruct Es as [E1 E2]. apply negb_true_iff in E1.
        rewrite Hu in E1. repeat split; auto. now left.
      * apply (I_store4 c s I). tauto.
    + assert (Hold : lookup (store s) u = lookup (pre c) u).
      { apply (I_store4 c s I). intros (A & B & C & D). apply Hnc. repeat split; auto. now right. }
      destruct (negb (use_cache_in c (store s) t) && cacheable_of c (ty_of c t)); [|exact Hold].
      cbn [lookup]. destruct (Nat.eqb_spec u t); [congruence|exact Hold].
  - intros u. cbn [submitted flat_map app]. fold (submitted ((if mem t (req c) then [ECapture t] else []) ++ EFinish t (Some v) :: hist s)).
    rewrite submitted_app. assert (Hc : submitted (if mem t (req c) then [ECapture t] else []) = []) by (destruct (mem t (req c)); reflexivity).
    rewrite Hc. cbn [app submitted flat_map]. fold (submitted (hist s)).
    rewrite (I_hsub c s I u), In_remove1. cbn [In]. apply or_move. intros ->. exact Ema.
  - cbn [submitted flat_map app]. fold (submitted ((if mem t (req c) then [ECapture t] else []) ++ EFinish t (Some v) :: hist s)).
    rewrite submitted_app. assert (Hc : submitted (if mem t (req c) then [ECapture t] else []) = []) by (destruct (mem t (req c)); reflexivity).
    rewrite Hc. cbn [app submitted flat_map]. apply I.
  - intros u. cbn [finishes flat_map app]. fold (finishes ((if mem t (req c) then [ECapture t] else []) ++ EFinish t (Some v) :: hist s)).
    rewrite finishes_app. assert (Hc : finishes (if mem t (req c) then [ECapture t] else []) = []) by (destruct (mem t (req c)); reflexivity).
    rewrite Hc. cbn [app finishes flat_map]. fold (finishes (hist s)). unfold fin'. cbn [In]. rewrite (I_hfin c s I u). tauto.
  - intros h2 u uc h1 E.
    assert (Hns : no_submit (ERelease (sort_nat rem) :: (if mem t (req c) then [ECapture t] else []) ++ [EFinish t (Some v)])).
    { intros a b. destruct (mem t (req c)); cbn; intuition discriminate. }
    assert (E' : (ERelease (sort_nat rem) :: (if mem t (req c) then [ECapture t] else []) ++ [EFinish t (Some v)]) ++ hist s
                 = h2 ++ ESubmit u uc :: h1).
    { rewrite <- E. cbn [app]. rewrite <- app_assoc. reflexivity. }
    destruct (split_no_submit _ Hns _ _ _ _ _ E') as [h2' E2]. eapply (I_horder c s I); eauto.
  - intros u r [F|F]; [discriminate|]. apply in_app_or in F. destruct F as [F|[F|F]].
    + destruct (mem t (req c)); [destruct F as [F|[]]; discriminate|destruct F].
    + injection F as <- <-. congruence.
    + now apply (I_hval c s I).
Qed.

Lemma Inv_complete_fail p c s t order s' : wf c -> Inv c s ->
  ref c t = None -> complete p c s t order = SOk s' -> Inv c s'.
Proof.
  intros Hwf I Er E. unfold complete in E.
  destruct (mem t (active s)) eqn:Ema; cbn [negb] in E; [|discriminate]. apply mem_In in Ema.
  rewrite (exec_ref c s t Hwf I Ema), Er in E.
  destruct (cont c); [|discriminate]. injection E as <-.
  pose proof (I_af c s I t Ema) as Hnf.
  assert (Hpl : In t (plan c)) by (apply (I_cover c s I); right; now left).
  assert (Hnp : ~ In t (pending s)). { intro F. apply (I_pa c s I) in F. tauto. }
  rewrite (I_needed c s I).
  set (fin' := t :: finished s). set (rem := removable c (plan c) fin' t).
  assert (Hlt : lookup (rmap s) t = None).
  { destruct (lookup (rmap s) t) as [w|] eqn:El; [|reflexivity]. destruct (I_sound c s I t w El). contradiction. }
  constructor; cbn [needed pending active finished failed rmap results store hist].
  - reflexivity.
  - apply I.
  - apply NoDup_remove1, I.
  - constructor; [exact Hnf|apply I].
  - intros u Hu'. destruct (I_pa c s I u Hu') as [A B]. split.
    + rewrite In_remove1. tauto.
    + intros [<-|F]; [contradiction|contradiction].
  - intros u Hu' [<-|F]; apply In_remove1 in Hu'; [tauto|]. apply (I_af c s I u); tauto.
  - intros u. rewrite (I_cover c s I u), In_remove1. cbn [In].
    destruct (Nat.eq_dec u t) as [->|Hne]; [split; intros _; [right; right; now left|right; left; exact Ema]|].
    split.
    + intros [H|[H|H]]; [now left|right; left; split; [exact H|exact Hne]|right; right; now right].
    + intros [H|[[H _]|[H|H]]]; [now left|right; now left|congruence|right; now right].
  - intros u Hu' d Hd. apply In_remove1 in Hu'. right. apply (I_deps c s I u); tauto.
  - intros u [<-|Hu']; [now left|]. right. now apply (I_failed c s I).
  - intros u [<-|Hu'].
    + split; [intros _; exact Er|intros _; now left].
    + assert (Hne : u <> t) by congruence. rewrite <- (I_fail_ref c s I u Hu'). cbn [In].
      split; [intros [F|F]; [congruence|exact F]|intros F; now right].
  - intros d w Hl. apply lookup_remove_results_sub in Hl.
    destruct (I_sound c s I d w Hl). split; [assumption|now right].
  - intros d Hd Hnfd Hne. rewrite lookup_remove_results_other.
    + assert (Hdt : d <> t). { intros ->. apply Hnfd. now left. }
      destruct Hd as [F|Hd]; [congruence|]. apply (I_retained c s I d Hd).
      * intro F. apply Hnfd. now right.
      * eapply pdependents_mono; eauto.
    + rewrite In_norm_order. unfold rem. rewrite In_removable. tauto.
  - intros u w Hl. destruct (I_results c s I u w Hl) as (A & B & C). repeat split; auto. now right.
  - intros u [<-|Hu'] Hq.
    + rewrite Er. destruct (lookup (results s) t) as [w|] eqn:El; [|reflexivity].
      destruct (I_results c s I t w El) as (A & _). congruence.
    + now apply (I_results2 c s I).
  - intros u Hu'. apply (I_store c s I). destruct Hu' as [F|F]; [now left|apply In_remove1 in F; tauto].
  - intros u w Hl. destruct (I_store2 c s I u w Hl) as [A|(A & B & C & D)]; [now left|right]. repeat split; auto. now right.
  - intros u [<-|Hu'] Hnfu Huc Hca.
    + exfalso. apply Hnfu. now left.
    + apply (I_store3 c s I); auto. intro F. apply Hnfu. now right.
  - intros u Hnc. apply (I_store4 c s I). intros (A & B & C & D).
    destruct (Nat.eq_dec u t) as [->|Hne]; [contradiction|].
    apply Hnc. repeat split; auto; [now right|]. intros [F|F]; [congruence|contradiction].
  - intros u. cbn [submitted flat_map app]. fold (submitted (hist s)).
    rewrite (I_hsub c s I u), In_remove1. unfold fin'. cbn [In]. apply or_move. intros ->. exact Ema.
  - cbn [submitted flat_map app]. apply I.
  - intros u. cbn [finishes flat_map app]. fold (finishes (hist s)). unfold fin'. cbn [In].
    rewrite (I_hfin c s I u). tauto.
  - intros h2 u uc h1 E.
    assert (Hns : no_submit [ERelease (sort_nat rem); EFinish t None]).
    { intros a b. cbn. intuition discriminate. }
    destruct (split_no_submit _ Hns _ _ _ _ _ E) as [h2' E2]. eapply (I_horder c s I); eauto.
  - intros u r [F|[F|F]]; [discriminate| |now apply (I_hval c s I)]. injection F as <- <-. congruence.
Qed.

Lemma complete_ok_exec p c s t order s' : wf c -> Inv c s -> complete p c s t order = SOk s' -> In t (active s).
Proof.
  intros Hwf I E. unfold complete in E. destruct (mem t (active s)) eqn:Ema; cbn [negb] in E; [|discriminate].
  now apply mem_In.
Qed.

Lemma Inv_complete p c s t order s' : wf c -> Inv c s ->
  complete p c s t order = SOk s' -> Inv c s'.
Proof.
  intros Hwf I E. destruct (ref c t) as [v|] eqn:Er.
  - eapply Inv_complete_ok; eauto.
  - eapply Inv_complete_fail; eauto.
Qed.

Lemma Inv_process_batch p c b : wf c -> forall s s',
  Inv c s -> process_batch p c s b = SOk s' -> Inv c s'.
Proof.
  intros Hwf. induction b as [|[t order] b IH]; intros s s' I E; cbn [process_batch] in E.
  - now injection E as <-.
  - destruct (complete p c s t order) as [s1|u s1|] eqn:Ec; try discriminate.
    eapply IH; [|exact E]. eapply Inv_complete; eauto.
Qed.

(* ------------------------------------------------------------------ prompt release (needs the remove_results
   of the current source to skip, not stop at, tasks without a result) *)
Definition Rel (c : cfg) (s : st) : Prop :=
  forall d, In d (finished s) -> pdependents c (plan c) (finished s) d = [] -> lookup (rmap s) d = None.

Lemma Rel_init c : Rel c (init c).
Proof. intros d []. Qed.

Lemma Rel_fold_start c l s : Rel c s -> Rel c (fold_left (start c) l s).
Proof.
  intros H. destruct (fold_start_fields c l s) as (_ & Ef & _ & Er & _). unfold Rel. rewrite Ef, Er. exact H.
Qed.

Lemma Rel_complete p c s t order s' : wf c -> p_missing p = MContinue -> Inv c s -> Rel c s ->
  complete p c s t order = SOk s' -> Rel c s'.
Proof.
  intros Hwf Hm I R E. unfold complete in E.
  destruct (mem t (active s)) eqn:Ema; cbn [negb] in E; [|discriminate]. apply mem_In in Ema.
  pose proof (I_af c s I t Ema) as Hnf.
  rewrite (I_needed c s I) in E.
  set (fin' := t :: finished s) in *. set (rem := removable c (plan c) fin' t) in *.
  assert (Hlt : lookup (rmap s) t = None).
  { destruct (lookup (rmap s) t) as [w|] eqn:El; [|reflexivity]. destruct (I_sound c s I t w El). contradiction. }
  assert (Hcore : forall m, lookup m t <> None \/ m = rmap s ->
            (forall k, k <> t -> lookup m k = lookup (rmap s) k) ->
            forall d, In d fin' -> pdependents c (plan c) fin' d = [] ->
            lookup (remove_results p (norm_order order rem) m) d = None).
  { intros m Hmt Hmk d Hd Hnil. rewrite (lookup_remove_results p _ Hm), mem_norm_order.
    destruct (mem d rem) eqn:Emr; [reflexivity|].
    apply mem_false in Emr. unfold rem in Emr. rewrite In_removable in Emr.
    assert (Hnd : ~ In d (pdeps_of c t ++ [t])) by tauto.
    rewrite in_app_iff in Hnd. cbn [In] in Hnd.
    assert (Hdt : d <> t) by (intros ->; apply Hnd; right; now left). rewrite (Hmk d Hdt).
    destruct Hd as [F|Hd]; [congruence|]. apply (R d Hd).
    rewrite pdependents_nil in *. intros u Hu' Hdu. destruct (Hnil u Hu' Hdu) as [<-|F]; [tauto|exact F]. }
  destruct (exec c s t) as [v|].
  - injection E as <-. unfold Rel. cbn [finished rmap]. apply Hcore.
    + left. cbn [lookup]. rewrite Nat.eqb_refl. discriminate.
    + intros k Hk. cbn [lookup]. destruct (Nat.eqb_spec k t); [congruence|reflexivity].
  - destruct (cont c); [|discriminate]. injection E as <-. unfold Rel. cbn [finished rmap]. apply Hcore.
    + now right.
    + reflexivity.
Qed.
