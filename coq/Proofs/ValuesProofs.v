(* ValuesProofs.v — theorems about the parameter value grammar: normalisation (C15), dependency discovery (C02),
   serialisation injectivity (C07) and round trip (C09). *)
Require Import LT.Model.Values.
From Coq Require Import Lia String.

(* ------------------------------------------------------------------ induction principles for the nested types *)
Section value_ind'.
  Variable P : value -> Prop.
  Hypothesis Hs : forall s, P (VScal s).
  Hypothesis Ht : forall l, Forall P l -> P (VTuple l).
  Hypothesis Hd : forall kvs, Forall (fun kv => P (snd kv)) kvs -> P (VDict kvs).
  Hypothesis Hk : forall c fs, Forall (fun kv => P (snd kv)) fs -> P (VTask c fs).
  Fixpoint value_ind' (v : value) : P v :=
    match v with
    | VScal s => Hs s
    | VTuple l => Ht l ((fix go (l : list value) : Forall P l :=
                           match l with [] => Forall_nil _ | x :: l' => Forall_cons _ (value_ind' x) (go l') end) l)
    | VDict kvs => Hd kvs ((fix go (l : list (str * value)) : Forall (fun kv => P (snd kv)) l :=
                              match l with [] => Forall_nil _ | (k, x) :: l' => Forall_cons (k, x) (value_ind' x) (go l') end) kvs)
    | VTask c fs => Hk c fs ((fix go (l : list (str * value)) : Forall (fun kv => P (snd kv)) l :=
                                match l with [] => Forall_nil _ | (k, x) :: l' => Forall_cons (k, x) (value_ind' x) (go l') end) fs)
    end.
End value_ind'.

Section raw_ind'.
  Variable P : raw -> Prop.
  Hypothesis Hs : forall s, P (RScal s).
  Hypothesis Hl : forall l, Forall P l -> P (RList l).
  Hypothesis Ht : forall l, Forall P l -> P (RTuple l).
  Hypothesis Hd : forall fz kvs, Forall (fun kv => P (snd kv)) kvs -> P (RDict fz kvs).
  Hypothesis Hk : forall c fs, P (RTask c fs).
  Hypothesis Hb : forall n, P (RBad n).
  Fixpoint raw_ind' (r : raw) : P r :=
    match r with
    | RScal s => Hs s
    | RList l => Hl l ((fix go (l : list raw) : Forall P l :=
                          match l with [] => Forall_nil _ | x :: l' => Forall_cons _ (raw_ind' x) (go l') end) l)
    | RTuple l => Ht l ((fix go (l : list raw) : Forall P l :=
                           match l with [] => Forall_nil _ | x :: l' => Forall_cons _ (raw_ind' x) (go l') end) l)
    | RDict fz kvs => Hd fz kvs ((fix go (l : list (rkey * raw)) : Forall (fun kv => P (snd kv)) l :=
                                    match l with [] => Forall_nil _ | (k, x) :: l' => Forall_cons (k, x) (raw_ind' x) (go l') end) kvs)
    | RTask c fs => Hk c fs
    | RBad n => Hb n
    end.
End raw_ind'.

(* ------------------------------------------------------------------ strings *)
Lemma str_eqb_refl a : str_eqb a a = true.
Proof. induction a as [|x a IH]; cbn [str_eqb]; [reflexivity|]. now rewrite N.eqb_refl, IH. Qed.
Lemma str_eqb_eq a b : str_eqb a b = true <-> a = b.
Proof.
  split; [|intros ->; apply str_eqb_refl]. revert b.
  induction a as [|x a IH]; intros [|y b] H; cbn [str_eqb] in H; try discriminate; [reflexivity|].
  apply andb_true_iff in H. destruct H as [H1 H2]. apply N.eqb_eq in H1. subst. f_equal. now apply IH.
Qed.
Lemma str_eqb_neq a b : str_eqb a b = false <-> a <> b.
Proof. rewrite <- str_eqb_eq. destruct (str_eqb a b); split; congruence. Qed.

Lemma opt_all_some_map {A B} (f : A -> option B) (g : A -> B) l :
  Forall (fun x => f x = Some (g x)) l -> opt_all (map f l) = Some (map g l).
Proof.
  induction 1 as [|a l Ha Hl IH]; cbn [map opt_all]; [reflexivity|]. now rewrite Ha, IH.
Qed.
Lemma opt_all_id {A} (f : A -> option A) l : Forall (fun x => f x = Some x) l -> opt_all (map f l) = Some l.
Proof. intros H. rewrite (opt_all_some_map f (fun x => x)); [now rewrite map_id|exact H]. Qed.

(* ------------------------------------------------------------------ C15: normalisation *)
(* normalising an already normal value changes nothing (idempotence; lists/dicts never survive: the type
   [value] has no mutable constructor, so "no list or dict at any depth" holds by construction) *)
Theorem normalize_embed v : normalize (embed v) = Some v.
Proof.
  induction v as [s|l IH|kvs IH|c fs IH] using value_ind'; cbn [embed normalize]; try reflexivity.
  - rewrite map_map. now rewrite (opt_all_id _ l IH).
  - rewrite map_map. cbn [fst snd].
    rewrite (opt_all_some_map _ (fun kv => kv)); [now rewrite map_id|].
    induction IH as [|[k x] l Hx Hl IHl]; constructor; [|exact IHl]. cbn [fst snd] in *. now rewrite Hx.
Qed.

(* exactly the raw values containing an unsupported object or a non-string dict key are rejected *)
Fixpoint badb (r : raw) : bool :=
  match r with
  | RScal _ => false
  | RList l | RTuple l => existsb badb l
  | RDict _ kvs => existsb (fun kv => match fst kv with KStr _ => badb (snd kv) | KOther => true end) kvs
  | RTask _ _ => false
  | RBad _ => true
  end.

Lemma opt_all_none_iff {A} (l : list (option A)) : opt_all l = None <-> In None l.
Proof.
  induction l as [|[a|] l IH]; cbn [opt_all In].
  - split; [discriminate|tauto].
  - destruct (opt_all l); cbn [option_map]; split.
    + discriminate.
    + intros [H|H]; [discriminate|]. apply IH in H. discriminate.
    + intros _. right. now apply IH.
    + reflexivity.
  - split; [now left|reflexivity].
Qed.

Theorem normalize_rejects_iff r : normalize r = None <-> badb r = true.
Proof.
  induction r as [s|l IH|l IH|fz kvs IH|c fs|n] using raw_ind'; cbn [normalize badb];
    try (split; [discriminate|discriminate]); try (split; reflexivity).
  1,2: (destruct (opt_all (map normalize l)) eqn:E; cbn [option_map];
        [split; [discriminate|]; intros Hb; apply existsb_exists in Hb; destruct Hb as (x & Hx & Hbx);
         rewrite Forall_forall in IH; apply (IH x Hx) in Hbx;
         assert (Hn : In None (map normalize l)) by (rewrite <- Hbx; now apply in_map);
         apply opt_all_none_iff in Hn; congruence
        |split; [intros _|reflexivity]; apply opt_all_none_iff in E; apply in_map_iff in E;
         destruct E as (x & Hx & Hin); apply existsb_exists; exists x; split; [exact Hin|];
         rewrite Forall_forall in IH; now apply (IH x Hin)]).
  set (f := fun kv : rkey * raw => match fst kv with
                                   | KStr k => option_map (pair k) (normalize (snd kv))
                                   | KOther => None end).
  destruct (opt_all (map f kvs)) eqn:E; cbn [option_map].
  - split; [discriminate|]. intros Hb. apply existsb_exists in Hb. destruct Hb as ([k x] & Hx & Hbx).
    assert (Hn : In None (map f kvs)).
    { apply in_map_iff. exists (k, x). split; [|exact Hx]. unfold f. cbn [fst snd] in *. destruct k as [k|]; [|reflexivity].
      rewrite Forall_forall in IH. apply (IH (KStr k, x) Hx) in Hbx. cbn [snd] in Hbx. now rewrite Hbx. }
    apply opt_all_none_iff in Hn. congruence.
  - split; [intros _|reflexivity]. apply opt_all_none_iff in E. apply in_map_iff in E.
    destruct E as ([k x] & Hx & Hin). apply existsb_exists. exists (k, x). split; [exact Hin|].
    unfold f in Hx. cbn [fst snd] in *. destruct k as [k|]; [|reflexivity].
    rewrite Forall_forall in IH. apply (IH (KStr k, x) Hin). cbn [snd].
    destruct (normalize x); [discriminate|reflexivity].
Qed.

(* ------------------------------------------------------------------ C02: dependency discovery *)
(* t occurs in v, not inside another task *)
Inductive Occurs (t : value) : value -> Prop :=
| O_here c fs : t = VTask c fs -> Occurs t (VTask c fs)
| O_tuple l x : In x l -> Occurs t x -> Occurs t (VTuple l)
| O_dict kvs k x : In (k, x) kvs -> Occurs t x -> Occurs t (VDict kvs).

Theorem find_tasks_exact v t : In t (find_tasks v) <-> Occurs t v.
Proof.
  induction v as [s|l IH|kvs IH|c fs IH] using value_ind'; cbn [find_tasks].
  - split; [intros []|inversion 1].
  - rewrite in_flat_map. rewrite Forall_forall in IH. split.
    + intros (x & Hx & Ht). econstructor; [exact Hx|]. now apply IH.
    + inversion 1; subst. exists x. split; [assumption|]. now apply IH.
  - rewrite in_flat_map. rewrite Forall_forall in IH. split.
    + intros ([k x] & Hx & Ht). cbn [snd] in Ht. econstructor; [exact Hx|]. now apply (IH (k, x) Hx).
    + inversion 1; subst. exists (k, x). split; [assumption|]. cbn [snd]. now apply (IH (k, x)).
  - cbn [In]. split.
    + intros [<-|[]]. now constructor.
    + inversion 1; subst. now left.
Qed.

(* ------------------------------------------------------------------ C07: serialisation is injective *)
Lemma has_key_map {V W} k (f : V -> W) (kvs : list (str * V)) :
  has_key k (map (fun kv => (fst kv, f (snd kv))) kvs) = has_key k kvs.
Proof. unfold has_key. induction kvs as [|[a x] l IH]; cbn [map existsb fst]; [reflexivity|]. now rewrite IH. Qed.

Lemma ser_scalar_inj a b : ser_scalar a = ser_scalar b -> a = b.
Proof. destruct a, b; cbn [ser_scalar]; intros H; try discriminate; try (injection H; intros; subst; reflexivity); reflexivity. Qed.

Lemma kis_task_neq_enum : str_eqb k_is_enum k_is_task = false.
Proof. reflexivity. Qed.

(* what wrap_dict produces *)
Lemma wrap_dict_cases j : (marked j = false /\ wrap_dict j = JObj j) \/
                          (marked j = true /\ wrap_dict j = JObj [(k_is_dict, JBool true); (k_items, JObj j)]).
Proof. unfold wrap_dict. destruct (marked j); [right|left]; auto. Qed.

Lemma marked_wrapper j : marked [(k_is_dict, JBool true); (k_items, JObj j)] = true.
Proof. reflexivity. Qed.

Lemma wrap_dict_inj a b : wrap_dict a = wrap_dict b -> a = b.
Proof.
  destruct (wrap_dict_cases a) as [[Ma ->]|[Ma ->]], (wrap_dict_cases b) as [[Mb ->]|[Mb ->]]; intros E.
  - now injection E.
  - injection E as ->. rewrite marked_wrapper in Ma. discriminate.
  - injection E as <-. rewrite marked_wrapper in Mb. discriminate.
  - now injection E.
Qed.

Lemma wrap_dict_not_enum j c m : wrap_dict j <> JObj [(k_is_enum, JBool true); (k_class, JStr c); (k_name, JStr m)].
Proof.
  destruct (wrap_dict_cases j) as [[Mj ->]|[Mj ->]]; intros E.
  - injection E as ->. discriminate Mj.
  - discriminate E.
Qed.

Lemma wrap_dict_not_task j c rest : wrap_dict j <> JObj ((k_is_task, JBool true) :: (k_class, JStr c) :: rest).
Proof.
  destruct (wrap_dict_cases j) as [[Mj ->]|[Mj ->]]; intros E.
  - injection E as ->. discriminate Mj.
  - discriminate E.
Qed.

Theorem ser_injective a : forall b, no_reserved a = true -> no_reserved b = true -> ser a = ser b -> a = b.
Proof.
  induction a as [s|l IH|kvs IH|c fs IH] using value_ind'; intros b Ha Hb E.
  - destruct b as [s'|l'|kvs'|c' fs']; cbn [ser] in E.
    + f_equal. now apply ser_scalar_inj.
    + destruct s; discriminate.
    + destruct s; try (destruct (wrap_dict_cases (map (fun kv => (fst kv, ser (snd kv))) kvs')) as [[_ W]|[_ W]]; rewrite W in E; discriminate E).
      cbn [ser_scalar] in E. symmetry in E. now apply wrap_dict_not_enum in E.
    + destruct s; discriminate.
  - destruct b as [s'|l'|kvs'|c' fs']; cbn [ser] in E; try (destruct s'; discriminate); try discriminate.
    + injection E as E. f_equal. cbn [no_reserved] in Ha, Hb. revert l' Hb E.
      induction IH as [|x l Hx Hl IHl]; intros [|y l'] Hb E; cbn [map] in E; try discriminate; [reflexivity|].
      injection E as E1 E2. cbn [forallb] in Ha, Hb. apply andb_true_iff in Ha, Hb. destruct Ha as [A1 A2], Hb as [B1 B2].
      f_equal; [now apply Hx|now apply IHl].
    + destruct (wrap_dict_cases (map (fun kv => (fst kv, ser (snd kv))) kvs')) as [[_ W]|[_ W]]; rewrite W in E; discriminate E.
  - destruct b as [s'|l'|kvs'|c' fs']; cbn [ser] in E.
    + destruct s'; try (destruct (wrap_dict_cases (map (fun kv => (fst kv, ser (snd kv))) kvs)) as [[_ W]|[_ W]]; rewrite W in E; discriminate E).
      cbn [ser_scalar] in E. now apply wrap_dict_not_enum in E.
    + destruct (wrap_dict_cases (map (fun kv => (fst kv, ser (snd kv))) kvs)) as [[_ W]|[_ W]]; rewrite W in E; discriminate E.
    + apply wrap_dict_inj in E. f_equal. cbn [no_reserved] in Ha, Hb. revert kvs' Hb E.
      induction IH as [|[k x] l Hx Hl IHl]; intros [|[k' y] l'] Hb E; cbn [map] in E; try discriminate; [reflexivity|].
      cbn [fst snd] in *. injection E as E0 E1 E2. cbn [forallb snd] in Ha, Hb.
      apply andb_true_iff in Ha, Hb. destruct Ha as [A1 A2], Hb as [B1 B2].
      f_equal; [f_equal; [exact E0|now apply Hx]|now apply IHl].
    + now apply wrap_dict_not_task in E.
  - destruct b as [s'|l'|kvs'|c' fs']; cbn [ser] in E; try discriminate.
    + destruct s'; discriminate.
    + symmetry in E. now apply wrap_dict_not_task in E.
    + injection E as Ec E. subst c'. f_equal. cbn [no_reserved] in Ha, Hb.
      apply andb_true_iff in Ha, Hb. destruct Ha as [_ Ha], Hb as [_ Hb]. revert fs' Hb E.
      induction IH as [|[k x] l Hx Hl IHl]; intros [|[k' y] l'] Hb E; cbn [map] in E; try discriminate; [reflexivity|].
      cbn [fst snd] in *. injection E as E0 E1 E2. cbn [forallb snd] in Ha, Hb.
      apply andb_true_iff in Ha, Hb. destruct Ha as [A1 A2], Hb as [B1 B2].
      f_equal; [f_equal; [exact E0|now apply Hx]|now apply IHl].
Qed.

(* the serialiser as it was before defect D9 was repaired (dicts never wrapped) is not injective: a string-keyed dict can spell
   a serialised task or enum *)
Definition mimic_task : value :=
  VDict [(k_is_task, VScal (SBool true)); (k_class, VScal (SStr (s2l "lv_universe.V2"%string)));
         (s2l "x"%string, VScal (SInt 1))].
Definition real_task : value := VTask (s2l "lv_universe.V2"%string) [(s2l "x"%string, VScal (SInt 1))].
Theorem ser_unguarded_refuted : exists a b, a <> b /\ no_reserved a = true /\ no_reserved b = true /\ ser_plain a = ser_plain b.
Proof. exists mimic_task, real_task. split; [discriminate|]. repeat split; reflexivity. Qed.
Example wrapped_dict_differs : ser mimic_task <> ser real_task.
Proof. discriminate. Qed.

(* ------------------------------------------------------------------ C09: deserialisation inverts serialisation *)
Lemma alookup_not_has_key {V} k (kvs : list (str * V)) : has_key k kvs = false -> alookup kvs k = None.
Proof.
  unfold has_key. induction kvs as [|[a x] l IH]; cbn [existsb alookup fst]; [reflexivity|].
  intros H. apply orb_false_iff in H. destruct H as [H1 H2]. rewrite H1. now apply IH.
Qed.

Lemma flag_not_has_key k kvs : has_key k kvs = false -> flag kvs k = false.
Proof. intros H. unfold flag. now rewrite (alookup_not_has_key k kvs H). Qed.

Lemma smem_In k l : smem k l = true <-> In k l.
Proof.
  unfold smem. rewrite existsb_exists. split.
  - intros (x & Hx & E). apply str_eqb_eq in E. now subst.
  - intros H. exists k. split; [exact H|apply str_eqb_refl].
Qed.

Lemma strs_eqb_eq a b : strs_eqb a b = true -> a = b.
Proof.
  revert b. induction a as [|x a IH]; intros [|y b] H; cbn in H; try discriminate; [reflexivity|].
  apply andb_true_iff in H. destruct H as [H1 H2]. apply str_eqb_eq in H1. subst. f_equal. now apply IH.
Qed.

Lemma nodup_str_NoDup l : nodup_str l = true -> NoDup l.
Proof.
  induction l as [|x l IH]; cbn [nodup_str]; [constructor|]. intros H. apply andb_true_iff in H.
  destruct H as [H1 H2]. constructor; [|now apply IH]. intro F. apply smem_In in F. rewrite F in H1. discriminate.
Qed.

Lemma alookup_app_notin {V} (pre_ : list (str * V)) k v rest :
  ~ In k (map fst pre_) -> alookup (pre_ ++ (k, v) :: rest) k = Some v.
Proof.
  induction pre_ as [|[a x] l IH]; cbn [app alookup map fst In]; intros H.
  - now rewrite str_eqb_refl.
  - destruct (str_eqb k a) eqn:E; [apply str_eqb_eq in E; subst; tauto|]. apply IH. tauto.
Qed.

Lemma lookup_all_fields (fs : list (str * value)) : NoDup (map fst fs) ->
  opt_all (map (fun f => match alookup (map (fun kv => (fst kv, Some (snd kv))) fs) f with
                         | Some (Some v) => Some (f, v)
                         | _ => None
                         end) (map fst fs)) = Some fs.
Proof.
  intros Hnd.
  assert (G : forall pre_ rest, fs = pre_ ++ rest ->
            opt_all (map (fun f => match alookup (map (fun kv => (fst kv, Some (snd kv))) fs) f with
                                   | Some (Some v) => Some (f, v) | _ => None end) (map fst rest)) = Some rest).
  { intros pre_ rest. revert pre_. induction rest as [|[k x] rest IH]; intros pre_ E; cbn [map opt_all fst]; [reflexivity|].
    assert (Hk : alookup (map (fun kv => (fst kv, Some (snd kv))) fs) k = Some (Some x)).
    { rewrite E, map_app. cbn [map fst snd]. apply alookup_app_notin.
      rewrite map_map. cbn [fst]. rewrite E, map_app in Hnd. cbn [map fst] in Hnd.
      apply NoDup_remove_2 in Hnd. intro F. apply Hnd. apply in_or_app. left. exact F. }
    rewrite Hk. rewrite (IH (pre_ ++ [(k, x)])); [reflexivity|]. now rewrite <- app_assoc. }
  apply (G [] fs). reflexivity.
Qed.

Theorem deser_ser e v : wf_env e v = true -> no_reserved v = true -> deser DRecursive e (ser v) = Some v.
Proof.
  unfold deser.
  induction v as [s|l IH|kvs IH|c fs IH] using value_ind'; intros Hw Hr.
  - destruct s as [| | | | |c m]; try reflexivity. cbn [ser ser_scalar deser_gen].
    change (flag [(k_is_enum, JBool true); (k_class, JStr c); (k_name, JStr m)] k_is_task) with false.
    change (flag [(k_is_enum, JBool true); (k_class, JStr c); (k_name, JStr m)] k_is_enum) with true.
    cbn [wf_env] in Hw. cbn. destruct (alookup (enum_classes e) c) as [ms|]; [|discriminate]. now rewrite Hw.
  - cbn [ser deser_gen]. rewrite map_map. cbn [wf_env no_reserved] in Hw, Hr. rewrite forallb_forall in Hw, Hr.
    rewrite (opt_all_id (fun x => deser_gen DRecursive e false (ser x)) l); [reflexivity|].
    rewrite Forall_forall in *. intros x Hx. apply IH; auto.
  - cbn [ser]. cbn [no_reserved wf_env] in Hr, Hw. rewrite forallb_forall in Hw, Hr.
    set (j := map (fun kv => (fst kv, ser (snd kv))) kvs).
    assert (Hitems : opt_all (map (fun kv => option_map (pair (fst kv)) (deser_gen DRecursive e false (snd kv))) j) = Some kvs).
    { unfold j. rewrite map_map. cbn [fst snd]. rewrite (opt_all_some_map _ (fun kv => kv)); [now rewrite map_id|].
      rewrite Forall_forall in *. intros [k x] Hx. cbn [fst snd].
      pose proof (IH (k, x) Hx (Hw (k, x) Hx) (Hr (k, x) Hx)) as Hi. cbn [snd] in Hi. now rewrite Hi. }
    destruct (wrap_dict_cases j) as [[M ->]|[M ->]].
    + cbn [deser_gen]. unfold marked in M. apply orb_false_iff in M. destruct M as [M M3]. apply orb_false_iff in M. destruct M as [M1 M2].
      rewrite M1, M2, M3, Hitems. reflexivity.
    + set (W := [(k_is_dict, JBool true); (k_items, JObj j)]).
      assert (F1 : flag W k_is_task = false) by reflexivity.
      assert (F2 : flag W k_is_enum = false) by reflexivity.
      assert (F3 : flag W k_is_dict = true) by reflexivity.
      cbn [deser_gen]. fold W. rewrite F1, F2, F3. unfold W. cbn [map fst snd].
      change (alookup [(k_is_dict, deser_gen DRecursive e true (JBool true)); (k_items, deser_gen DRecursive e true (JObj j))] k_items)
        with (Some (deser_gen DRecursive e true (JObj j))).
      cbn [deser_gen]. rewrite Hitems. reflexivity.
  - cbn [ser]. cbn [no_reserved] in Hr. apply andb_true_iff in Hr. destruct Hr as [Hr Hr3].
    apply andb_true_iff in Hr. destruct Hr as [Hr1 Hr2]. apply negb_true_iff in Hr1, Hr2.
    cbn [wf_env] in Hw. apply andb_true_iff in Hw. destruct Hw as [Hw1 Hw2].
    destruct (alookup (task_classes e) c) as [fnames|] eqn:Ec; [|discriminate].
    apply andb_true_iff in Hw1. destruct Hw1 as [Hf Hnd]. apply strs_eqb_eq in Hf. apply nodup_str_NoDup in Hnd.
    rewrite forallb_forall in Hw2, Hr3.
    cbn [deser_gen]. change (flag ((k_is_task, JBool true) :: (k_class, JStr c) :: map (fun kv => (fst kv, ser (snd kv))) fs) k_is_task) with true.
    cbv iota. change (alookup ((k_is_task, JBool true) :: (k_class, JStr c) :: map (fun kv => (fst kv, ser (snd kv))) fs) k_class) with (Some (JStr c)).
    cbv iota. rewrite Ec. cbn [map fst snd filter]. rewrite str_eqb_refl. cbn [negb andb].
    change (str_eqb k_class k_is_task) with false. rewrite str_eqb_refl. cbn [negb andb].
    rewrite map_map. cbn [fst snd].
    assert (Hdec : map (fun x => (fst x, deser_gen DRecursive e false (ser (snd x)))) fs = map (fun kv => (fst kv, Some (snd kv))) fs).
    { apply map_ext_in. intros [k x] Hx. cbn [fst snd]. rewrite Forall_forall in IH.
      pose proof (IH (k, x) Hx (Hw2 (k, x) Hx) (Hr3 (k, x) Hx)) as Hi. cbn [snd] in Hi. now rewrite Hi. }
    rewrite Hdec.
    assert (Hfil : filter (fun kv : str * option value => negb (str_eqb (fst kv) k_is_task) && negb (str_eqb (fst kv) k_class))
                     (map (fun kv => (fst kv, Some (snd kv))) fs) = map (fun kv => (fst kv, Some (snd kv))) fs).
    { clear -Hr1 Hr2. unfold has_key in *. induction fs as [|[k x] l IHl]; cbn [map filter fst snd existsb] in *; [reflexivity|].
      apply orb_false_iff in Hr1, Hr2. destruct Hr1 as [A1 A2], Hr2 as [B1 B2].
      assert (E1 : str_eqb k k_is_task = false).
      { apply str_eqb_neq. intros ->. rewrite str_eqb_refl in A1. discriminate. }
      assert (E2 : str_eqb k k_class = false).
      { apply str_eqb_neq. intros ->. rewrite str_eqb_refl in B1. discriminate. }
      rewrite E1, E2. cbn [negb andb]. f_equal. now apply IHl. }
    rewrite Hfil.
    assert (Hall : forallb (fun kv : str * option value => smem (fst kv) fnames) (map (fun kv => (fst kv, Some (snd kv))) fs) = true).
    { apply forallb_forall. intros [k o] Hin. apply in_map_iff in Hin. destruct Hin as ([k' x] & E & Hin).
      cbn [fst snd] in E. injection E as <- _. cbn [fst]. apply smem_In. rewrite <- Hf. apply in_map_iff. exists (k', x). auto. }
    rewrite Hall. rewrite <- Hf. rewrite lookup_all_fields by (rewrite Hf; exact Hnd). reflexivity.
Qed.

(* a dict that spells a serialised task reads back as that dict *)
Example mimic_roundtrip :
  deser DRecursive {| task_classes := [(s2l "lv_universe.V2"%string, [s2l "x"%string])]; enum_classes := [] |} (ser mimic_task) = Some mimic_task.
Proof. reflexivity. Qed.

(* the shallow variant is not an inverse: a task nested in a tuple comes back as a dict *)
Theorem deser_shallow_refuted : exists e v, wf_env e v = true /\ no_reserved v = true /\ deser DShallow e (ser v) <> Some v.
Proof.
  exists {| task_classes := [(s2l "m.T"%string, [s2l "x"%string])]; enum_classes := [] |},
         (VTask (s2l "m.T"%string) [(s2l "x"%string, VTuple [VTask (s2l "m.T"%string) [(s2l "x"%string, VScal SNone)]])]).
  split; [reflexivity|]. split; [reflexivity|]. vm_compute. discriminate.
Qed.

(* ------------------------------------------------------------------ C15: pickled copies *)
Lemma renorm_id c fs : renorm (VTask c fs) = Some (VTask c fs).
Proof.
  cbn [renorm]. rewrite (opt_all_some_map _ (fun kv => kv)); [now rewrite map_id|].
  apply Forall_forall. intros [k x] _. cbn [fst snd]. now rewrite normalize_embed.
Qed.

Theorem pickle_copy post_init keyf c fs :
  setstate post_init SSReinit (getstate (construct post_init keyf (VTask c fs)))
  = Some (construct post_init keyf (VTask c fs)).
Proof. unfold getstate, setstate, construct. cbn [ps_val ps_key o_val o_key]. now rewrite renorm_id. Qed.

(* a copy never carries results, a results map or a context, whatever the original held *)
Theorem pickle_copy_carries_nothing post_init m o o' :
  setstate post_init m (getstate o) = Some o' ->
  o_results_map o' = None /\ o_context o' = None /\ o_result o' = None /\ o_result_meta o' = None /\ o_key o' = o_key o.
Proof.
  unfold setstate, getstate. cbn [ps_val ps_key]. destruct (renorm (o_val o)); [|discriminate].
  destruct m; intros [= <-]; cbn; repeat split.
Qed.

Theorem pickle_copy_plain_refuted : exists post_init keyf v o',
  setstate post_init SSPlain (getstate (construct post_init keyf v)) = Some o' /\
  o_derived o' <> o_derived (construct post_init keyf v).
Proof.
  exists (fun v => Some v), (fun _ => []), (VTask [] []). eexists. split; [reflexivity|]. cbn. discriminate.
Qed.

(* ------------------------------------------------------------------ C15: equality *)
Fixpoint scalars_refl (seq : scalar -> scalar -> bool) (v : value) : bool :=
  match v with
  | VScal s => seq s s
  | VTuple l => forallb (scalars_refl seq) l
  | VDict kvs => nodup_str (map fst kvs) && forallb (fun kv => scalars_refl seq (snd kv)) kvs
  | VTask _ fs => forallb (fun kv => scalars_refl seq (snd kv)) fs
  end.

Theorem veq_refl seq v : scalars_refl seq v = true -> veq seq v v = true.
Proof.
  induction v as [s|l IH|kvs IH|c fs IH] using value_ind'; cbn [scalars_refl veq]; intros H.
  - exact H.
  - rewrite forallb_forall in H. induction IH as [|x l Hx Hl IHl]; [reflexivity|].
    rewrite Hx by (apply H; now left). cbn [andb]. apply IHl. intros y Hy. apply H. now right.
  - apply andb_true_iff in H. destruct H as [Hnd H]. apply nodup_str_NoDup in Hnd. rewrite Nat.eqb_refl. cbn [andb].
    rewrite forallb_forall in H.
    assert (G : forall pre_ rest, kvs = pre_ ++ rest ->
              (fix go (xs : list (str * value)) : bool :=
                 match xs with
                 | [] => true
                 | (k, x) :: xs' => match alookup kvs k with Some y => veq seq x y | None => false end && go xs'
                 end) rest = true).
    { intros pre_ rest. revert pre_. induction rest as [|[k x] rest IHr]; intros pre_ E; [reflexivity|].
      assert (Hk : alookup kvs k = Some x).
      { rewrite E. apply alookup_app_notin. rewrite E, map_app in Hnd. cbn [map fst] in Hnd.
        apply NoDup_remove_2 in Hnd. intro F. apply Hnd. apply in_or_app. now left. }
      rewrite Hk. rewrite Forall_forall in IH.
      assert (Hin : In (k, x) kvs) by (rewrite E; apply in_or_app; right; now left).
      pose proof (IH (k, x) Hin (H (k, x) Hin)) as Hi. cbn [snd] in Hi. rewrite Hi.
      cbn [andb]. apply (IHr (pre_ ++ [(k, x)])). now rewrite <- app_assoc. }
    apply (G [] kvs). reflexivity.
  - rewrite str_eqb_refl. cbn [andb]. rewrite forallb_forall in H.
    induction IH as [|[k x] l Hx Hl IHl]; [reflexivity|].
    rewrite str_eqb_refl. cbn [snd] in Hx. rewrite Hx by (apply (H (k, x)); now left). cbn [andb].
    apply IHl. intros y Hy. apply H. now right.
Qed.

Theorem veq_other_class seq c d xs ys : c <> d -> veq seq (VTask c xs) (VTask d ys) = false.
Proof. intros H. cbn [veq]. apply str_eqb_neq in H. now rewrite H. Qed.

(* the pickled state of a task never carries the context it was given (nor its result_meta), whatever it held *)
Theorem getstate_whitelist_carries_no_context o : getstate_extras GSWhitelist o = (None, None).
Proof. reflexivity. Qed.
Theorem getstate_vars_refuted : exists o, fst (getstate_extras GSVars o) <> None.
Proof.
  exists {| o_val := VScal SNone; o_key := []; o_results_map := None; o_context := Some 1; o_result_meta := None;
            o_result := None; o_derived := None; o_has_ctx_attrs := true |}. discriminate.
Qed.

(* ------------------------------------------------------------------ the guard [no_reserved] follows from the class environment *)
(* no task class declares a parameter called _is_task or __class__ (labtech reserves the former, the latter is not a legal
   dataclass field) *)
Definition env_ok (e : env) : bool :=
  forallb (fun cf => negb (smem k_is_task (snd cf)) && negb (smem k_class (snd cf))) (task_classes e).

Lemma alookup_In_pair {V} (l : list (str * V)) k v : alookup l k = Some v -> In (k, v) l.
Proof.
  induction l as [|[k' v'] l IH]; cbn [alookup]; [discriminate|].
  destruct (str_eqb k k') eqn:E; [|intros H; right; now apply IH].
  apply str_eqb_eq in E. subst k'. intros [= ->]. now left.
Qed.

Lemma has_key_smem (k : str) (fs : list (str * value)) : has_key k fs = smem k (map fst fs).
Proof. unfold has_key, smem. induction fs as [|[a x] l IH]; cbn [existsb map fst]; [reflexivity|]. now rewrite IH. Qed.

Theorem wf_env_no_reserved e v : env_ok e = true -> wf_env e v = true -> no_reserved v = true.
Proof.
  intros He. induction v as [s|l IH|kvs IH|c fs IH] using value_ind'; intros Hw; cbn [no_reserved].
  - reflexivity.
  - cbn [wf_env] in Hw. rewrite forallb_forall in *. intros x Hx. rewrite Forall_forall in IH. apply IH; auto.
  - cbn [wf_env] in Hw. rewrite forallb_forall in *. intros [k x] Hx. rewrite Forall_forall in IH. apply (IH (k, x) Hx). exact (Hw (k, x) Hx).
  - cbn [wf_env] in Hw. apply andb_true_iff in Hw. destruct Hw as [Hw1 Hw2].
    destruct (alookup (task_classes e) c) as [fnames|] eqn:Ec; [|discriminate].
    apply andb_true_iff in Hw1. destruct Hw1 as [Hf _]. apply strs_eqb_eq in Hf.
    unfold env_ok in He. rewrite forallb_forall in He. specialize (He (c, fnames) (alookup_In_pair _ _ _ Ec)). cbn [snd] in He.
    apply andb_true_iff in He. destruct He as [H1 H2].
    rewrite !has_key_smem, Hf, H1, H2. cbn [andb].
    rewrite forallb_forall in *. intros [k x] Hx. rewrite Forall_forall in IH. apply (IH (k, x) Hx). exact (Hw2 (k, x) Hx).
Qed.

Corollary deser_ser_env e v : env_ok e = true -> wf_env e v = true -> deser DRecursive e (ser v) = Some v.
Proof. intros He Hw. apply deser_ser; [exact Hw|exact (wf_env_no_reserved e v He Hw)]. Qed.
