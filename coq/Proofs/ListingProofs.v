(* ListingProofs.v — cached_tasks lists exactly the stored tasks of the requested types, each once, as stored (C09). *)
Require Import LT.Model.Values LT.Model.ParamTypes LT.Model.Listing LT.Proofs.ValuesProofs.

Lemma prefix_of_app p s : prefix_of p (p ++ s) = true.
Proof. induction p as [|a p IH]; [reflexivity|]. cbn [prefix_of app]. now rewrite N.eqb_refl, IH. Qed.

(* a stored item: the type it was saved under, the task, its result_meta token *)
Definition item := (ttype * value * nat)%type.
Definition it_ty (it : item) : ttype := fst (fst it).
Definition it_task (it : item) : value := snd (fst it).
Definition it_meta (it : item) : nat := snd it.
Definition it_cls (it : item) : str := task_cls (it_task it).

Definition wf_item (e : env) (it : item) : Prop :=
  (exists fs, it_task it = VTask (tt_cls (it_ty it)) fs) /\ wf_env e (it_task it) = true /\ no_reserved (it_task it) = true.

Section Exact.
  Variable e : env.
  Variable dumps : json -> str.
  Variable H : str -> str.
  Notation save := (fun it : item => save_entry dumps H (it_ty it) (it_task it) (it_meta it)).

  Lemma load_task_item ty it :
    wf_item e it -> (tt_cls ty = tt_cls (it_ty it) -> ty = it_ty it) ->
    load_task DRecursive e ty (save it) =
    if str_eqb (tt_cls ty) (it_cls it) then Found (it_task it) (it_meta it) else NotFound.
  Proof.
    intros ((fs & Ht) & Hwf & Hnr) Hcons. unfold it_cls. unfold load_task, save_entry. cbn [en_key en_cache en_task en_meta].
    rewrite (deser_ser e _ Hwf Hnr). rewrite Ht. cbn [task_cls].
    destruct (str_eqb (tt_cls ty) (tt_cls (it_ty it))) eqn:Ecls.
    - apply str_eqb_eq in Ecls. specialize (Hcons Ecls). subst ty.
      cbn [cache_key]. rewrite app_assoc, prefix_of_app, !str_eqb_refl. reflexivity.
    - assert (Hne : str_eqb (tt_cls (it_ty it)) (tt_cls ty) = false).
      { destruct (str_eqb (tt_cls (it_ty it)) (tt_cls ty)) eqn:E'; [|reflexivity]. apply str_eqb_eq in E'. rewrite E', str_eqb_refl in Ecls. discriminate. }
      rewrite Hne. destruct (prefix_of _ _); [|reflexivity]. destruct (str_eqb (tt_cache (it_ty it)) (tt_cache ty)); reflexivity.
  Qed.

  Definition wanted (tys : list ttype) (it : item) : bool := existsb (fun ty => str_eqb (tt_cls ty) (it_cls it)) tys.

  Lemma first_load_item tys it :
    wf_item e it -> (forall ty, In ty tys -> tt_cls ty = tt_cls (it_ty it) -> ty = it_ty it) ->
    first_load DRecursive e tys (save it) = if wanted tys it then Found (it_task it) (it_meta it) else NotFound.
  Proof.
    intros Hwf. induction tys as [|ty tys IH]; intros Hcons; [reflexivity|].
    cbn [first_load wanted existsb]. rewrite (load_task_item ty it Hwf (Hcons ty (or_introl eq_refl))).
    destruct (str_eqb (tt_cls ty) (it_cls it)); [reflexivity|]. cbn [orb]. apply IH. intros ty' Hin. apply Hcons. now right.
  Qed.

  (* cached_tasks over a storage holding what save wrote for [items] returns exactly the items of the requested types, in
     storage order, each once, with the task as it was stored and its stored result_meta; it never raises *)
  Theorem listing_exact tys items :
    (forall it, In it items -> wf_item e it) ->
    (forall ty it, In ty tys -> In it items -> tt_cls ty = tt_cls (it_ty it) -> ty = it_ty it) ->
    cached_tasks DRecursive e tys (map save items) =
    Some (map (fun it => (it_task it, it_meta it)) (filter (wanted tys) items)).
  Proof.
    induction items as [|it items IH]; intros Hwf Hcons; [reflexivity|].
    cbn [map cached_tasks filter].
    rewrite (first_load_item tys it (Hwf it (or_introl eq_refl)) (fun ty Hin => Hcons ty it Hin (or_introl eq_refl))).
    assert (IH' := IH (fun it' Hin => Hwf it' (or_intror Hin)) (fun ty it' Hty Hin => Hcons ty it' Hty (or_intror Hin))).
    destruct (wanted tys it); cbn [map]; rewrite IH'; reflexivity.
  Qed.

  (* the task that is listed has the key of the entry it was read from *)
  Lemma listed_key it : (exists fs, it_task it = VTask (tt_cls (it_ty it)) fs) ->
    en_key (save it) = cache_key dumps H (tt_prefix (it_ty it)) (it_task it).
  Proof. reflexivity. Qed.
End Exact.

(* Whatever the storage holds (entries of other tools, other formats, damaged ones): *)
Section Any.
  Variable mode : deser_mode.
  Variable e : env.

  (* an entry written by another cache class is never listed *)
  Lemma other_format_not_listed ty en t m : en_cache en <> Some (tt_cache ty) -> load_task mode e ty en <> Found t m.
  Proof.
    intros Hne. unfold load_task. destruct (prefix_of _ _); [|discriminate]. destruct (en_cache en) as [c|]; [|discriminate].
    destruct (str_eqb c (tt_cache ty)) eqn:E; [|discriminate]. apply str_eqb_eq in E. subst c. now contradiction Hne.
  Qed.

  (* a listed task is an instance of the requested type, read from an entry whose key starts with the type's prefix *)
  Lemma load_task_found ty en t m : load_task mode e ty en = Found t m ->
    task_cls t = tt_cls ty /\ m = en_meta en /\ prefix_of (tt_prefix ty ++ qualname_of (tt_cls ty)) (en_key en) = true /\
    en_cache en = Some (tt_cache ty) /\ deser mode e (en_task en) = Some t.
  Proof.
    unfold load_task. destruct (prefix_of _ _); [|discriminate]. destruct (en_cache en) as [c|]; [|discriminate].
    destruct (str_eqb c (tt_cache ty)) eqn:E; [|discriminate]. apply str_eqb_eq in E. subst c.
    destruct (deser mode e (en_task en)) as [[s|l|kvs|c' fs]|]; try discriminate.
    destruct (str_eqb c' (tt_cls ty)) eqn:E'; [|discriminate]. apply str_eqb_eq in E'. intros [= <- <-]. cbn [task_cls]. auto.
  Qed.

  Lemma first_load_found tys en t m : first_load mode e tys en = Found t m -> exists ty, In ty tys /\ load_task mode e ty en = Found t m.
  Proof.
    induction tys as [|ty tys IH]; [discriminate|]. cbn [first_load].
    destruct (load_task mode e ty en) as [t' m'| |] eqn:E.
    - intros [= <- <-]. exists ty. split; [now left|exact E].
    - intros Hf. destruct (IH Hf) as (ty' & Hin & Hl). exists ty'. split; [now right|exact Hl].
    - discriminate.
  Qed.

  (* every entry contributes at most one task to the listing, whatever the list of types (duplicates included) *)
  Theorem listing_at_most_once tys store l : cached_tasks mode e tys store = Some l ->
    exists picks : list bool, length picks = length store /\
      length l = length (filter (fun b => b) picks) /\
      forall t m, In (t, m) l -> exists en ty, In en store /\ In ty tys /\ load_task mode e ty en = Found t m.
  Proof.
    revert l. induction store as [|en store IH]; intros l; cbn [cached_tasks].
    - intros [= <-]. exists []. repeat split; intros t m [].
    - destruct (first_load mode e tys en) as [t0 m0| |] eqn:E; [| |discriminate].
      + destruct (cached_tasks mode e tys store) as [l'|] eqn:E'; [|discriminate]. cbn [option_map]. intros [= <-].
        destruct (IH l' eq_refl) as (picks & Hlen & Hcnt & Hin). exists (true :: picks). cbn [length filter]. repeat split; [congruence|congruence|].
        intros t m [[= <- <-]|Hl].
        * destruct (first_load_found tys en t0 m0 E) as (ty & Hty & Hl). exists en, ty. repeat split; [now left|exact Hty|exact Hl].
        * destruct (Hin t m Hl) as (en' & ty & He & Hty & Hld). exists en', ty. repeat split; [now right|exact Hty|exact Hld].
      + intros Hl. destruct (IH l Hl) as (picks & Hlen & Hcnt & Hin). exists (false :: picks). cbn [length filter]. repeat split; [congruence|exact Hcnt|].
        intros t m Hm. destruct (Hin t m Hm) as (en' & ty & He & Hty & Hld). exists en', ty. repeat split; [now right|exact Hty|exact Hld].
  Qed.
End Any.

(* uncache_tasks(cached_tasks(types)): deleting the keys of what was listed removes exactly the entries of those types *)
Section Uncache.
  Variable e : env.
  Variable dumps : json -> str.
  Variable H : str -> str.
  Notation save := (fun it : item => save_entry dumps H (it_ty it) (it_task it) (it_meta it)).
  Notation key_of := (fun it : item => cache_key dumps H (tt_prefix (it_ty it)) (it_task it)).

  Definition delete_keys (ks : list str) (store : list entry) : list entry :=
    filter (fun en => negb (existsb (str_eqb (en_key en)) ks)) store.

  Theorem uncache_listed_exact tys items :
    NoDup (map key_of items) ->
    delete_keys (map key_of (filter (wanted tys) items)) (map save items) = map save (filter (fun it => negb (wanted tys it)) items).
  Proof.
    intros Hnd. unfold delete_keys.
    assert (Hmem : forall it, In it items ->
              existsb (str_eqb (en_key (save it))) (map key_of (filter (wanted tys) items)) = wanted tys it).
    { intros it Hin. cbn [save_entry en_key]. destruct (wanted tys it) eqn:Ew.
      - apply existsb_exists. exists (key_of it). split; [|apply str_eqb_refl].
        apply in_map_iff. exists it. split; [reflexivity|]. apply filter_In. auto.
      - destruct (existsb _ _) eqn:Ex; [|reflexivity]. apply existsb_exists in Ex. destruct Ex as (k & Hk & Heq).
        apply str_eqb_eq in Heq. apply in_map_iff in Hk. destruct Hk as (it' & Hk' & Hf). apply filter_In in Hf. destruct Hf as [Hin' Hw'].
        assert (it = it').
        { clear -Hnd Hin Hin' Heq Hk'. rewrite <- Hk' in Heq. clear Hk'. induction items as [|a l IH]; [destruct Hin|].
          cbn [map] in Hnd. inversion Hnd as [|? ? Hni Hnd']; subst.
          destruct Hin as [<-|Hin], Hin' as [<-|Hin']; [reflexivity| | |now apply IH].
          - exfalso. apply Hni. rewrite Heq. apply in_map_iff. exists it'. auto.
          - exfalso. apply Hni. rewrite <- Heq. apply in_map_iff. exists it. auto. }
        subst it'. congruence. }
    clear Hnd. revert Hmem. generalize (map key_of (filter (wanted tys) items)). intros K.
    induction items as [|it items IH]; intros Hmem; [reflexivity|].
    cbn [map filter]. rewrite (Hmem it (or_introl eq_refl)).
    assert (IH' := IH (fun it0 Hi => Hmem it0 (or_intror Hi))).
    destruct (wanted tys it); cbn [negb map]; [exact IH'|f_equal; exact IH'].
  Qed.
End Uncache.
