(* ExecLate.v — a worker that finishes while wait() runs.  With the liveness snapshot taken before the drain (the source), what
   happens after the drain does not influence this call at all: it is exactly as if it had happened before the next call
   (which is how the harness and the run-level models account for it).  With the snapshot after the drain, a worker that
   delivered its result is declared dead. *)
Require Import LT.Model.Base LT.Model.Exec LT.Proofs.BaseLemmas LT.Proofs.ExecProofs.

Lemma del_set_dead i j (r : list (nat * proc)) : del i (set_dead j r) = set_dead j (del i r).
Proof.
  unfold del, set_dead. induction r as [|[k p] r IH]; [reflexivity|]. cbn [map filter fst].
  destruct (Nat.eqb k j) eqn:Ekj; cbn [fst]; destruct (negb (Nat.eqb i k)); cbn [map fst]; rewrite ?Ekj, IH; reflexivity.
Qed.

Lemma fut_of_env e s i : fut_of (env e s) i = fut_of e i.
Proof. destruct s; reflexivity. Qed.

Lemma fail_dead_env e s i : fail_dead (env e s) i = env (fail_dead e i) s.
Proof.
  unfold fail_dead. rewrite fut_of_env. destruct (done (fut_of e i)); [reflexivity|].
  destruct s as [j ok|j|j]; unfold env, set_fut; cbn [maxw pendq running rqueue futs next]; try reflexivity;
    now rewrite del_set_dead.
Qed.

Lemma fold_fail_dead_env ids : forall e s, fold_left fail_dead ids (env e s) = env (fold_left fail_dead ids e) s.
Proof. induction ids as [|i ids IH]; intros e s; [reflexivity|]. cbn [fold_left]. now rewrite fail_dead_env, IH. Qed.

Lemma fold_fail_dead_envs ids late : forall e,
  fold_left fail_dead ids (fold_left env late e) = fold_left env late (fold_left fail_dead ids e).
Proof.
  induction late as [|s late IH]; intros e; [reflexivity|]. cbn [fold_left]. now rewrite IH, fold_fail_dead_env.
Qed.

(* consuming: the late steps are simply still to come *)
Theorem consume_late_commutes late e : consume_fine SnapBefore late e = fold_left env late (consume e).
Proof. unfold consume_fine, consume. apply fold_fail_dead_envs. Qed.

Lemma length_set_dead j (r : list (nat * proc)) : length (set_dead j r) = length r.
Proof. unfold set_dead. apply map_length. Qed.

Lemma set_dead_fresh j l : ~ In j l -> set_dead j (map (fun i => (i, {| p_alive := true |})) l) = map (fun i => (i, {| p_alive := true |})) l.
Proof.
  intros Hn. unfold set_dead. induction l as [|i l IH]; [reflexivity|]. cbn [map fst].
  destruct (Nat.eqb i j) eqn:E; [apply Nat.eqb_eq in E; subst; exfalso; apply Hn; now left|].
  f_equal. apply IH. intros Hin. apply Hn. now right.
Qed.

Lemma start_processes_env sp e s : sp <> StartAllPending -> ~ In (env_id s) (pendq e) ->
  start_processes sp (env e s) = env (start_processes sp e) s.
Proof.
  intros Hsp Hn. unfold start_processes.
  assert (Hc : start_count sp (env e s) = start_count sp e).
  { destruct sp; destruct s; cbn [start_count env maxw running pendq]; rewrite ?length_set_dead; reflexivity. }
  rewrite Hc. destruct s as [j ok|j|j]; unfold env; cbn [maxw pendq running rqueue futs next env_id] in *; try reflexivity;
    (f_equal; unfold set_dead at 2; rewrite map_app; f_equal; symmetry; apply set_dead_fresh;
     intros Hin; apply Hn; eapply In_firstn_local; exact Hin).
Qed.

Lemma pendq_env e s : pendq (env e s) = pendq e.
Proof. destruct s; reflexivity. Qed.

Lemma start_processes_envs sp late : forall e, sp <> StartAllPending -> (forall s, In s late -> ~ In (env_id s) (pendq e)) ->
  start_processes sp (fold_left env late e) = fold_left env late (start_processes sp e).
Proof.
  induction late as [|s late IH]; intros e Hsp Hn; [reflexivity|]. cbn [fold_left].
  rewrite IH; [|exact Hsp|intros s' Hs'; rewrite pendq_env; apply Hn; now right].
  rewrite start_processes_env; [reflexivity|exact Hsp|apply Hn; now left].
Qed.

(* Workers that finish (or are killed) after the drain of one wait() leave that call exactly as it would have been, and are
   seen by the next one: wait_fine with late steps = wait, then the steps. *)
Theorem wait_late_commutes sp late e : sp <> StartAllPending ->
  (forall s, In s late -> ~ In (env_id s) (pendq (consume e))) ->
  wait_fine sp SnapBefore late e = fold_left env late (wait sp WaitAlwaysStarts e).
Proof.
  intros Hsp Hn. unfold wait_fine, wait. rewrite consume_late_commutes. now apply start_processes_envs.
Qed.

(* hence two consecutive waits with late steps in the first = the same two waits with those steps at the head of the second *)
Corollary late_steps_move_to_next_wait sp late envs2 e : sp <> StartAllPending ->
  (forall s, In s late -> ~ In (env_id s) (pendq (consume e))) ->
  wait sp WaitAlwaysStarts (fold_left env envs2 (wait_fine sp SnapBefore late e)) =
  exstep sp WaitAlwaysStarts (wait sp WaitAlwaysStarts e) (XWait (late ++ envs2)).
Proof. intros Hsp Hn. rewrite wait_late_commutes by assumption. cbn [exstep]. now rewrite fold_left_app. Qed.

(* With the snapshot taken after the drain, a worker that has delivered its result is declared dead: its future fails. *)
Theorem snapshot_after_drain_refuted : exists e late i,
  ExInv e /\ late = [EnvPut i true; EnvExit i] /\
  fut_of (wait_fine StartUpToMax SnapAfter late e) i = FFinished false /\
  fut_of (wait StartUpToMax WaitAlwaysStarts (wait_fine StartUpToMax SnapBefore late e)) i = FFinished true.
Proof.
  exists (submit StartUpToMax (init_ex 1)), [EnvPut 0 true; EnvExit 0], 0.
  split; [|split; [reflexivity|split; vm_compute; reflexivity]].
  apply ExInv_submit, ExInv_init.
Qed.
