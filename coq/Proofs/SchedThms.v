(* SchedThms.v — consequences of the invariant for whole runs: C01, C02, C03, C10, C17. *)
Require Import LT.Model.Base LT.Model.Sched LT.Proofs.BaseLemmas LT.Proofs.PlanProofs LT.Proofs.SchedInv.

(* Every instant of a run: initial state, any prefix of a submit phase, after any completion. *)
Inductive Reach (p : params) (c : cfg) : st -> Prop :=
| R_init : Reach p c (init c)
| R_submit s k : Reach p c s -> Reach p c (fold_left (start c) (firstn k (get_ready p c s)) s)
| R_complete s t order s' : Reach p c s -> complete p c s t order = SOk s' -> Reach p c s'.

Lemma firstn_all_ready p c s : submit_phase p c s = fold_left (start c) (firstn (length (get_ready p c s)) (get_ready p c s)) s.
Proof. now rewrite firstn_all. Qed.

Lemma NoDup_firstn {A} (l : list A) k : NoDup l -> NoDup (firstn k l).
Proof.
  intros H. rewrite <- (firstn_skipn k l) in H. apply NoDup_app_inv in H. tauto.
Qed.
Lemma In_firstn {A} (l : list A) k x : In x (firstn k l) -> In x l.
Proof. intros H. rewrite <- (firstn_skipn k l). apply in_or_app. now left. Qed.

Section Thms.
  Variable p : params.
  Variable c : cfg.
  Hypothesis Hwf : wf c.
  Hypothesis Hguard : p_dep_guard p = true.
  Hypothesis Hmiss : p_missing p = MContinue.

  Lemma Reach_Inv s : Reach p c s -> Inv c s.
  Proof.
    induction 1 as [|s k Hr IH|s t order s' Hr IH E].
    - now apply Inv_init.
    - apply Inv_fold_start; [exact IH| | |].
      + apply NoDup_firstn. unfold get_ready. apply ready_loop_NoDup; [apply IH|constructor|intros x []].
      + intros t Ht. apply In_firstn in Ht. unfold get_ready in Ht. apply ready_loop_sub in Ht.
        destruct Ht as [[]|Ht]. exact Ht.
      + intros t Ht. apply In_firstn in Ht. unfold get_ready in Ht.
        apply (ready_loop_deps p c s _ Hguard) in Ht. destruct Ht as [[]|Ht]. now apply deps_done_In.
    - eapply Inv_complete; eauto.
  Qed.

  Lemma Reach_Rel s : Reach p c s -> Rel c s.
  Proof.
    induction 1 as [|s k Hr IH|s t order s' Hr IH E].
    - apply Rel_init.
    - now apply Rel_fold_start.
    - eapply Rel_complete; eauto. now apply Reach_Inv.
  Qed.

  Lemma Reach_submit_phase s : Reach p c s -> Reach p c (submit_phase p c s).
  Proof. intros H. rewrite firstn_all_ready. now constructor. Qed.

  Lemma Reach_process_batch b : forall s s', Reach p c s -> process_batch p c s b = SOk s' -> Reach p c s'.
  Proof.
    induction b as [|[t order] b IH]; intros s s' Hr E; cbn [process_batch] in E.
    - now injection E as <-.
    - destruct (complete p c s t order) as [s1|u s1|] eqn:Ec; try discriminate.
      eapply IH; [|exact E]. econstructor; eauto.
  Qed.

  (* the state in which a run ends is reachable, unless the run was cut short by a LabError, in which case
     it is the raise-successor of a reachable state *)
  Definition raise_succ (t : nat) (s' : st) : Prop :=
    exists s order, Reach p c s /\ complete p c s t order = SRaise t s'.

  Lemma complete_raise_own s u order w s1 : complete p c s u order = SRaise w s1 -> w = u.
  Proof.
    unfold complete. destruct (negb (mem u (active s))); [discriminate|].
    destruct (exec c s u); [discriminate|]. destruct (cont c); [discriminate|]. now intros [= <- _].
  Qed.

  Lemma process_batch_raise b : forall s t s', Reach p c s -> process_batch p c s b = SRaise t s' -> raise_succ t s'.
  Proof.
    induction b as [|[u order] b IH]; intros s t s' Hr E; cbn [process_batch] in E; [discriminate|].
    destruct (complete p c s u order) as [s1|w s1|] eqn:Ec; try discriminate.
    - eapply IH; [|exact E]. econstructor; eauto.
    - injection E as <- <-. pose proof (complete_raise_own _ _ _ _ _ Ec) as ->. exists s, order. split; assumption.
  Qed.

  Lemma loop_Reach o : forall s, Reach p c s ->
    match fst (loop p c s o) with
    | RaisedLabError t => raise_succ t (snd (loop p c s o))
    | _ => Reach p c (snd (loop p c s o))
    end.
  Proof.
    induction o as [|b o IH]; intros s Hr; cbn [loop].
    - destruct (loop_done s); cbn [fst snd]; [|exact Hr]. unfold final. destruct (p_final p); [exact Hr| |];
        destruct (opt_all _); exact Hr.
    - destruct (loop_done s).
      + cbn [fst snd]. unfold final. destruct (p_final p); [exact Hr| |]; destruct (opt_all _); exact Hr.
      + pose proof (Reach_submit_phase s Hr) as H1. set (s1 := submit_phase p c s) in *.
        destruct (active s1); [exact H1|].
        destruct (process_batch p c s1 b) as [s2|t s2|] eqn:Eb; cbn [fst snd].
        * apply IH. eapply Reach_process_batch; eauto.
        * eapply process_batch_raise; eauto.
        * exact H1.
  Qed.

  Theorem run_Reach o :
    match fst (run p c o) with
    | RaisedLabError t => raise_succ t (snd (run p c o))
    | _ => Reach p c (snd (run p c o))
    end.
  Proof. apply loop_Reach. constructor. Qed.

  (* ---------------------------------------------------------------- what a normal return contains *)
  Definition expected : list (nat * val) :=
    flat_map (fun t => match ref c t with Some v => [(t, v)] | None => [] end) (dedup (req c)).

  Hypothesis Hfinal : p_final p = FFilter.

  Lemma done_all_finished s : Inv c s -> loop_done s = true -> forall t, In t (plan c) -> In t (finished s).
  Proof.
    intros I Ed t Ht. unfold loop_done in Ed.
    destruct (pending s) eqn:Ep; [|discriminate]. destruct (active s) eqn:Ea; [|discriminate].
    apply (I_cover c s I) in Ht. rewrite Ep, Ea in Ht. destruct Ht as [[]|[[]|Ht]]. exact Ht.
  Qed.

  Lemma final_expected s : Inv c s -> loop_done s = true -> final p c s = Returned expected.
  Proof.
    intros I Ed. unfold final. rewrite Hfinal. f_equal. unfold expected.
    apply flat_map_ext_in_local.
    intros t Ht. apply (proj1 (In_dedup _ _)) in Ht.
    assert (Hf : In t (finished s)).
    { apply (done_all_finished s I Ed). destruct (plan_spec c Hwf) as (_ & P2 & _). now apply P2. }
    now rewrite (I_results2 c s I t Hf Ht).
  Qed.

  Lemma loop_returns o : forall s r, Reach p c s -> fst (loop p c s o) = Returned r -> r = expected.
  Proof.
    induction o as [|b o IH]; intros s r Hr E; cbn [loop] in E.
    - destruct (loop_done s) eqn:Ed; cbn [fst] in E; [|discriminate].
      rewrite (final_expected s (Reach_Inv s Hr) Ed) in E. congruence.
    - destruct (loop_done s) eqn:Ed.
      + cbn [fst] in E. rewrite (final_expected s (Reach_Inv s Hr) Ed) in E. congruence.
      + pose proof (Reach_submit_phase s Hr) as H1. set (s1 := submit_phase p c s) in *.
        destruct (active s1); [discriminate|].
        destruct (process_batch p c s1 b) as [s2|t s2|] eqn:Eb; cbn [fst] in E; try discriminate.
        eapply IH; [|exact E]. eapply Reach_process_batch; eauto.
  Qed.

  Theorem run_returns_expected o r : fst (run p c o) = Returned r -> r = expected.
  Proof. apply loop_returns. constructor. Qed.

  (* the runner holds nothing when run_tasks returns normally (C17) *)
  Lemma done_rmap_empty s : Inv c s -> Rel c s -> loop_done s = true -> rmap s = [].
  Proof.
    intros I R Ed. apply all_none_nil. intros k.
    destruct (lookup (rmap s) k) as [w|] eqn:El; [|reflexivity]. exfalso.
    destruct (I_sound c s I k w El) as [_ Hf].
    assert (Hn : pdependents c (plan c) (finished s) k = []).
    { apply pdependents_nil. intros u Hu _. now apply (done_all_finished s I Ed). }
    rewrite (R k Hf Hn) in El. discriminate.
  Qed.

  Lemma loop_returned_state o : forall s r, Reach p c s -> fst (loop p c s o) = Returned r ->
    loop_done (snd (loop p c s o)) = true.
  Proof.
    induction o as [|b o IH]; intros s r Hr E; cbn [loop] in E |- *.
    - destruct (loop_done s) eqn:Ed; cbn [fst snd] in *; [exact Ed|discriminate].
    - destruct (loop_done s) eqn:Ed; [cbn [snd]; exact Ed|].
      pose proof (Reach_submit_phase s Hr) as H1. set (s1 := submit_phase p c s) in *.
      destruct (active s1); [discriminate|].
      destruct (process_batch p c s1 b) as [s2|t s2|] eqn:Eb; cbn [fst snd] in *; try discriminate.
      eapply IH; [|exact E]. eapply Reach_process_batch; eauto.
  Qed.

  Theorem run_returned_rmap_empty o r : fst (run p c o) = Returned r -> rmap (snd (run p c o)) = [].
  Proof.
    intros E. pose proof (run_Reach o) as HR. rewrite E in HR.
    apply done_rmap_empty; [now apply Reach_Inv|now apply Reach_Rel|]. eapply loop_returned_state; [constructor|exact E].
  Qed.

  (* ---------------------------------------------------------------- failures (C10) *)
  Lemma complete_cont_no_raise s t order u s' : cont c = true -> complete p c s t order <> SRaise u s'.
  Proof.
    intros Hc. unfold complete. destruct (negb (mem t (active s))); [discriminate|].
    destruct (exec c s t); [discriminate|]. rewrite Hc. discriminate.
  Qed.

  Lemma process_batch_cont_no_raise b : cont c = true -> forall s u s', process_batch p c s b <> SRaise u s'.
  Proof.
    intros Hc. induction b as [|[t order] b IH]; intros s u s'; cbn [process_batch]; [discriminate|].
    destruct (complete p c s t order) as [s1|w s1|] eqn:Ec; [apply IH| |discriminate].
    exfalso. eapply complete_cont_no_raise; eauto.
  Qed.

  Theorem continue_never_raises o t : cont c = true -> fst (run p c o) <> RaisedLabError t.
  Proof.
    intros Hc. unfold run. generalize (init c). induction o as [|b o IH]; intros s; cbn [loop].
    - destruct (loop_done s); cbn [fst]; [|discriminate]. unfold final. rewrite Hfinal. discriminate.
    - destruct (loop_done s); [cbn [fst]; unfold final; rewrite Hfinal; discriminate|].
      destruct (active (submit_phase p c s)); [discriminate|].
      destruct (process_batch p c (submit_phase p c s) b) as [s2|u s2|] eqn:Eb; cbn [fst]; [apply IH| |discriminate].
      exfalso. eapply process_batch_cont_no_raise; eauto.
  Qed.

  Lemma raise_is_failure s t order s' : Reach p c s -> complete p c s t order = SRaise t s' ->
    ref c t = None /\ cont c = false /\ In t (active s) /\
    pending s' = pending s /\ hist s' = EFinish t None :: hist s /\ store s' = store s /\ results s' = results s.
  Proof.
    intros Hr E. unfold complete in E. destruct (mem t (active s)) eqn:Em; cbn [negb] in E; [|discriminate].
    apply mem_In in Em. rewrite (exec_ref c s t Hwf (Reach_Inv s Hr) Em) in E.
    destruct (ref c t); [discriminate|]. destruct (cont c); [discriminate|]. injection E as <-.
    cbn [pending hist store results]. repeat split; auto.
  Qed.

  Theorem raise_means_own_failure o t : fst (run p c o) = RaisedLabError t ->
    cont c = false /\ ref c t = None /\
    exists h, hist (snd (run p c o)) = EFinish t None :: h.
  Proof.
    intros E. pose proof (run_Reach o) as HR. rewrite E in HR. destruct HR as (s & order & Hr & Ec).
    destruct (raise_is_failure s t order _ Hr Ec) as (A & B & C & D & F & G & H).
    repeat split; auto. eauto.
  Qed.
End Thms.
