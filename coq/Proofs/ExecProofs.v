(* ExecProofs.v — invariants of the ProcessExecutor state machine for every sequence of executor calls and
   environment steps: the worker limit (C04), full use of free workers (C05), detection of dead workers (C11). *)
Require Import LT.Model.Base LT.Model.Exec LT.Proofs.BaseLemmas.

Lemma length_del_le {V} i (l : list (nat * V)) : List.length (del i l) <= List.length l.
Proof. unfold del. induction l as [|a l IH]; cbn [filter List.length]; [lia|]. destruct (negb _); cbn [List.length]; lia. Qed.

Lemma length_set_dead i r : List.length (set_dead i r) = List.length r.
Proof. unfold set_dead. apply map_length. Qed.

Lemma fold_env_fields envs : forall e,
  let e' := fold_left env envs e in
  maxw e' = maxw e /\ pendq e' = pendq e /\ List.length (running e') = List.length (running e) /\
  map fst (running e') = map fst (running e) /\ futs e' = futs e /\ next e' = next e.
Proof.
  induction envs as [|s envs IH]; intros e; cbn [fold_left]; [repeat split|].
  destruct (IH (env e s)) as (A & B & C & D & F & G).
  assert (Hm : map fst (running (env e s)) = map fst (running e)).
  { destruct s; cbn [env running]; try reflexivity; unfold set_dead; rewrite map_map; apply map_ext;
      intros [j p]; cbn [fst]; destruct (Nat.eqb j i); reflexivity. }
  destruct s; cbn [env maxw pendq running futs next] in *; rewrite ?length_set_dead in C;
    repeat split; try assumption; try congruence.
Qed.

Lemma drain_fields q : forall e,
  maxw (drain q e) = maxw e /\ pendq (drain q e) = pendq e /\ next (drain q e) = next e /\
  List.length (running (drain q e)) <= List.length (running e).
Proof.
  induction q as [|[i ok] q IH]; intros e; cbn [drain]; [cbn [maxw pendq next running]; repeat split; try reflexivity; lia|].
  destruct (has (running e) i); [|cbn [maxw pendq next running]; repeat split; try reflexivity; lia].
  destruct (IH (apply_result e i ok)) as (A & B & C & D). cbn [apply_result maxw pendq next running] in *.
  repeat split; try assumption. pose proof (length_del_le i (running e)). lia.
Qed.

Lemma fold_fail_dead_fields l : forall e,
  maxw (fold_left fail_dead l e) = maxw e /\ pendq (fold_left fail_dead l e) = pendq e /\
  next (fold_left fail_dead l e) = next e /\
  List.length (running (fold_left fail_dead l e)) <= List.length (running e).
Proof.
  induction l as [|i l IH]; intros e; cbn [fold_left]; [repeat split; try reflexivity; lia|].
  destruct (IH (fail_dead e i)) as (A & B & C & D). unfold fail_dead in *.
  destruct (done (fut_of e i)); cbn [maxw pendq next running] in *; repeat split; try assumption.
  pose proof (length_del_le i (running e)). lia.
Qed.

Lemma consume_fields e :
  maxw (consume e) = maxw e /\ pendq (consume e) = pendq e /\ next (consume e) = next e /\
  List.length (running (consume e)) <= List.length (running e).
Proof.
  unfold consume. destruct (fold_fail_dead_fields (dead_ids e) (drain (rqueue e) e)) as (A & B & C & D).
  destruct (drain_fields (rqueue e) e) as (A' & B' & C' & D'). repeat split; try congruence. lia.
Qed.

Section Policy.
  Variable sp : start_policy.
  Hypothesis Hsp : sp = StartUpToMax.

  Lemma start_processes_limit e : List.length (running e) <= maxw e ->
    List.length (running (start_processes sp e)) <= maxw e /\
    (pendq (start_processes sp e) <> [] -> List.length (running (start_processes sp e)) = maxw e) /\
    maxw (start_processes sp e) = maxw e.
  Proof.
    intros H. unfold start_processes, start_count. rewrite Hsp. cbn [running pendq maxw].
    rewrite app_length, map_length, firstn_length.
    set (n := maxw e - List.length (running e)). split; [lia|]. split; [|reflexivity].
    intros Hne. destruct (Nat.le_gt_cases (List.length (pendq e)) n) as [Hle|Hgt].
    - rewrite skipn_all2 in Hne by exact Hle. congruence.
    - lia.
  Qed.

  (* worker-limit invariant and "full" invariant, for every executor call with any environment steps before it *)
  Definition within (e : ex) : Prop := List.length (running e) <= maxw e.
  Definition full (e : ex) : Prop := pendq e <> [] -> List.length (running e) = maxw e.

  Theorem exstep_within e o : within e -> within (exstep sp e o) /\ maxw (exstep sp e o) = maxw e.
  Proof.
    unfold within. intros H. destruct o as [|envs| |]; cbn [exstep].
    - unfold submit. match goal with |- context [start_processes sp ?x] => destruct (start_processes_limit x) as (A & _ & C) end;
        [exact H|]. cbn [maxw] in *. split; [exact A|exact C].
    - unfold wait. destruct (fold_env_fields envs e) as (A & B & C & _). cbn zeta in *.
      destruct (consume_fields (fold_left env envs e)) as (A' & B' & C' & D').
      destruct (start_processes_limit (consume (fold_left env envs e))) as (X & _ & Z); [lia|]. split; [lia|congruence].
    - cbn [cancel running maxw]. split; [exact H|reflexivity].
    - cbn [stop running maxw List.length]. split; [lia|reflexivity].
  Qed.

  Theorem worker_limit ops : forall e, within e -> forall e', In e' (states sp e ops) -> within e'.
  Proof.
    induction ops as [|o ops IH]; intros e H e' [<-|Hin]; try exact H; [destruct Hin|].
    apply (IH (exstep sp e o)); [now apply exstep_within|exact Hin].
  Qed.

  (* after every submit and every wait (the executor's rest points) no future is pending while a worker slot is free *)
  Theorem rest_full e o : within e -> match o with XSubmit | XWait _ => full (exstep sp e o) | _ => True end.
  Proof.
    unfold within, full. intros H. destruct o as [|envs| |]; cbn [exstep]; try exact I.
    - unfold submit. match goal with |- context [start_processes sp ?x] => destruct (start_processes_limit x) as (_ & B & C) end;
        [exact H|]. cbn [maxw] in *. intros Hp. rewrite C. now apply B.
    - unfold wait. destruct (fold_env_fields envs e) as (A & B & C & _). cbn zeta in *.
      destruct (consume_fields (fold_left env envs e)) as (A' & B' & C' & D').
      destruct (start_processes_limit (consume (fold_left env envs e))) as (_ & Y & Z); [lia|].
      intros Hp. rewrite Z. now apply Y.
  Qed.
End Policy.

(* ------------------------------------------------------------------ dead workers are detected by the next wait *)
Lemma has_del_other {V} (l : list (nat * V)) i j : i <> j -> has (del j l) i = has l i.
Proof. intros H. unfold has. now rewrite lookup_del_other. Qed.

Lemma fut_of_set_same e i f : match lookup (set_fut e i f) i with Some x => x | None => FPending end = f.
Proof. unfold set_fut. cbn [lookup]. now rewrite Nat.eqb_refl. Qed.

(* once a future is done it stays done, and failing a dead worker removes it from the running table *)
Lemma fail_dead_done_mono e j i : done (fut_of e i) = true -> done (fut_of (fail_dead e j) i) = true.
Proof.
  intros H. unfold fail_dead. destruct (done (fut_of e j)) eqn:E; [exact H|].
  unfold fut_of. cbn [futs]. unfold set_fut. cbn [lookup]. destruct (Nat.eqb_spec i j) as [->|Hne]; [reflexivity|].
  rewrite lookup_del_other by exact Hne. exact H.
Qed.
Lemma fold_fail_dead_done_mono l : forall e i, done (fut_of e i) = true -> done (fut_of (fold_left fail_dead l e) i) = true.
Proof. induction l as [|j l IH]; intros e i H; cbn [fold_left]; [exact H|]. apply IH. now apply fail_dead_done_mono. Qed.

Lemma fail_dead_makes_done e i : done (fut_of (fail_dead e i) i) = true.
Proof.
  unfold fail_dead. destruct (done (fut_of e i)) eqn:E; [exact E|].
  unfold fut_of. cbn [futs]. unfold set_fut. cbn [lookup]. now rewrite Nat.eqb_refl.
Qed.

Theorem dead_worker_done e i : In i (dead_ids e) -> done (fut_of (consume e) i) = true.
Proof.
  unfold consume. generalize (drain (rqueue e) e). generalize (dead_ids e).
  induction l as [|j l IH]; intros e0 Hin; [destruct Hin|]. cbn [fold_left].
  destruct Hin as [->|Hin]; [|now apply IH].
  apply fold_fail_dead_done_mono. apply fail_dead_makes_done.
Qed.

(* a future that is not done keeps its running entry through fail_dead of other ids; a done one that was failed is removed *)
Lemma fail_dead_removes e i : done (fut_of e i) = false -> has (running (fail_dead e i)) i = false.
Proof.
  intros H. unfold fail_dead. rewrite H. cbn [running]. unfold has. now rewrite lookup_del_same.
Qed.
Lemma fail_dead_has_mono e j i : has (running e) i = false -> has (running (fail_dead e j)) i = false.
Proof.
  intros H. unfold fail_dead. destruct (done (fut_of e j)); [exact H|]. cbn [running].
  destruct (Nat.eq_dec i j) as [->|Hne]; [unfold has; now rewrite lookup_del_same|]. now rewrite has_del_other.
Qed.
Lemma fold_fail_dead_has_mono l : forall e i, has (running e) i = false -> has (running (fold_left fail_dead l e)) i = false.
Proof. induction l as [|j l IH]; intros e i H; cbn [fold_left]; [exact H|]. apply IH. now apply fail_dead_has_mono. Qed.

(* registered running futures are never done (the executor's own invariant), so a sampled-dead worker is always
   removed from the running table by the wait that follows *)
Definition running_not_done (e : ex) : Prop := forall i, has (running e) i = true -> done (fut_of e i) = false.

Lemma apply_result_rnd e i ok : running_not_done e -> running_not_done (apply_result e i ok).
Proof.
  intros H j Hj. cbn [apply_result running] in Hj.
  assert (Hne : j <> i). { intros ->. unfold has in Hj. now rewrite lookup_del_same in Hj. }
  rewrite has_del_other in Hj by exact Hne. specialize (H j Hj).
  unfold fut_of at 1. cbn [apply_result futs]. destruct (done (fut_of e i)); [exact H|].
  unfold set_fut. cbn [lookup]. destruct (Nat.eqb_spec j i); [congruence|]. rewrite lookup_del_other by exact Hne. exact H.
Qed.
Lemma drain_rnd q : forall e, running_not_done e -> running_not_done (drain q e).
Proof.
  induction q as [|[i ok] q IH]; intros e H; cbn [drain]; [exact H|].
  destruct (has (running e) i); [|exact H]. apply IH. now apply apply_result_rnd.
Qed.

Theorem dead_worker_removed e i : running_not_done e -> In i (dead_ids e) -> has (running (consume e)) i = false.
Proof.
  intros H Hin. unfold consume. pose proof (drain_rnd (rqueue e) e H) as H0.
  revert H0. generalize (drain (rqueue e) e). generalize (dead_ids e) Hin. clear.
  induction l as [|j l IH]; intros Hin e0 H0; [destruct Hin|]. cbn [fold_left].
  destruct Hin as [->|Hin].
  - apply fold_fail_dead_has_mono. destruct (has (running e0) i) eqn:E.
    + apply fail_dead_removes. now apply H0.
    + now apply fail_dead_has_mono.
  - apply IH; [exact Hin|]. intros k Hk. unfold fail_dead in *. destruct (done (fut_of e0 j)) eqn:E; [now apply H0|].
    cbn [running] in Hk. assert (Hne : k <> j). { intros ->. unfold has in Hk. now rewrite lookup_del_same in Hk. }
    rewrite has_del_other in Hk by exact Hne. specialize (H0 k Hk). unfold fut_of in *. cbn [futs]. unfold set_fut. cbn [lookup].
    destruct (Nat.eqb_spec k j); [congruence|]. now rewrite lookup_del_other.
Qed.

Example init_within w : within (init_ex w).
Proof. unfold within. cbn. lia. Qed.
Example init_running_not_done w : running_not_done (init_ex w).
Proof. intros i H. discriminate. Qed.
(* a concrete run with a kill: two workers, three futures, the first worker is killed, the second finishes *)
Example ex_dead_detected :
  let e := fold_left (exstep StartUpToMax) [XSubmit; XSubmit; XSubmit; XWait [EnvKill 0; EnvPut 1 true; EnvExit 1]] (init_ex 2) in
  obs_of e = {| xo_running := [2]; xo_pendq := []; xo_done := [(0, 2); (1, 1)] |}.
Proof. vm_compute. reflexivity. Qed.
