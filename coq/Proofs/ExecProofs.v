(* ExecProofs.v — invariants of the ProcessExecutor state machine for every sequence of executor calls and
   environment steps: the worker limit (C04), full use of free workers (C05), detection of dead workers (C11). *)
Require Import LT.Model.Base LT.Model.Exec LT.Proofs.BaseLemmas.

Lemma length_del_le {V} i (l : list (nat * V)) : List.length (del i l) <= List.length l.
Proof. unfold del. induction l as [|a l IH]; cbn [filter List.length]; [lia|]. destruct (negb _); cbn [List.length]; lia. Qed.

Lemma length_set_dead i r : List.length (set_dead i r) = List.length r.
Proof. unfold set_dead. apply map_length. Qed.

Lemma fold_env_fields envs : forall e,
  let e' := fold_left env envs e in
  maxw e' = maxw e /\ pendq e' = pendq e /\ List.length (running e') = List.length (running e) /\
  map fst (running e') = map fst (running e) /\ futs e' = futs e /\ next e' = next e.
Proof.
  induction envs as [|s envs IH]; intros e; cbn [fold_left]; [repeat split|].
  destruct (IH (env e s)) as (A & B & C & D & F & G).
  assert (Hm : map fst (running (env e s)) = map fst (running e)).
  { destruct s; cbn [env running]; try reflexivity; unfold set_dead; rewrite map_map; apply map_ext;
      intros [j p]; cbn [fst]; destruct (Nat.eqb j i); reflexivity. }
  destruct s; cbn [env maxw pendq running futs next] in *; rewrite ?length_set_dead in C;
    repeat split; try assumption; try congruence.
Qed.

Lemma drain_fields q : forall e,
  maxw (drain q e) = maxw e /\ pendq (drain q e) = pendq e /\ next (drain q e) = next e /\
  List.length (running (drain q e)) <= List.length (running e).
Proof.
  induction q as [|[i ok] q IH]; intros e; cbn [drain]; [cbn [maxw pendq next running]; repeat split; try reflexivity; lia|].
  destruct (has (running e) i); [|cbn [maxw pendq next running]; repeat split; try reflexivity; lia].
  destruct (IH (apply_result e i ok)) as (A & B & C & D). cbn [apply_result maxw pendq next running] in *.
  repeat split; try assumption. pose proof (length_del_le i (running e)). lia.
Qed.

Lemma fold_fail_dead_fields l : forall e,
  maxw (fold_left fail_dead l e) = maxw e /\ pendq (fold_left fail_dead l e) = pendq e /\
  next (fold_left fail_dead l e) = next e /\
  List.length (running (fold_left fail_dead l e)) <= List.length (running e).
Proof.
  induction l as [|i l IH]; intros e; cbn [fold_left]; [repeat split; try reflexivity; lia|].
  destruct (IH (fail_dead e i)) as (A & B & C & D). unfold fail_dead in *.
  destruct (done (fut_of e i)); cbn [maxw pendq next running] in *; repeat split; try assumption.
  pose proof (length_del_le i (running e)). lia.
Qed.

Lemma consume_fields e :
  maxw (consume e) = maxw e /\ pendq (consume e) = pendq e /\ next (consume e) = next e /\
  List.length (running (consume e)) <= List.length (running e).
Proof.
  unfold consume. destruct (fold_fail_dead_fields (dead_ids e) (drain (rqueue e) e)) as (A & B & C & D).
  destruct (drain_fields (rqueue e) e) as (A' & B' & C' & D'). repeat split; try congruence. lia.
Qed.

Section Policy.
  Variable sp : start_policy.
  Hypothesis Hsp : sp = StartUpToMax.
  Variable wp : wait_policy.

  Lemma start_processes_limit e : List.length (running e) <= maxw e ->
    List.length (running (start_processes sp e)) <= maxw e /\
    (pendq (start_processes sp e) <> [] -> List.length (running (start_processes sp e)) = maxw e) /\
    maxw (start_processes sp e) = maxw e.
  Proof.
    intros H. unfold start_processes, start_count. rewrite Hsp. cbn [running pendq maxw].
    rewrite app_length, map_length, firstn_length.
    set (n := maxw e - List.length (running e)). split; [lia|]. split; [|reflexivity].
    intros Hne. destruct (Nat.le_gt_cases (List.length (pendq e)) n) as [Hle|Hgt].
    - rewrite skipn_all2 in Hne by exact Hle. congruence.
    - lia.
  Qed.

  (* worker-limit invariant and "full" invariant, for every executor call with any environment steps before it *)
  Definition within (e : ex) : Prop := List.length (running e) <= maxw e.
  Definition full (e : ex) : Prop := pendq e <> [] -> List.length (running e) = maxw e.

  Theorem exstep_within e o : within e -> within (exstep sp wp e o) /\ maxw (exstep sp wp e o) = maxw e.
  Proof.
    unfold within. intros H. destruct o as [|envs| |]; cbn [exstep].
    - unfold submit. match goal with |- context [start_processes sp ?x] => destruct (start_processes_limit x) as (A & _ & C) end;
        [exact H|]. cbn [maxw] in *. split; [exact A|exact C].
    - destruct (fold_env_fields envs e) as (A & B & C & _). cbn zeta in *.
      destruct (consume_fields (fold_left env envs e)) as (A' & B' & C' & D').
      destruct (start_processes_limit (consume (fold_left env envs e))) as (X & _ & Z); [lia|].
      unfold wait. destruct wp; [split; [lia|congruence]| |split; [lia|congruence]].
      destruct (rqueue (fold_left env envs e)); split; try lia; congruence.
    - cbn [cancel running maxw]. split; [exact H|reflexivity].
    - cbn [stop running maxw List.length]. split; [lia|reflexivity].
  Qed.

  Theorem worker_limit ops : forall e, within e -> forall e', In e' (states sp wp e ops) -> within e'.
  Proof.
    induction ops as [|o ops IH]; intros e H e' [<-|Hin]; try exact H; [destruct Hin|].
    apply (IH (exstep sp wp e o)); [now apply exstep_within|exact Hin].
  Qed.

  (* after every submit and every wait (the executor's rest points) no future is pending while a worker slot is free *)
  Hypothesis Hwp : wp = WaitAlwaysStarts.
  Theorem rest_full e o : within e -> match o with XSubmit | XWait _ => full (exstep sp wp e o) | _ => True end.
  Proof.
    unfold within, full. intros H. subst wp. destruct o as [|envs| |]; cbn [exstep]; try exact I.
    - unfold submit. match goal with |- context [start_processes sp ?x] => destruct (start_processes_limit x) as (_ & B & C) end;
        [exact H|]. cbn [maxw] in *. intros Hp. rewrite C. now apply B.
    - unfold wait. destruct (fold_env_fields envs e) as (A & B & C & _). cbn zeta in *.
      destruct (consume_fields (fold_left env envs e)) as (A' & B' & C' & D').
      destruct (start_processes_limit (consume (fold_left env envs e))) as (_ & Y & Z); [lia|].
      intros Hp. rewrite Z. now apply Y.
  Qed.
End Policy.

(* ------------------------------------------------------------------ dead workers are detected by the next wait *)
Lemma has_del_other {V} (l : list (nat * V)) i j : i <> j -> has (del j l) i = has l i.
Proof. intros H. unfold has. now rewrite lookup_del_other. Qed.

Lemma fut_of_set_same e i f : match lookup (set_fut e i f) i with Some x => x | None => FPending end = f.
Proof. unfold set_fut. cbn [lookup]. now rewrite Nat.eqb_refl. Qed.

(* once a future is done it stays done, and failing a dead worker removes it from the running table *)
Lemma fail_dead_done_mono e j i : done (fut_of e i) = true -> done (fut_of (fail_dead e j) i) = true.
Proof.
  intros H. unfold fail_dead. destruct (done (fut_of e j)) eqn:E; [exact H|].
  unfold fut_of. cbn [futs]. unfold set_fut. cbn [lookup]. destruct (Nat.eqb_spec i j) as [->|Hne]; [reflexivity|].
  rewrite lookup_del_other by exact Hne. exact H.
Qed.
Lemma fold_fail_dead_done_mono l : forall e i, done (fut_of e i) = true -> done (fut_of (fold_left fail_dead l e) i) = true.
Proof. induction l as [|j l IH]; intros e i H; cbn [fold_left]; [exact H|]. apply IH. now apply fail_dead_done_mono. Qed.

Lemma fail_dead_makes_done e i : done (fut_of (fail_dead e i) i) = true.
Proof.
  unfold fail_dead. destruct (done (fut_of e i)) eqn:E; [exact E|].
  unfold fut_of. cbn [futs]. unfold set_fut. cbn [lookup]. now rewrite Nat.eqb_refl.
Qed.

Theorem dead_worker_done e i : In i (dead_ids e) -> done (fut_of (consume e) i) = true.
Proof.
  unfold consume. generalize (drain (rqueue e) e). generalize (dead_ids e).
  induction l as [|j l IH]; intros e0 Hin; [destruct Hin|]. cbn [fold_left].
  destruct Hin as [->|Hin]; [|now apply IH].
  apply fold_fail_dead_done_mono. apply fail_dead_makes_done.
Qed.

(* a future that is not done keeps its running entry through fail_dead of other ids; a done one that was failed is removed *)
Lemma fail_dead_removes e i : done (fut_of e i) = false -> has (running (fail_dead e i)) i = false.
Proof.
  intros H. unfold fail_dead. rewrite H. cbn [running]. unfold has. now rewrite lookup_del_same.
Qed.
Lemma fail_dead_has_mono e j i : has (running e) i = false -> has (running (fail_dead e j)) i = false.
Proof.
  intros H. unfold fail_dead. destruct (done (fut_of e j)); [exact H|]. cbn [running].
  destruct (Nat.eq_dec i j) as [->|Hne]; [unfold has; now rewrite lookup_del_same|]. now rewrite has_del_other.
Qed.
Lemma fold_fail_dead_has_mono l : forall e i, has (running e) i = false -> has (running (fold_left fail_dead l e)) i = false.
Proof. induction l as [|j l IH]; intros e i H; cbn [fold_left]; [exact H|]. apply IH. now apply fail_dead_has_mono. Qed.

(* registered running futures are never done (the executor's own invariant), so a sampled-dead worker is always
   removed from the running table by the wait that follows *)
Definition running_not_done (e : ex) : Prop := forall i, has (running e) i = true -> done (fut_of e i) = false.

Lemma apply_result_rnd e i ok : running_not_done e -> running_not_done (apply_result e i ok).
Proof.
  intros H j Hj. cbn [apply_result running] in Hj.
  assert (Hne : j <> i). { intros ->. unfold has in Hj. now rewrite lookup_del_same in Hj. }
  rewrite has_del_other in Hj by exact Hne. specialize (H j Hj).
  unfold fut_of at 1. cbn [apply_result futs]. destruct (done (fut_of e i)); [exact H|].
  unfold set_fut. cbn [lookup]. destruct (Nat.eqb_spec j i); [congruence|]. rewrite lookup_del_other by exact Hne. exact H.
Qed.
Lemma drain_rnd q : forall e, running_not_done e -> running_not_done (drain q e).
Proof.
  induction q as [|[i ok] q IH]; intros e H; cbn [drain]; [exact H|].
  destruct (has (running e) i); [|exact H]. apply IH. now apply apply_result_rnd.
Qed.

Theorem dead_worker_removed e i : running_not_done e -> In i (dead_ids e) -> has (running (consume e)) i = false.
Proof.
  intros H Hin. unfold consume. pose proof (drain_rnd (rqueue e) e H) as H0.
  revert H0. generalize (drain (rqueue e) e). generalize (dead_ids e) Hin. clear.
  induction l as [|j l IH]; intros Hin e0 H0; [destruct Hin|]. cbn [fold_left].
  destruct Hin as [->|Hin].
  - apply fold_fail_dead_has_mono. destruct (has (running e0) i) eqn:E.
    + apply fail_dead_removes. now apply H0.
    + now apply fail_dead_has_mono.
  - apply IH; [exact Hin|]. intros k Hk. unfold fail_dead in *. destruct (done (fut_of e0 j)) eqn:E; [now apply H0|].
    cbn [running] in Hk. assert (Hne : k <> j). { intros ->. unfold has in Hk. now rewrite lookup_del_same in Hk. }
    rewrite has_del_other in Hk by exact Hne. specialize (H0 k Hk). unfold fut_of in *. cbn [futs]. unfold set_fut. cbn [lookup].
    destruct (Nat.eqb_spec k j); [congruence|]. now rewrite lookup_del_other.
Qed.

Example init_within w : within (init_ex w).
Proof. unfold within. cbn. lia. Qed.
Example init_running_not_done w : running_not_done (init_ex w).
Proof. intros i H. discriminate. Qed.
(* a concrete run with a kill: two workers, three futures, the first worker is killed, the second finishes *)
Example ex_dead_detected :
  let e := fold_left (exstep StartUpToMax WaitAlwaysStarts) [XSubmit; XSubmit; XSubmit; XWait [EnvKill 0; EnvPut 1 true; EnvExit 1]] (init_ex 2) in
  obs_of e = {| xo_running := [2]; xo_pendq := []; xo_done := [(0, 2); (1, 1)] |}.
Proof. vm_compute. reflexivity. Qed.

(* ------------------------------------------------------------------ the executor's own invariant, for every call sequence *)
Definition ExInv (e : ex) : Prop :=
  (forall i, has (running e) i = true -> fut_of e i = FPending) /\
  (forall i, In i (pendq e) -> fut_of e i = FPending /\ has (running e) i = false) /\
  NoDup (pendq e) /\
  (forall i, In i (pendq e) \/ has (running e) i = true -> i < next e).

Lemma ExInv_running_not_done e : ExInv e -> running_not_done e.
Proof. intros (A & _) i Hi. now rewrite (A i Hi). Qed.

Lemma has_app {V} (a b : list (nat * V)) i : has (a ++ b) i = has a i || has b i.
Proof.
  unfold has. induction a as [|[k v] a IH]; cbn [app lookup]; [reflexivity|].
  destruct (Nat.eqb i k); [reflexivity|exact IH].
Qed.
Lemma has_map_alive l i : has (map (fun j => (j, {| p_alive := true |})) l) i = mem i l.
Proof.
  unfold has. induction l as [|a l IH]; cbn [map lookup mem existsb]; [reflexivity|].
  destruct (Nat.eqb i a); [reflexivity|exact IH].
Qed.
Lemma has_set_dead r j i : has (set_dead j r) i = has r i.
Proof.
  unfold has, set_dead. induction r as [|[k p] r IH]; cbn [map lookup fst]; [reflexivity|].
  destruct (Nat.eqb k j); cbn [lookup fst]; destruct (Nat.eqb i k); auto.
Qed.
Lemma has_del {V} (l : list (nat * V)) j i : has (del j l) i = negb (Nat.eqb i j) && has l i.
Proof. unfold has. rewrite lookup_del. destruct (Nat.eqb i j); cbn; [reflexivity|]. now destruct (lookup l i). Qed.

Lemma fut_of_set e e' i j f : futs e' = set_fut e j f -> fut_of e' i = if Nat.eqb i j then f else fut_of e i.
Proof.
  intros H. unfold fut_of. rewrite H. unfold set_fut. cbn [lookup]. destruct (Nat.eqb_spec i j) as [->|Hne]; [reflexivity|].
  now rewrite lookup_del_other.
Qed.

Lemma In_firstn_skipn_disjoint {A} (l : list A) n x : NoDup l -> In x (firstn n l) -> In x (skipn n l) -> False.
Proof.
  intros H H1 H2. rewrite <- (firstn_skipn n l) in H. apply NoDup_app_inv in H. destruct H as (_ & _ & H). exact (H x H1 H2).
Qed.

Lemma ExInv_start_processes sp e : ExInv e -> ExInv (start_processes sp e).
Proof.
  intros (A & B & C & D). unfold start_processes. set (n := start_count sp e).
  split; [|split; [|split]]; cbn [running pendq next].
  - intros i Hi. change (fut_of e i = FPending). rewrite has_app, has_map_alive in Hi. apply orb_true_iff in Hi.
    destruct Hi as [Hi|Hi]; [now apply A|]. apply mem_In in Hi. apply In_firstn_local in Hi. now apply B.
  - intros i Hi. split.
    + change (fut_of e i = FPending). apply B. eapply In_skipn_local; eauto.
    + rewrite has_app, has_map_alive. apply orb_false_iff. split.
      * apply B. eapply In_skipn_local; eauto.
      * apply mem_false. intro F. eapply In_firstn_skipn_disjoint; eauto.
  - rewrite <- (firstn_skipn n (pendq e)) in C. apply NoDup_app_inv in C. tauto.
  - intros i [Hi|Hi]; [apply D; left; eapply In_skipn_local; eauto|].
    rewrite has_app, has_map_alive in Hi. apply orb_true_iff in Hi. destruct Hi as [Hi|Hi]; [apply D; now right|].
    apply mem_In in Hi. apply D. left. eapply In_firstn_local; eauto.
Qed.

Lemma ExInv_submit sp e : ExInv e -> ExInv (submit sp e).
Proof.
  intros (A & B & C & D). unfold submit. apply ExInv_start_processes.
  split; [|split; [|split]]; cbn [running pendq next].
  - intros i Hi. unfold fut_of. cbn [futs lookup]. destruct (Nat.eqb_spec i (next e)) as [->|Hne]; [reflexivity|]. now apply A.
  - intros i Hi. apply in_app_or in Hi. destruct Hi as [Hi|[<-|[]]].
    + split; [|now apply B]. unfold fut_of. cbn [futs lookup].
      destruct (Nat.eqb_spec i (next e)) as [->|Hne]; [reflexivity|]. now apply B.
    + split; [unfold fut_of; cbn [futs lookup]; now rewrite Nat.eqb_refl|].
      destruct (has (running e) (next e)) eqn:E; [|reflexivity]. pose proof (D (next e) (or_intror E)). lia.
  - apply NoDup_app_intro; [exact C|constructor; [intros []|constructor]|]. intros x Hx [<-|[]].
    pose proof (D (next e) (or_introl Hx)). lia.
  - intros i [Hi|Hi]; [apply in_app_or in Hi; destruct Hi as [Hi|[<-|[]]]; [pose proof (D i (or_introl Hi)); lia|lia]|].
    pose proof (D i (or_intror Hi)). lia.
Qed.

Lemma ExInv_env e s : ExInv e -> ExInv (env e s).
Proof.
  intros (A & B & C & D).
  assert (Hf : forall j, fut_of (env e s) j = fut_of e j) by (intros j; destruct s; reflexivity).
  assert (Hh : forall j, has (running (env e s)) j = has (running e) j).
  { intros j. destruct s; cbn [env running]; [reflexivity|apply has_set_dead|apply has_set_dead]. }
  assert (Hp : pendq (env e s) = pendq e) by (destruct s; reflexivity).
  assert (Hn : next (env e s) = next e) by (destruct s; reflexivity).
  split; [|split; [|split]].
  - intros j Hj. rewrite Hf. apply A. now rewrite <- Hh.
  - intros j Hj. rewrite Hp in Hj. rewrite Hf, Hh. now apply B.
  - now rewrite Hp.
  - intros j Hj. rewrite Hn. apply D. rewrite Hp, Hh in Hj. exact Hj.
Qed.

Lemma ExInv_fold_env envs : forall e, ExInv e -> ExInv (fold_left env envs e).
Proof. induction envs as [|s envs IH]; intros e H; cbn [fold_left]; [exact H|]. apply IH. now apply ExInv_env. Qed.

Lemma ExInv_apply_result e i ok : ExInv e -> has (running e) i = true -> ExInv (apply_result e i ok).
Proof.
  intros (A & B & C & D) Hi. pose proof (A i Hi) as Hp.
  assert (Hf : forall j, fut_of (apply_result e i ok) j = if Nat.eqb j i then FFinished ok else fut_of e j).
  { intros j. apply fut_of_set. cbn [apply_result futs]. now rewrite Hp. }
  split; [|split; [|split]]; cbn [apply_result running pendq next].
  - intros j Hj. rewrite has_del in Hj. apply andb_true_iff in Hj. destruct Hj as [Hne Hj]. rewrite Hf.
    apply negb_true_iff in Hne. rewrite Hne. now apply A.
  - intros j Hj. destruct (B j Hj) as [B1 B2]. split.
    + rewrite Hf. destruct (Nat.eqb_spec j i) as [->|Hne]; [congruence|exact B1].
    + rewrite has_del, B2. apply andb_false_r.
  - exact C.
  - intros j [Hj|Hj]; [apply D; now left|]. rewrite has_del in Hj. apply andb_true_iff in Hj. apply D. right. tauto.
Qed.

Lemma ExInv_drain q : forall e, ExInv e -> ExInv (drain q e).
Proof.
  induction q as [|[i ok] q IH]; intros e H; cbn [drain].
  - destruct H as (A & B & C & D). split; [|split; [|split]]; assumption.
  - destruct (has (running e) i) eqn:E; [apply IH; now apply ExInv_apply_result|].
    destruct H as (A & B & C & D). split; [|split; [|split]]; assumption.
Qed.

Lemma ExInv_fail_dead e i : ExInv e -> ~ In i (pendq e) -> ExInv (fail_dead e i).
Proof.
  intros H Hnp. unfold fail_dead. destruct (done (fut_of e i)) eqn:Ed; [exact H|]. destruct H as (A & B & C & D).
  assert (Hf : forall j, fut_of {| maxw := maxw e; pendq := pendq e; running := del i (running e); rqueue := rqueue e;
                                   futs := set_fut e i (FFinished false); next := next e |} j
                         = if Nat.eqb j i then FFinished false else fut_of e j) by (intros j; now apply fut_of_set).
  split; [|split; [|split]]; cbn [running pendq next].
  - intros j Hj. rewrite has_del in Hj. apply andb_true_iff in Hj. destruct Hj as [Hne Hj]. rewrite Hf.
    apply negb_true_iff in Hne. rewrite Hne. now apply A.
  - intros j Hj. destruct (B j Hj) as [B1 B2]. split.
    + rewrite Hf. destruct (Nat.eqb_spec j i) as [->|Hne]; [contradiction|exact B1].
    + rewrite has_del, B2. apply andb_false_r.
  - exact C.
  - intros j [Hj|Hj]; [apply D; now left|]. rewrite has_del in Hj. apply andb_true_iff in Hj. apply D. right. tauto.
Qed.

Lemma drain_pendq q : forall e, pendq (drain q e) = pendq e.
Proof. intros e. now destruct (drain_fields q e) as (_ & B & _). Qed.

Lemma ExInv_fold_fail_dead l : forall e, ExInv e -> (forall i, In i l -> ~ In i (pendq e)) -> ExInv (fold_left fail_dead l e).
Proof.
  induction l as [|i l IH]; intros e H Hl; cbn [fold_left]; [exact H|]. apply IH.
  - apply ExInv_fail_dead; [exact H|apply Hl; now left].
  - intros j Hj. assert (Hp : pendq (fail_dead e i) = pendq e) by (unfold fail_dead; destruct (done (fut_of e i)); reflexivity).
    rewrite Hp. apply Hl. now right.
Qed.

Lemma dead_ids_running e i : In i (dead_ids e) -> has (running e) i = true.
Proof.
  unfold dead_ids. intros H. apply in_map_iff in H. destruct H as ([j p] & <- & Hp). apply filter_In in Hp. destruct Hp as [Hp _].
  cbn [fst]. unfold has. destruct (lookup (running e) j) eqn:E; [reflexivity|]. exfalso.
  revert E. clear -Hp. induction (running e) as [|[k q] r IH]; [destruct Hp|]. cbn [lookup]. destruct Hp as [Hp|Hp].
  - injection Hp as -> _. now rewrite Nat.eqb_refl.
  - destruct (Nat.eqb j k); [discriminate|]. now apply IH.
Qed.

Lemma ExInv_consume e : ExInv e -> ExInv (consume e).
Proof.
  intros H. unfold consume. apply ExInv_fold_fail_dead; [now apply ExInv_drain|].
  intros i Hi. rewrite drain_pendq. intro F. destruct H as (_ & B & _). destruct (B i F) as [_ Hb].
  rewrite (dead_ids_running e i Hi) in Hb. discriminate.
Qed.

Lemma fold_cancel_futs l : forall fs i, ~ In i l ->
  lookup (fold_left (fun fs j => (j, FCancelled) :: del j fs) l fs) i = lookup fs i.
Proof.
  induction l as [|j l IH]; intros fs i Hn; cbn [fold_left]; [reflexivity|].
  rewrite IH by (intro; apply Hn; now right). cbn [lookup].
  destruct (Nat.eqb_spec i j) as [->|Hne]; [exfalso; apply Hn; now left|]. now apply lookup_del_other.
Qed.

Lemma ExInv_cancel e : ExInv e -> ExInv (cancel e).
Proof.
  intros (A & B & C & D). unfold cancel. split; [|split; [|split]]; cbn [running pendq next].
  - intros i Hi. unfold fut_of. cbn [futs]. rewrite fold_cancel_futs; [now apply A|].
    intro F. destruct (B i F) as [_ Hb]. congruence.
  - intros i [].
  - constructor.
  - intros i [[]|Hi]. apply D. now right.
Qed.

Lemma lookup_none_not_in {V} (l : list (nat * V)) i : lookup l i = None -> ~ In i (map fst l).
Proof.
  induction l as [|[k v] l IH]; cbn [lookup map fst]; [intros _ []|]. destruct (Nat.eqb_spec i k) as [->|Hne]; [discriminate|].
  intros H [F|F]; [congruence|now apply IH].
Qed.

Lemma ExInv_stop e : ExInv e -> ExInv (stop e).
Proof.
  intros (A & B & C & D). unfold stop. split; [|split; [|split]]; cbn [running pendq next].
  - intros i Hi. discriminate.
  - intros i Hi. destruct (B i Hi) as [B1 B2]. split; [|reflexivity]. unfold fut_of. cbn [futs].
    assert (G : forall l fs, ~ In i (map fst l) ->
              lookup (fold_left (fun fs (ip : nat * proc) => (fst ip, FCancelled) :: del (fst ip) fs) l fs) i = lookup fs i).
    { induction l as [|[j p] l IHl]; intros fs Hn; cbn [fold_left]; [reflexivity|]. cbn [map fst] in Hn.
      rewrite IHl by (intro; apply Hn; now right). cbn [lookup fst].
      destruct (Nat.eqb_spec i j) as [->|Hne]; [exfalso; apply Hn; now left|]. now apply lookup_del_other. }
    rewrite G; [exact B1|]. apply lookup_none_not_in. unfold has in B2. destruct (lookup (running e) i); [discriminate|reflexivity].
  - exact C.
  - intros i [Hi|Hi]; [apply D; now left|discriminate].
Qed.

Theorem ExInv_exstep sp wp e o : ExInv e -> ExInv (exstep sp wp e o).
Proof.
  intros H. destruct o as [|envs| |]; cbn [exstep].
  - now apply ExInv_submit.
  - assert (Hc : ExInv (consume (fold_left env envs e))) by (apply ExInv_consume; now apply ExInv_fold_env).
    unfold wait. destruct wp; [now apply ExInv_start_processes| |exact Hc].
    destruct (rqueue (fold_left env envs e)); [exact Hc|now apply ExInv_start_processes].
  - now apply ExInv_cancel.
  - now apply ExInv_stop.
Qed.

Lemma ExInv_init w : ExInv (init_ex w).
Proof.
  split; [|split; [|split]]; cbn.
  - intros i H. discriminate.
  - intros i [].
  - constructor.
  - intros i [[]|H]. discriminate.
Qed.

Theorem ExInv_states sp wp ops : forall e, ExInv e -> forall e', In e' (states sp wp e ops) -> ExInv e'.
Proof.
  induction ops as [|o ops IH]; intros e H e' [<-|Hin]; try exact H; [destruct Hin|].
  apply (IH (exstep sp wp e o)); [now apply ExInv_exstep|exact Hin].
Qed.

(* hence, with no assumption left: at every point of every call sequence, a worker that is dead when a wait() begins is
   failed (or finished, if its result had been queued) and removed by that wait() *)
Theorem dead_detected_always sp wp ops w e i : In e (states sp wp (init_ex w) ops) -> In i (dead_ids e) ->
  done (fut_of (consume e) i) = true /\ has (running (consume e)) i = false.
Proof.
  intros He Hi. pose proof (ExInv_states sp wp ops (init_ex w) (ExInv_init w) e He) as HI.
  split; [now apply dead_worker_done|]. apply dead_worker_removed; [now apply ExInv_running_not_done|exact Hi].
Qed.

(* A wait() that starts queued futures only when a result was received leaves a slot idle after a worker death: with one
   worker slot, two submissions and the running worker killed, the second future stays queued with nothing running. *)
Theorem wait_if_received_refuted :
  exists e o, List.length (running e) <= maxw e /\
    match o with XWait _ => pendq (exstep StartUpToMax WaitStartsIfReceived e o) <> [] /\
                            List.length (running (exstep StartUpToMax WaitStartsIfReceived e o)) < maxw e | _ => False end.
Proof.
  exists (fold_left (exstep StartUpToMax WaitStartsIfReceived) [XSubmit; XSubmit] (init_ex 1)), (XWait [EnvKill 0]).
  vm_compute. split; [lia|]. split; [discriminate|lia].
Qed.
