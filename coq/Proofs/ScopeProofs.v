(* ScopeProofs.v — a forked worker always reads the runner's current results when the results dict is only mutated in place
   (false once the attribute is re-bound); every run obeys its own max_workers when each runner builds its own executor (false
   for a shared one). *)
Require Import LT.Model.Base LT.Model.Exec LT.Model.Scope LT.Proofs.BaseLemmas LT.Proofs.ExecProofs.

Lemma vstep_in_place s op : v_registered s = v_current s ->
  v_registered (vstep ViewInPlace s op) = v_current (vstep ViewInPlace s op).
Proof. intros H. destruct op; cbn; exact H. Qed.

Theorem view_in_place ops : forall s, v_registered s = v_current s ->
  Forall (fun p => fst p = snd p) (vrun ViewInPlace s ops).
Proof.
  induction ops as [|op ops IH]; intros s H; cbn [vrun]; [constructor|].
  destruct op as [t v|ts|].
  - apply IH. now apply vstep_in_place.
  - apply IH. now apply vstep_in_place.
  - constructor; [cbn [fst snd]; now rewrite H|now apply IH].
Qed.

Theorem view_rebinds_refuted : exists ops, ~ Forall (fun p => fst p = snd p) (vrun ViewRebinds v_init ops).
Proof.
  exists [VPut 1 7; VRemove [1]; VPut 2 8; VFork]. intros H. vm_compute in H.
  inversion H as [|x l Hx Hl]; subst. discriminate Hx.
Qed.

Lemma states_maxw sp wp (Hsp : sp = StartUpToMax) ops : forall e, within e -> forall e', In e' (states sp wp e ops) -> maxw e' = maxw e.
Proof.
  induction ops as [|o ops IH]; intros e H e' [<-|Hin]; try reflexivity; [destruct Hin|].
  destruct (exstep_within sp Hsp wp e o H) as [Hw Hm].
  rewrite (IH (exstep sp wp e o) Hw e' Hin). exact Hm.
Qed.

(* two runs in one interpreter: the states of the second run, whatever the first one did *)
Theorem second_run_worker_limit sp wp : sp = StartUpToMax -> forall ops1 w1 e1 w2 ops2 e,
  In e1 (states sp wp (init_ex w1) ops1) ->
  In e (states sp wp (second_run_start ExecPerRunner e1 w2) ops2) ->
  List.length (running e) <= w2 /\ maxw e = w2.
Proof.
  intros Hsp ops1 w1 e1 w2 ops2 e _ Hin. cbn [second_run_start] in Hin.
  pose proof (worker_limit sp Hsp wp ops2 (init_ex w2) (init_within w2) e Hin) as Hw.
  assert (Hm : maxw e = w2) by (exact (states_maxw sp wp Hsp ops2 (init_ex w2) (init_within w2) e Hin)).
  unfold within in Hw. split; [rewrite <- Hm; exact Hw|exact Hm].
Qed.

Theorem shared_executor_refuted : exists ops1 w1 e1 w2 ops2 e,
  In e1 (states StartUpToMax WaitAlwaysStarts (init_ex w1) ops1) /\
  In e (states StartUpToMax WaitAlwaysStarts (second_run_start ExecShared e1 w2) ops2) /\
  w2 < List.length (running e).
Proof.
  exists [], 3, (init_ex 3), 1, [XSubmit; XSubmit], (exstep StartUpToMax WaitAlwaysStarts (exstep StartUpToMax WaitAlwaysStarts (init_ex 3) XSubmit) XSubmit).
  split; [left; reflexivity|]. split; [cbn [second_run_start states]; right; right; left; reflexivity|].
  vm_compute. lia.
Qed.

Theorem second_run_rest_full sp wp : sp = StartUpToMax -> wp = WaitAlwaysStarts -> forall ops1 w1 e1 w2 ops2 e o,
  In e1 (states sp wp (init_ex w1) ops1) ->
  In e (states sp wp (second_run_start ExecPerRunner e1 w2) ops2) ->
  match o with
  | XSubmit | XWait _ => pendq (exstep sp wp e o) <> [] -> List.length (running (exstep sp wp e o)) = w2
  | _ => True
  end.
Proof.
  intros Hsp Hwp ops1 w1 e1 w2 ops2 e o _ Hin. cbn [second_run_start] in Hin.
  pose proof (worker_limit sp Hsp wp ops2 (init_ex w2) (init_within w2) e Hin) as Hw.
  pose proof (states_maxw sp wp Hsp ops2 (init_ex w2) (init_within w2) e Hin) as Hm. cbn [maxw init_ex] in Hm.
  destruct (exstep_within sp Hsp wp e o Hw) as [_ Hm'].
  pose proof (rest_full sp Hsp wp Hwp e o Hw) as Hf.
  destruct o; try exact I; unfold full in Hf; intros Hne; rewrite (Hf Hne); congruence.
Qed.

(* ---- the fork-memory registry: closing one runner never takes away the entry of another *)
Theorem registry_close_own ops : forall reg opened, (forall u, In u opened -> In u reg) ->
  forks_ok CloseOwn reg opened ops = true.
Proof.
  induction ops as [|o ops IH]; intros reg opened Inv; [reflexivity|].
  destruct o as [u|u|u]; cbn [forks_ok rstep].
  - apply IH. intros v [<-|Hv]; [left; reflexivity|].
    apply In_remove1 in Hv. destruct Hv as [Hv Hne]. right. apply In_remove1. split; [now apply Inv|exact Hne].
  - apply IH. intros v Hv. apply In_remove1 in Hv. destruct Hv as [Hv Hne]. apply In_remove1. split; [now apply Inv|exact Hne].
  - rewrite (IH reg opened Inv), andb_true_r.
    destruct (mem u opened) eqn:Ho; [|reflexivity]. cbn [negb orb].
    apply mem_In. apply Inv. now apply mem_In.
Qed.

Theorem registry_close_all_refuted : exists ops, forks_ok CloseAll [] [] ops = false.
Proof. exists [ROpen 1; ROpen 2; RClose 2; RFork 1]. reflexivity. Qed.
