(* LogQueue.v — the caller-side theorem needs the log queue to be synchronous: with it what the caller sees is the timeline of puts;
   with an asynchronous queue a record put before the result of the last finisher may arrive after the loop has exited. *)
Require Import LT.Model.Base LT.Model.Log LT.Proofs.BaseLemmas LT.Proofs.LogProofs.

Theorem sync_queue_exactly_once ca : ca = true -> forall late tasks tl, wf_tl tasks [] tl = true ->
  stopped (parent ca tasks (seen_timeline LogQueueSync late tl)) = true ->
  delivered (parent ca tasks (seen_timeline LogQueueSync late tl)) = puts tl.
Proof. intros -> late tasks tl. cbn [seen_timeline]. apply run_exactly_once. Qed.

Theorem async_queue_refuted : exists late tasks tl, wf_tl tasks [] tl = true /\
  stopped (parent true tasks (seen_timeline LogQueueAsync late tl)) = true /\
  delivered (parent true tasks (seen_timeline LogQueueAsync late tl)) <> puts tl.
Proof.
  exists (Some 0), [0], [EvWaitBegin; EvPut 0 (RLog 7); EvResult 0; EvWaitEnd].
  split; [reflexivity|]. split; [reflexivity|]. vm_compute. discriminate.
Qed.
