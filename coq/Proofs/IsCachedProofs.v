(* IsCachedProofs.v — Lab.is_cached is the cache class's answer about the store as it is now. *)
Require Import LT.Model.Base LT.Model.ParamTypes LT.Model.Lab.

Theorem is_cached_follows_cache c s b : lab_is_cached IsCachedAsksCache c s b = c.
Proof. reflexivity. Qed.
Theorem is_cached_storage_refuted : exists c s b, lab_is_cached IsCachedAsksStorage c s b <> c.
Proof. exists true, false, false. discriminate. Qed.
Theorem is_cached_memo_refuted : exists c s b, lab_is_cached IsCachedMemoises c s b <> c.
Proof. exists false, false, true. discriminate. Qed.
