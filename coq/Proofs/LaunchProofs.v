(* LaunchProofs.v — with the statement order of the repaired source no interrupt finds the future being launched outside both
   executor tables, nor a started worker the executor does not know; with the original order it does (defect D13). *)
Require Import LT.Model.Base LT.Model.Launch LT.Proofs.BaseLemmas.

Lemma mem_app_r (x : nat) l : mem x (l ++ [x]) = true.
Proof. unfold mem. rewrite existsb_app. cbn. rewrite Nat.eqb_refl. now rewrite orb_true_r. Qed.
Lemma mem_app_l (x : nat) l y : mem x l = true -> mem x (l ++ [y]) = true.
Proof. unfold mem. rewrite existsb_app. intros ->. reflexivity. Qed.

Theorem launch_tracked i t k : mem i (t_pending t) = true ->
  tracked i (interrupted_at RegisterThenRemove i t k) = true.
Proof.
  intros Hp. unfold interrupted_at, tracked. cbn [steps_of].
  destruct k as [|[|[|[|k]]]]; cbn [firstn]; rewrite ?firstn_nil; cbn [fold_left lexec t_pending t_running];
    rewrite ?Hp, ?mem_app_r, ?orb_true_r; reflexivity.
Qed.

Theorem launch_no_orphan i t k : mem i (t_started t) = false ->
  no_orphan i (interrupted_at RegisterThenRemove i t k) = true.
Proof.
  intros Hs. unfold interrupted_at, no_orphan. cbn [steps_of].
  destruct k as [|[|[|[|k]]]]; cbn [firstn]; rewrite ?firstn_nil; cbn [fold_left lexec t_started t_running]; rewrite ?Hs; try reflexivity;
    (* after start(): the future has been registered *)
    (destruct (mem i (t_started t ++ [i])); cbn [negb orb]; [apply mem_app_r|reflexivity]).
Qed.

(* the original order: after the removal, and until the registration, the future is in neither table *)
Theorem remove_first_refuted : exists i t k,
  mem i (t_pending t) = true /\ tracked i (interrupted_at RemoveThenRegister i t k) = false.
Proof. exists 0, {| t_pending := [0]; t_running := []; t_started := [] |}, 1. split; reflexivity. Qed.
