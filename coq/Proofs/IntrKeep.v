(* IntrKeep.v — C14, "tasks already executing are allowed to finish": a single interrupt never terminates a worker.
   stop() (the only place where workers are terminated) is reached only through a second KeyboardInterrupt. *)
Require Import LT.Model.Base LT.Model.Sched LT.Model.Intr LT.Proofs.BaseLemmas.

(* a computation that, started with no further interrupt scheduled, terminates no worker, schedules no interrupt, and — once
   no interrupt is pending — raises no KeyboardInterrupt *)
Definition calm {A} (m : M A) : Prop :=
  (forall w, terminated w = [] -> terminated (snd (m w)) = []) /\
  (forall w, second w = None -> second (snd (m w)) = None /\ (forall w', m w = (inr KI, w') -> budget w' = None)) /\
  (forall w, budget w = None -> second w = None -> budget (snd (m w)) = None /\ fst (m w) <> inr KI).
(* the same without the first clause (stop) *)
Definition calm' {A} (m : M A) : Prop :=
  (forall w, second w = None -> second (snd (m w)) = None /\ (forall w', m w = (inr KI, w') -> budget w' = None)) /\
  (forall w, budget w = None -> second w = None -> budget (snd (m w)) = None /\ fst (m w) <> inr KI).

Lemma calm_ret {A} (a : A) : calm (ret a).
Proof.
  split; [intros w H; exact H|]. split; intros w H.
  - split; [exact H|]. intros w' E. discriminate E.
  - intros Hs. split; [exact H|]. discriminate.
Qed.
Lemma calm_raise {A} e : e <> KI -> calm (@raise A e).
Proof.
  intros He. split; [intros w H; exact H|]. split; intros w H.
  - split; [exact H|]. intros w' E. unfold raise in E. congruence.
  - intros Hs. split; [exact H|]. unfold raise. cbn. congruence.
Qed.
Lemma calm_get : calm get.
Proof.
  split; [intros w H; exact H|]. split; intros w H.
  - split; [exact H|]. intros w' E. discriminate E.
  - intros Hs. split; [exact H|]. discriminate.
Qed.
Lemma calm_modify f : (forall w, terminated (f w) = terminated w /\ second (f w) = second w /\ budget (f w) = budget w) -> calm (modify f).
Proof.
  intros Hf. split; [intros w H; cbn; destruct (Hf w) as (A & _); congruence|]. split; intros w H.
  - split; [cbn; destruct (Hf w) as (_ & B & _); congruence|]. intros w' E. discriminate E.
  - intros Hs. split; [cbn; destruct (Hf w) as (_ & _ & C); congruence|]. discriminate.
Qed.
Lemma calm_tick : calm tick.
Proof.
  split; [intros w H; unfold tick; destruct (budget w) as [[|k]|]; exact H|]. split; intros w H.
  - unfold tick. destruct (budget w) as [[|k]|] eqn:E; cbn [snd second].
    + split; [reflexivity|]. intros w' [= <-]. cbn [budget]. exact H.
    + split; [exact H|]. intros w' E'. discriminate E'.
    + split; [exact H|]. intros w' E'. discriminate E'.
  - intros Hs. unfold tick. rewrite H. cbn. split; [reflexivity|discriminate].
Qed.
Lemma calm_bind {A B} (m : M A) (f : A -> M B) : calm m -> (forall a, calm (f a)) -> calm (bind m f).
Proof.
  intros (M1 & M2 & M3) Hf. unfold bind. split; [|split].
  - intros w H. specialize (M1 w H). destruct (m w) as [[a|e] w1]; [|exact M1]. cbn [snd] in M1. now apply (proj1 (Hf a)).
  - intros w H. destruct (M2 w H) as [S1 K1]. destruct (m w) as [[a|e] w1] eqn:Em.
    + cbn [snd] in S1. split; [exact (proj1 (proj1 (proj2 (Hf a)) w1 S1))|].
      intros w' E. exact (proj2 (proj1 (proj2 (Hf a)) w1 S1) w' E).
    + split; [exact S1|]. intros w' E. injection E as -> <-. now apply K1.
  - intros w Hb Hs. destruct (M3 w Hb Hs) as [B1 N1]. destruct (M2 w Hs) as [S1 _]. destruct (m w) as [[a|e] w1].
    + cbn [snd fst] in *. exact (proj2 (proj2 (Hf a)) w1 B1 S1).
    + split; [exact B1|]. cbn [fst] in *. intros F. injection F as ->. now apply N1.
Qed.
Lemma exn_ki_dec e : e = KI \/ e <> KI.
Proof. destruct e; [now left|right; discriminate|right; discriminate|right; discriminate]. Qed.

Lemma calm_try_catch {A} (m : M A) (h : exn -> M A) : calm m -> (forall e, e <> KI -> calm (h e)) ->
  (forall w, h KI w = (inr KI, w)) ->     (* a KeyboardInterrupt is passed on unchanged *)
  calm (try_catch m h).
Proof.
  intros (M1 & M2 & M3) Hh HK. unfold try_catch. split; [|split].
  - intros w H. specialize (M1 w H). destruct (m w) as [[a|e] w1]; [exact M1|]. cbn [snd] in M1.
    destruct (exn_ki_dec e) as [->|Hne]; [rewrite HK; exact M1|]. exact (proj1 (Hh e Hne) w1 M1).
  - intros w H. destruct (M2 w H) as [S1 K1]. destruct (m w) as [[a|e] w1].
    + split; [exact S1|]. intros w' E. discriminate E.
    + cbn [snd] in S1. destruct (exn_ki_dec e) as [->|Hne]; [|exact (proj1 (proj2 (Hh e Hne)) w1 S1)].
      rewrite HK. split; [exact S1|]. intros w' E. injection E as <-. now apply K1.
  - intros w Hb Hs. destruct (M3 w Hb Hs) as [B1 N1]. destruct (M2 w Hs) as [S1 _]. destruct (m w) as [[a|e] w1].
    + split; [exact B1|discriminate].
    + cbn [snd fst] in *. destruct (exn_ki_dec e) as [->|Hne]; [exfalso; now apply N1|]. exact (proj2 (proj2 (Hh e Hne)) w1 B1 S1).
Qed.
Lemma calm_for_each {A} (f : A -> M unit) l : (forall x, calm (f x)) -> calm (for_each l f).
Proof. intros H. induction l as [|x l IH]; cbn [for_each]; [apply calm_ret|]. apply calm_bind; [apply H|intros _; exact IH]. Qed.

Ltac calm_mod := apply calm_modify; intros ?w; repeat split; reflexivity.

Section Prog.
  Variable P : iparams.
  Variable c : cfg.

  Lemma calm_submit_one t : calm (submit_one c t).
  Proof.
    unfold submit_one. repeat (apply calm_bind; [try apply calm_tick; try calm_mod|intros ?u]); try apply calm_tick; calm_mod.
  Qed.

  Lemma fold_finish_keeps l : forall w, let w' := fold_left (finish_worker c) l w in
    terminated w' = terminated w /\ second w' = second w /\ budget w' = budget w.
  Proof. induction l as [|t l IH]; intros w; cbn [fold_left]; [auto|]. destruct (IH (finish_worker c w t)) as (A & B & C). cbn zeta in *. rewrite A, B, C. auto. Qed.

  Lemma calm_consume_one t r : calm (consume_one P c t r).
  Proof.
    unfold consume_one.
    apply calm_bind; [apply calm_modify; intros w; destruct r; [destruct (mem t (req c))|]; repeat split; reflexivity|intros ?u].
    apply calm_bind; [apply calm_tick|intros ?u]. apply calm_bind; [apply calm_get|intros w0].
    apply calm_bind; [destruct (mem t (active (ws w0))); [apply calm_ret|apply calm_raise; discriminate]|intros ?u].
    apply calm_bind; [calm_mod|intros ?u].
    apply calm_bind; [destruct r; [apply calm_ret|destruct (cont c); [apply calm_ret|apply calm_raise; discriminate]]|intros ?u].
    apply calm_bind; [apply calm_tick|intros ?u]. apply calm_bind; [calm_mod|intros ?u]. apply calm_tick.
  Qed.

  Lemma calm_next_batch : calm next_batch.
  Proof.
    split; [intros w H; unfold next_batch; destruct (oracle w); exact H|]. split; intros w H.
    - unfold next_batch. destruct (oracle w); (split; [exact H|intros w' E; discriminate E]).
    - intros Hs. unfold next_batch. destruct (oracle w); (split; [exact H|discriminate]).
  Qed.

  Lemma calm_wait : calm (wait_and_process P c).
  Proof.
    unfold wait_and_process. apply calm_bind; [apply calm_tick|intros ?u]. apply calm_bind; [apply calm_next_batch|intros ob].
    apply calm_bind; [destruct ob; [apply calm_ret|apply calm_raise; discriminate]|intros completing].
    apply calm_bind.
    { apply calm_modify. intros w. destruct (fold_finish_keeps completing w) as (A & B & C). cbn zeta in *. unfold restart.
      cbn [terminated second budget]. auto. }
    intros ?u. apply calm_bind; [apply calm_get|intros w0]. apply calm_bind.
    - apply calm_for_each. intros q. apply calm_bind; [destruct (ip_gen P); [calm_mod|apply calm_ret|apply calm_ret]|intros ?u].
      destruct (stat_of q); try apply calm_ret.
      apply calm_bind; [apply calm_tick|intros ?u]. apply calm_bind; [calm_mod|intros ?u]. apply calm_consume_one.
    - intros ?u. destruct (ip_gen P); try apply calm_ret. calm_mod.
  Qed.

  Lemma calm_main_loop fuel : calm (main_loop P c fuel).
  Proof.
    induction fuel as [|f IH]; cbn [main_loop]; [apply calm_ret|]. apply calm_bind; [apply calm_get|intros w].
    destruct (negb (loop_cond w)); [apply calm_ret|].
    apply calm_bind; [apply calm_for_each; intros t; apply calm_submit_one|intros ?u]. apply calm_bind; [apply calm_wait|intros ?u]. exact IH.
  Qed.

  Lemma calm_cancel : calm do_cancel.
  Proof. unfold do_cancel. apply calm_bind; [apply calm_tick|intros ?u]. calm_mod. Qed.

  Lemma calm_drain fuel : calm (drain_loop P c fuel).
  Proof.
    induction fuel as [|f IH]; cbn [drain_loop]; [apply calm_ret|]. apply calm_bind; [apply calm_get|intros w].
    destruct (negb (existsb registered (f2t w))); [apply calm_ret|]. apply calm_bind; [|intros ?u; exact IH].
    apply calm_try_catch; [apply calm_wait| |reflexivity].
    intros e He. destruct e; try (apply calm_raise; assumption); try contradiction.
    destruct (ip_drain_swallows P); [apply calm_ret|apply calm_raise; discriminate].
  Qed.
End Prog.

(* With a single interrupt (no second one scheduled) no worker is ever terminated: stop() is out of reach. *)
Theorem single_interrupt_terminates_no_worker P c maxw o k1 :
  terminated (snd (run_intr P c maxw o k1 None)) = [].
Proof.
  unfold run_intr, irun. set (fuel := S (S (List.length o))). set (w0 := init_world c maxw o k1 None).
  set (body := ok <- main_loop P c fuel;; (w <- get;; ret (if ok then final_of P c w else IOutOfOracle))).
  assert (Hbody : calm body).
  { unfold body. apply calm_bind; [apply calm_main_loop|intros ok]. apply calm_bind; [apply calm_get|intros w]. apply calm_ret. }
  destruct Hbody as (B1 & B2 & B3).
  assert (T0 : terminated w0 = []) by reflexivity. assert (S0 : second w0 = None) by reflexivity.
  specialize (B1 w0 T0). destruct (B2 w0 S0) as [S1 K1].
  unfold try_catch at 1. fold body. destruct (body w0) as [[out|e] w1] eqn:Eb; cbn [snd] in *; [exact B1|].
  destruct e; cbn [ret snd]; try exact B1.
  (* first interrupt: cancel and drain *)
  pose proof (K1 w1 eq_refl) as Hb1.
  unfold on_interrupt.
  set (h1 := do_cancel;;; (ok <- drain_loop P c fuel;; ret (if ok then IRaised KI else IOutOfOracle))).
  assert (Hh1 : calm h1).
  { unfold h1. apply calm_bind; [apply calm_cancel|intros ?u]. apply calm_bind; [apply calm_drain|intros ok]. apply calm_ret. }
  destruct Hh1 as (H1 & H2 & H3). specialize (H1 w1 B1). destruct (H3 w1 Hb1 S1) as [_ Hnk].
  unfold try_catch at 1. fold h1. destruct (h1 w1) as [[out|e2] w2]; cbn [snd fst] in *.
  - exact H1.
  - destruct e2; try (exfalso; now apply Hnk); cbn [ret snd]; exact H1.
Qed.
