(* DiagramProofs.v — the task diagram contains exactly the reachable types and relationships (C20). *)
Require Import LT.Model.Values LT.Model.Diagram LT.Proofs.ValuesProofs.
From Coq Require Import Lia.

(* ------------------------------------------------------------------ reachability and the work list *)
Inductive ReachD (roots : list value) : value -> Prop :=
| RD_root t : In t roots -> ReachD roots t
| RD_step t t' : ReachD roots t -> In t' (dep_instances t) -> ReachD roots t'.

Lemma total_size_app a b : total_size (a ++ b) = total_size a + total_size b.
Proof. unfold total_size. induction a as [|x a IH]; cbn [app fold_right]; [reflexivity|]. rewrite IH. lia. Qed.

Lemma vsize_pos v : 0 < vsize v.
Proof. destruct v; cbn [vsize]; lia. Qed.

Lemma find_tasks_size v : total_size (find_tasks v) <= vsize v.
Proof.
  induction v as [s|l IH|kvs IH|c fs IH] using value_ind'; cbn [find_tasks vsize].
  - cbn. lia.
  - induction IH as [|x l Hx Hl IHl]; cbn [flat_map fold_right]; [cbn; lia|].
    rewrite total_size_app. cbn [vsize fold_right] in *. lia.
  - induction IH as [|[k x] l Hx Hl IHl]; cbn [flat_map fold_right]; [cbn; lia|].
    rewrite total_size_app. cbn [snd] in *. lia.
  - cbn [total_size fold_right vsize]. lia.
Qed.

Lemma dep_instances_size t : total_size (dep_instances t) < vsize t.
Proof.
  destruct t as [s|l|kvs|c fs]; cbn [dep_instances task_fields flat_map vsize]; try (cbn; lia).
  assert (H : total_size (flat_map (fun kv : str * value => find_tasks (snd kv)) fs)
              <= fold_right (fun kv acc => vsize (snd kv) + acc) 0 fs).
  { induction fs as [|[k x] fs IH]; cbn [flat_map fold_right]; [cbn; lia|].
    rewrite total_size_app. pose proof (find_tasks_size x). cbn [snd]. lia. }
  lia.
Qed.

Lemma ReachD_mono (q q' : list value) x : (forall t, In t q -> ReachD q' t) -> ReachD q x -> ReachD q' x.
Proof. intros H R. induction R as [t Ht|t t' R IH Hd]; [now apply H|]. eapply RD_step; eauto. Qed.

Theorem trav_spec f : forall q, total_size q <= f -> forall x, In x (trav f q) <-> ReachD q x.
Proof.
  induction f as [|f IH]; intros q Hs x.
  - destruct q as [|t q].
    + cbn [trav]. split; [intros []|]. intros R. induction R as [t []|t t' R IHR Hd]; contradiction.
    + exfalso. cbn [total_size fold_right] in Hs. pose proof (vsize_pos t). lia.
  - destruct q as [|t q]; cbn [trav].
    + split; [intros []|]. intros R. induction R as [t []|t t' R IHR Hd]; contradiction.
    + assert (Hs' : total_size (q ++ dep_instances t) <= f).
      { rewrite total_size_app. pose proof (dep_instances_size t). cbn [total_size fold_right] in Hs. fold (total_size q) in Hs. lia. }
      cbn [In]. rewrite (IH _ Hs' x). split.
      * intros [<-|R]; [constructor; now left|].
        eapply ReachD_mono; [|exact R]. intros u Hu. apply in_app_or in Hu. destruct Hu as [Hu|Hu].
        -- constructor. now right.
        -- eapply RD_step; [constructor; now left|exact Hu].
      * intros R. induction R as [u Hu|u u' R IHR Hd].
        -- destruct Hu as [<-|Hu]; [now left|]. right. constructor. apply in_or_app. now left.
        -- destruct IHR as [<-|IHR].
           ++ right. constructor. apply in_or_app. now right.
           ++ right. eapply RD_step; eauto.
Qed.

(* ------------------------------------------------------------------ association-list facts *)
Lemma relkey_eqb_eq a b : relkey_eqb a b = true <-> a = b.
Proof.
  destruct a as [a1 a2], b as [b1 b2]. unfold relkey_eqb. cbn [fst snd]. rewrite andb_true_iff, !str_eqb_eq.
  split; [intros [-> ->]; reflexivity|intros [= -> ->]; auto].
Qed.
Lemma relkey_eqb_refl a : relkey_eqb a a = true.
Proof. now apply relkey_eqb_eq. Qed.

Fixpoint rlookup (r : rels) (k : relkey) : option bool :=
  match r with
  | [] => None
  | (k', m) :: r' => if relkey_eqb k k' then Some m else rlookup r' k
  end.

Lemma rlookup_add_rel r k m k' :
  rlookup (add_rel r k m) k' =
  if relkey_eqb k' k then Some (match rlookup r k with Some m0 => m0 || m | None => m end) else rlookup r k'.
Proof.
  induction r as [|[k0 m0] r IH]; cbn [add_rel].
  - cbn [rlookup]. destruct (relkey_eqb k' k); reflexivity.
  - destruct (relkey_eqb k k0) eqn:E.
    + apply relkey_eqb_eq in E. subst k0. cbn [rlookup]. rewrite relkey_eqb_refl.
      destruct (relkey_eqb k' k); reflexivity.
    + cbn [rlookup]. rewrite IH, E. destruct (relkey_eqb k' k0) eqn:E0; [|reflexivity].
      apply relkey_eqb_eq in E0. subst k0. destruct (relkey_eqb k' k) eqn:E1; [|reflexivity].
      apply relkey_eqb_eq in E1. subst k'. rewrite relkey_eqb_refl in E. discriminate.
Qed.

Lemma add_rel_keys r k m : forall x, In x (map fst (add_rel r k m)) <-> In x (map fst r) \/ x = k.
Proof.
  induction r as [|[k0 m0] r IH]; intros x; cbn [add_rel map fst In].
  - intuition.
  - destruct (relkey_eqb k k0) eqn:E; cbn [map fst In].
    + apply relkey_eqb_eq in E. subst. intuition.
    + rewrite IH. intuition.
Qed.

Lemma add_rel_NoDup r k m : NoDup (map fst r) -> NoDup (map fst (add_rel r k m)).
Proof.
  induction r as [|[k0 m0] r IH]; intros H; cbn [add_rel map fst].
  - constructor; [intros []|constructor].
  - inversion H as [|? ? Hn Hd]; subst. destruct (relkey_eqb k k0) eqn:E; cbn [map fst].
    + constructor; assumption.
    + constructor; [|now apply IH]. rewrite add_rel_keys. intros [F|F]; [contradiction|].
      subst. rewrite relkey_eqb_refl in E. discriminate.
Qed.

Lemma tlookup_add_type ts A B :
  alookup (add_type ts A) B = if str_eqb B A then Some (match alookup ts A with Some r => r | None => [] end) else alookup ts B.
Proof.
  induction ts as [|[T r] ts IH]; cbn [add_type alookup].
  - destruct (str_eqb B A); reflexivity.
  - destruct (str_eqb A T) eqn:E.
    + apply str_eqb_eq in E. subst T. cbn [alookup]. destruct (str_eqb B A); reflexivity.
    + cbn [alookup]. rewrite IH. destruct (str_eqb B T) eqn:E0; [|reflexivity].
      apply str_eqb_eq in E0. subst T. destruct (str_eqb B A) eqn:E1; [|reflexivity].
      apply str_eqb_eq in E1. subst. rewrite str_eqb_refl in E. discriminate.
Qed.

Lemma tlookup_upd_type ts A f B :
  alookup (upd_type ts A f) B = if str_eqb B A then option_map f (alookup ts A) else alookup ts B.
Proof.
  induction ts as [|[T r] ts IH]; cbn [upd_type alookup].
  - destruct (str_eqb B A); reflexivity.
  - destruct (str_eqb A T) eqn:E.
    + apply str_eqb_eq in E. subst T. cbn [alookup]. destruct (str_eqb B A); reflexivity.
    + cbn [alookup]. rewrite IH. destruct (str_eqb B T) eqn:E0; [|reflexivity].
      apply str_eqb_eq in E0. subst T. destruct (str_eqb B A) eqn:E1; [|reflexivity].
      apply str_eqb_eq in E1. subst. rewrite str_eqb_refl in E. discriminate.
Qed.

Lemma add_type_keys ts A : forall x, In x (map fst (add_type ts A)) <-> In x (map fst ts) \/ x = A.
Proof.
  induction ts as [|[T r] ts IH]; intros x; cbn [add_type map fst In]; [intuition|].
  destruct (str_eqb A T) eqn:E; cbn [map fst In].
  - apply str_eqb_eq in E. subst. intuition.
  - rewrite IH. intuition.
Qed.
Lemma add_type_NoDup ts A : NoDup (map fst ts) -> NoDup (map fst (add_type ts A)).
Proof.
  induction ts as [|[T r] ts IH]; intros H; cbn [add_type map fst].
  - constructor; [intros []|constructor].
  - inversion H as [|? ? Hn Hd]; subst. destruct (str_eqb A T) eqn:E; cbn [map fst]; [exact H|].
    constructor; [|now apply IH]. rewrite add_type_keys. intros [F|F]; [contradiction|].
    subst. rewrite str_eqb_refl in E. discriminate.
Qed.
Lemma upd_type_keys ts A f : map fst (upd_type ts A f) = map fst ts.
Proof.
  induction ts as [|[T r] ts IH]; cbn [upd_type map fst]; [reflexivity|].
  destruct (str_eqb A T); cbn [map fst]; [reflexivity|]. now rewrite IH.
Qed.

(* ------------------------------------------------------------------ semantics of the structure *)
Definition sem (ts : tstruct) (A : str) (k : relkey) : option bool :=
  match alookup ts A with Some r => rlookup r k | None => None end.
Definition well (ts : tstruct) : Prop :=
  NoDup (map fst ts) /\ forall A r, alookup ts A = Some r -> NoDup (map fst r).

Definition step_rel (T : str) (acc : tstruct) (kr : relkey * bool) : tstruct :=
  upd_type acc T (fun r => add_rel r (fst kr) (snd kr)).

Lemma step_rel_spec T acc kr A k : alookup acc T <> None ->
  sem (step_rel T acc kr) A k =
  if str_eqb A T && relkey_eqb k (fst kr)
  then Some (match sem acc T (fst kr) with Some m0 => m0 || snd kr | None => snd kr end)
  else sem acc A k.
Proof.
  intros Hd. unfold sem, step_rel. rewrite tlookup_upd_type.
  destruct (str_eqb A T) eqn:E; cbn [andb]; [|reflexivity].
  apply str_eqb_eq in E. subst A. destruct (alookup acc T) as [r|]; [|congruence]. cbn [option_map].
  rewrite rlookup_add_rel. destruct (relkey_eqb k (fst kr)); reflexivity.
Qed.

Lemma step_rel_dom T acc kr A : (alookup (step_rel T acc kr) A <> None) <-> (alookup acc A <> None).
Proof.
  unfold step_rel. rewrite tlookup_upd_type. destruct (str_eqb A T) eqn:E; [|tauto].
  apply str_eqb_eq in E. subst. destruct (alookup acc T); cbn [option_map]; split; congruence.
Qed.

Lemma step_rel_well T acc kr : well acc -> well (step_rel T acc kr).
Proof.
  intros [W1 W2]. split.
  - unfold step_rel. now rewrite upd_type_keys.
  - intros A r. unfold step_rel. rewrite tlookup_upd_type. destruct (str_eqb A T) eqn:E.
    + apply str_eqb_eq in E. subst. destruct (alookup acc T) as [r0|] eqn:E0; cbn [option_map]; [|discriminate].
      intros [= <-]. apply add_rel_NoDup. eapply W2; eauto.
    + apply W2.
Qed.

(* presence and flag after folding the relationships of one task *)
Lemma fold_rel_spec T l : forall acc, alookup acc T <> None -> forall A k,
  (sem (fold_left (step_rel T) l acc) A k <> None <->
   sem acc A k <> None \/ (A = T /\ exists m, In (k, m) l)) /\
  (sem (fold_left (step_rel T) l acc) A k = Some true <->
   sem acc A k = Some true \/ (A = T /\ In (k, true) l)).
Proof.
  induction l as [|[k0 m0] l IH]; intros acc Hd A k; cbn [fold_left].
  - split; split; try tauto; intros [H|[_ H]]; try assumption; [destruct H as [m []]|destruct H].
  - assert (Hd' : alookup (step_rel T acc (k0, m0)) T <> None) by now apply step_rel_dom.
    destruct (IH _ Hd' A k) as [P1 P2]. rewrite P1, P2. rewrite !step_rel_spec by exact Hd. cbn [fst snd].
    destruct (str_eqb A T) eqn:E; cbn [andb].
    + apply str_eqb_eq in E. subst A. destruct (relkey_eqb k k0) eqn:Ek.
      * apply relkey_eqb_eq in Ek. subst k0. split.
        -- split; [intros _; right; split; [reflexivity|exists m0; now left]|intros _; left; discriminate].
        -- split.
           ++ intros [H|[_ H]]; [|right; split; [reflexivity|now right]].
              destruct (sem acc T k) as [[|]|]; cbn [orb] in H; [now left| |].
              ** injection H as ->. right. split; [reflexivity|now left].
              ** injection H as ->. right. split; [reflexivity|now left].
           ++ intros [H|[_ [H|H]]].
              ** left. rewrite H. reflexivity.
              ** injection H as ->. left. destruct (sem acc T k) as [[|]|]; reflexivity.
              ** right. split; [reflexivity|exact H].
      * assert (Hne : forall m, (k0, m0) <> (k, m)).
        { intros m [= -> _]. rewrite relkey_eqb_refl in Ek. discriminate. }
        split.
        -- split; [intros [H|[_ [m H]]]; [now left|right; split; [reflexivity|exists m; now right]]
                  |intros [H|[_ [m [H|H]]]]; [now left|exfalso; eapply Hne; eauto|right; split; [reflexivity|eauto]]].
        -- split; [intros [H|[_ H]]; [now left|right; split; [reflexivity|now right]]
                  |intros [H|[_ [H|H]]]; [now left|exfalso; eapply Hne; eauto|right; split; [reflexivity|exact H]]].
    + assert (Hne : A <> T) by (intros ->; rewrite str_eqb_refl in E; discriminate).
      split; split; intros [H|[F _]]; try (now left); contradiction.
Qed.

Lemma fold_rel_dom T l : forall acc A, alookup (fold_left (step_rel T) l acc) A <> None <-> alookup acc A <> None.
Proof.
  induction l as [|kr l IH]; intros acc A; cbn [fold_left]; [tauto|]. rewrite IH. apply step_rel_dom.
Qed.
Lemma fold_rel_well T l : forall acc, well acc -> well (fold_left (step_rel T) l acc).
Proof. induction l as [|kr l IH]; intros acc W; cbn [fold_left]; [exact W|]. apply IH. now apply step_rel_well. Qed.

Lemma add_type_dom ts A B : alookup (add_type ts A) B <> None <-> alookup ts B <> None \/ B = A.
Proof.
  rewrite tlookup_add_type. destruct (str_eqb B A) eqn:E.
  - apply str_eqb_eq in E. subst. split; [intros _; now right|intros _; discriminate].
  - assert (B <> A) by (intros ->; rewrite str_eqb_refl in E; discriminate). tauto.
Qed.
Lemma add_type_sem ts A B k : sem (add_type ts A) B k = sem ts B k.
Proof.
  unfold sem. rewrite tlookup_add_type. destruct (str_eqb B A) eqn:E; [|reflexivity].
  apply str_eqb_eq in E. subst. destruct (alookup ts A); reflexivity.
Qed.
Lemma add_type_well ts A : well ts -> well (add_type ts A).
Proof.
  intros [W1 W2]. split; [now apply add_type_NoDup|]. intros B r. rewrite tlookup_add_type.
  destruct (str_eqb B A) eqn:E; [|apply W2]. apply str_eqb_eq in E. subst.
  destruct (alookup ts A) as [r0|] eqn:E0; intros [= <-]; [eapply W2; eauto|constructor].
Qed.

Lemma add_task_unfold ts t : add_task ts t = fold_left (step_rel (task_type t)) (task_rels t) (add_type ts (task_type t)).
Proof. reflexivity. Qed.

(* ------------------------------------------------------------------ the structure built from a list of tasks *)
Theorem fold_tasks_spec l : forall ts, well ts ->
  well (fold_left add_task l ts) /\
  (forall A, alookup (fold_left add_task l ts) A <> None <-> alookup ts A <> None \/ exists t, In t l /\ task_type t = A) /\
  (forall A k, sem (fold_left add_task l ts) A k <> None <->
               sem ts A k <> None \/ exists t, In t l /\ task_type t = A /\ exists m, In (k, m) (task_rels t)) /\
  (forall A k, sem (fold_left add_task l ts) A k = Some true <->
               sem ts A k = Some true \/ exists t, In t l /\ task_type t = A /\ In (k, true) (task_rels t)).
Proof.
  induction l as [|t l IH]; intros ts W; cbn [fold_left].
  - split; [exact W|]. split; [|split]; intros; split; try tauto; intros [H|(t & [] & _)]; exact H.
  - assert (Hd : alookup (add_type ts (task_type t)) (task_type t) <> None) by (apply add_type_dom; now right).
    assert (W' : well (add_task ts t)).
    { rewrite add_task_unfold. apply fold_rel_well. now apply add_type_well. }
    destruct (IH _ W') as (R0 & R1 & R2 & R3). split; [exact R0|]. split; [|split].
    + intros A. rewrite R1, add_task_unfold, fold_rel_dom, add_type_dom. split.
      * intros [[H|H]|(u & Hu & E)]; [now left|right; exists t; split; [now left|now symmetry]|right; exists u; split; [now right|exact E]].
      * intros [H|(u & [<-|Hu] & E)]; [left; now left|left; right; now symmetry|right; eauto].
    + intros A k. rewrite R2, add_task_unfold.
      destruct (fold_rel_spec (task_type t) (task_rels t) _ Hd A k) as [P1 _]. rewrite P1, add_type_sem. split.
      * intros [[H|[-> H]]|(u & Hu & E & H)]; [now left|right; exists t; split; [now left|split; [reflexivity|exact H]]
                                              |right; exists u; split; [now right|split; assumption]].
      * intros [H|(u & [<-|Hu] & E & H)]; [left; now left|left; right; split; [now symmetry|exact H]|right; exists u; auto].
    + intros A k. rewrite R3, add_task_unfold.
      destruct (fold_rel_spec (task_type t) (task_rels t) _ Hd A k) as [_ P2]. rewrite P2, add_type_sem. split.
      * intros [[H|[-> H]]|(u & Hu & E & H)]; [now left|right; exists t; split; [now left|split; [reflexivity|exact H]]
                                              |right; exists u; split; [now right|split; assumption]].
      * intros [H|(u & [<-|Hu] & E & H)]; [left; now left|left; right; split; [now symmetry|exact H]|right; exists u; auto].
Qed.

Lemma well_nil : well [].
Proof. split; [constructor|]. intros A r H. discriminate. Qed.

(* what one task contributes, in terms of its parameters *)
Lemma task_rels_spec t p B m :
  In ((p, B), m) (task_rels t) <->
  exists v sub, In (p, v) (task_fields t) /\ In sub (find_tasks v) /\ task_type sub = B /\ m = negb (is_task_value v).
Proof.
  unfold task_rels. rewrite in_flat_map. split.
  - intros ([p' v] & Hf & Hin). apply in_map_iff in Hin. destruct Hin as (sub & E & Hs). cbn [fst snd] in *.
    injection E as <- <- <-. exists v, sub. auto.
  - intros (v & sub & Hf & Hs & <- & ->). exists (p, v). split; [exact Hf|]. apply in_map_iff. exists sub. auto.
Qed.

Section Build.
  Variable tasks : list value.
  Let result := build tasks.

  (* C20: one class block per reachable task type, each exactly once *)
  Theorem build_types : NoDup (map fst result) /\
    forall A, In A (map fst result) <-> exists t, ReachD tasks t /\ task_type t = A.
  Proof.
    unfold result, build. destruct (fold_tasks_spec (trav (total_size tasks) tasks) [] well_nil) as ([W1 W2] & R1 & _).
    split; [exact W1|]. intros A.
    assert (Hk : In A (map fst (fold_left add_task (trav (total_size tasks) tasks) [])) <->
                 alookup (fold_left add_task (trav (total_size tasks) tasks) []) A <> None).
    { generalize (fold_left add_task (trav (total_size tasks) tasks) []). intros ts.
      induction ts as [|[T r] ts IHt]; cbn [map fst In alookup]; [split; [intros []|congruence]|].
      destruct (str_eqb A T) eqn:E.
      - apply str_eqb_eq in E. subst. split; [discriminate|now left].
      - assert (T <> A) by (intros ->; rewrite str_eqb_refl in E; discriminate). rewrite <- IHt. tauto. }
    rewrite Hk, R1. cbn [alookup]. split.
    - intros [F|(t & Ht & E)]; [congruence|]. exists t. split; [|exact E]. now apply (trav_spec _ tasks (le_n _)).
    - intros (t & Ht & E). right. exists t. split; [|exact E]. now apply (trav_spec _ tasks (le_n _)).
  Qed.

  (* C20: one arrow per (dependent type, parameter, dependency type) that occurs, each exactly once;
     marked "many" exactly when in some such task the parameter is not itself a task *)
  Theorem build_arrows A p B :
    (sem result A (p, B) <> None <->
     exists t v sub, ReachD tasks t /\ task_type t = A /\ In (p, v) (task_fields t) /\ In sub (find_tasks v) /\ task_type sub = B) /\
    (sem result A (p, B) = Some true <->
     exists t v sub, ReachD tasks t /\ task_type t = A /\ In (p, v) (task_fields t) /\ In sub (find_tasks v) /\ task_type sub = B
                     /\ is_task_value v = false) /\
    (forall r, alookup result A = Some r -> NoDup (map fst r)).
  Proof.
    unfold result, build. destruct (fold_tasks_spec (trav (total_size tasks) tasks) [] well_nil) as ([W1 W2] & _ & R2 & R3).
    split; [|split; [|apply W2]].
    - rewrite R2. unfold sem at 1. cbn [alookup]. split.
      + intros [F|(t & Ht & E & m & Hm)]; [congruence|]. apply task_rels_spec in Hm. destruct Hm as (v & sub & H1 & H2 & H3 & _).
        exists t, v, sub. split; [now apply (trav_spec _ tasks (le_n _))|auto].
      + intros (t & v & sub & Ht & E & H1 & H2 & H3). right. exists t. split; [now apply (trav_spec _ tasks (le_n _))|].
        split; [exact E|]. exists (negb (is_task_value v)). apply task_rels_spec. exists v, sub. auto.
    - rewrite R3. unfold sem at 1. cbn [alookup]. split.
      + intros [F|(t & Ht & E & Hm)]; [congruence|]. apply task_rels_spec in Hm. destruct Hm as (v & sub & H1 & H2 & H3 & H4).
        exists t, v, sub. split; [now apply (trav_spec _ tasks (le_n _))|]. repeat split; auto.
        destruct (is_task_value v); [discriminate|reflexivity].
      + intros (t & v & sub & Ht & E & H1 & H2 & H3 & H4). right. exists t. split; [now apply (trav_spec _ tasks (le_n _))|].
        split; [exact E|]. apply task_rels_spec. exists v, sub. rewrite H4. auto.
  Qed.
End Build.
