(* SchedLimits.v — per-type limits (C04), greedy submission (C05), progress and termination (C11). *)
Require Import LT.Model.Base LT.Model.Sched LT.Proofs.BaseLemmas LT.Proofs.PlanProofs LT.Proofs.SchedInv
  LT.Proofs.SchedThms.

Lemma count_ty_app c y l1 l2 : count_ty c y (l1 ++ l2) = count_ty c y l1 + count_ty c y l2.
Proof. unfold count_ty. rewrite filter_app, app_length. reflexivity. Qed.

Lemma count_ty_remove1_le c y x l : count_ty c y (remove1 x l) <= count_ty c y l.
Proof.
  unfold count_ty, remove1. induction l as [|a l IH]; cbn [filter]; [lia|].
  destruct (negb (x =? a)); cbn [filter]; destruct (ty_of c a =? y); cbn [length]; lia.
Qed.

Lemma count_ty_single c y t : count_ty c y [t] = if ty_of c t =? y then 1 else 0.
Proof. unfold count_ty. cbn [filter]. destruct (ty_of c t =? y); reflexivity. Qed.

Lemma count_ty_firstn_le c y k l : count_ty c y (firstn k l) <= count_ty c y l.
Proof. rewrite <- (firstn_skipn k l) at 2. rewrite count_ty_app. lia. Qed.

(* At most max_parallel tasks of a type are in flight. *)
Definition TypeInv (c : cfg) (l : list nat) : Prop :=
  forall y m, maxpar_of c y = Some m -> count_ty c y l <= m.

Section Limits.
  Variable p : params.
  Variable c : cfg.
  Hypothesis Hcmp : p_cmp p = CmpGe.

  Lemma ready_loop_inv s l : forall chosen,
    TypeInv c (active s ++ chosen) -> TypeInv c (active s ++ ready_loop p c s chosen l).
  Proof.
    induction l as [|t l IH]; intros chosen H; cbn [ready_loop]; [exact H|].
    destruct (p_dep_guard p && negb (deps_done c s t)); [apply IH; exact H|].
    destruct (maxpar_of c (ty_of c t)) as [m|] eqn:Em.
    - unfold over_limit. rewrite Hcmp.
      destruct (Nat.leb_spec m (count_ty c (ty_of c t) (active s ++ chosen))) as [Hle|Hlt].
      + apply IH; exact H.
      + apply IH. intros y m' Hy. rewrite app_assoc, count_ty_app, count_ty_single.
        destruct (Nat.eqb_spec (ty_of c t) y) as [Heq|Hne].
        * rewrite <- Heq in *. rewrite Em in Hy. injection Hy as <-. lia.
        * specialize (H y m' Hy). lia.
    - apply IH. intros y m' Hy. rewrite app_assoc, count_ty_app, count_ty_single.
      destruct (Nat.eqb_spec (ty_of c t) y) as [Heq|Hne].
      + rewrite <- Heq in Hy. congruence.
      + specialize (H y m' Hy). lia.
  Qed.

  Lemma TypeInv_submit_prefix s k : TypeInv c (active s) ->
    TypeInv c (active (fold_left (start c) (firstn k (get_ready p c s)) s)).
  Proof.
    intros H y m Hy. destruct (fold_start_fields c (firstn k (get_ready p c s)) s) as (_ & _ & _ & _ & _ & _ & E).
    rewrite E, count_ty_app.
    assert (Hfull : TypeInv c (active s ++ get_ready p c s)).
    { unfold get_ready. apply ready_loop_inv. now rewrite app_nil_r. }
    specialize (Hfull y m Hy). rewrite count_ty_app in Hfull.
    pose proof (count_ty_firstn_le c y k (get_ready p c s)). lia.
  Qed.

  Lemma complete_active s t order : forall s',
    (complete p c s t order = SOk s' \/ exists u, complete p c s t order = SRaise u s') ->
    active s' = remove1 t (active s).
  Proof.
    intros s' H. unfold complete in H. destruct (negb (mem t (active s))).
    - destruct H as [H|[u H]]; discriminate.
    - destruct (exec c s t).
      + destruct H as [H|[u H]]; [|discriminate]. injection H as <-. reflexivity.
      + destruct (cont c); destruct H as [H|[u H]]; try discriminate; [injection H as <-|injection H as _ <-]; reflexivity.
  Qed.

  Theorem type_limit_reach s : Reach p c s -> TypeInv c (active s).
  Proof.
    induction 1 as [|s k Hr IH|s t order s' Hr IH E].
    - intros y m _. cbn. lia.
    - now apply TypeInv_submit_prefix.
    - rewrite (complete_active s t order s' (or_introl E)). intros y m Hy. specialize (IH y m Hy).
      pose proof (count_ty_remove1_le c y t (active s)). lia.
  Qed.

  Theorem type_limit_after_raise t s' : raise_succ p c t s' -> TypeInv c (active s').
  Proof.
    intros (s & order & Hr & E). rewrite (complete_active s t order s' (or_intror (ex_intro _ t E))).
    intros y m Hy. pose proof (type_limit_reach s Hr y m Hy). pose proof (count_ty_remove1_le c y t (active s)). lia.
  Qed.

  (* ---------------------------------------------------------------- greedy submission (C05) *)
  Lemma ready_loop_prefix s l : forall chosen, exists ext, ready_loop p c s chosen l = chosen ++ ext.
  Proof.
    induction l as [|a l IH]; intros chosen; cbn [ready_loop]; [exists []; now rewrite app_nil_r|].
    assert (Hadd : exists ext, ready_loop p c s (chosen ++ [a]) l = chosen ++ ext).
    { destruct (IH (chosen ++ [a])) as [e He]. exists ([a] ++ e). now rewrite He, <- app_assoc. }
    destruct (p_dep_guard p && negb (deps_done c s a)); [apply IH|].
    destruct (maxpar_of c (ty_of c a)) as [m|]; [|exact Hadd].
    destruct (over_limit p _ m); [apply IH|exact Hadd].
  Qed.

  Definition at_limit (act : list nat) (t : nat) : Prop :=
    exists m, maxpar_of c (ty_of c t) = Some m /\ m <= count_ty c (ty_of c t) act.

  Lemma ready_loop_skipped s l : forall chosen t, In t l -> ~ In t (ready_loop p c s chosen l) ->
    deps_done c s t = false \/ at_limit (active s ++ ready_loop p c s chosen l) t.
  Proof.
    induction l as [|a l IH]; intros chosen t Hin Hnot; [destruct Hin|]. cbn [ready_loop] in *.
    assert (Hin_add : forall ch, In a (ready_loop p c s (ch ++ [a]) l)).
    { intros ch. destruct (ready_loop_prefix s l (ch ++ [a])) as [e He]. rewrite He.
      apply in_or_app. left. apply in_or_app. right. now left. }
    destruct (p_dep_guard p && negb (deps_done c s a)) eqn:Eg.
    - destruct Hin as [<-|Hin]; [|now apply IH]. left. apply andb_true_iff in Eg. destruct Eg as [_ Eg].
      now apply negb_true_iff in Eg.
    - destruct (maxpar_of c (ty_of c a)) as [m|] eqn:Em.
      + destruct (over_limit p (count_ty c (ty_of c a) (active s ++ chosen)) m) eqn:Eo.
        * destruct Hin as [<-|Hin]; [|now apply IH]. right. exists m. split; [exact Em|].
          unfold over_limit in Eo. rewrite Hcmp in Eo. apply Nat.leb_le in Eo.
          destruct (ready_loop_prefix s l chosen) as [e He]. rewrite He, app_assoc, count_ty_app. lia.
        * destruct Hin as [<-|Hin]; [exfalso; apply Hnot; apply Hin_add|now apply IH].
      + destruct Hin as [<-|Hin]; [exfalso; apply Hnot; apply Hin_add|now apply IH].
  Qed.

  Lemma fold_start_pending l : forall s t, In t (pending (fold_left (start c) l s)) <-> In t (pending s) /\ ~ In t l.
  Proof.
    induction l as [|a l IH]; intros s t; cbn [fold_left]; [cbn [In]; tauto|].
    rewrite IH. cbn [start pending In]. rewrite In_remove1. split.
    - intros [[A B] C]. split; [exact A|]. intros [E|E]; [congruence|contradiction].
    - intros [A B]. split; [split; [exact A|]|]; intro; apply B; auto.
  Qed.

  (* At every rest point (the state in which wait() is called) nothing that could run is left pending. *)
  Theorem rest_no_ready_left s t : In t (pending (submit_phase p c s)) ->
    deps_done c (submit_phase p c s) t = false \/ at_limit (active (submit_phase p c s)) t.
  Proof.
    intros Ht. unfold submit_phase in *. apply fold_start_pending in Ht. destruct Ht as [Hp Hn].
    destruct (fold_start_fields c (get_ready p c s) s) as (_ & Ef & _ & _ & _ & _ & Ea).
    rewrite Ea. unfold deps_done. rewrite Ef. fold (deps_done c s t).
    unfold get_ready in *. now apply ready_loop_skipped.
  Qed.

  (* ---------------------------------------------------------------- progress (C11) *)
  Hypothesis Hwf : wf c.
  Hypothesis Hguard : p_dep_guard p = true.
  Hypothesis Hmiss : p_missing p = MContinue.
  Hypothesis Hcap : forall y, maxpar_of c y <> Some 0.

  Lemma ready_nonempty s l t : active s = [] ->
    In t l -> deps_done c s t = true -> ready_loop p c s [] l <> [].
  Proof.
    intros Ha. induction l as [|a l IH]; intros Hin Hd; [destruct Hin|]. cbn [ready_loop].
    destruct (deps_done c s a) eqn:Eda; cbn [negb]; rewrite ?andb_false_r, ?andb_true_r.
    - assert (Hne : ready_loop p c s ([] ++ [a]) l <> []).
      { destruct (ready_loop_prefix s l ([] ++ [a])) as [e He]. rewrite He. cbn. discriminate. }
      destruct (maxpar_of c (ty_of c a)) as [m|] eqn:Em; [|exact Hne].
      rewrite Ha. cbn [app]. unfold count_ty at 1. cbn [filter length].
      unfold over_limit. rewrite Hcmp.
      destruct m as [|m]; [exfalso; eapply Hcap; eauto|]. cbn [Nat.leb]. exact Hne.
    - rewrite Hguard. cbn [andb]. destruct Hin as [<-|Hin]; [congruence|]. now apply IH.
  Qed.

  Theorem progress s : Inv c s -> loop_done s = false -> active (submit_phase p c s) <> [].
  Proof.
    intros I Hnd. unfold submit_phase.
    destruct (fold_start_fields c (get_ready p c s) s) as (_ & _ & _ & _ & _ & _ & Ea). rewrite Ea.
    destruct (active s) as [|x xs] eqn:Eact; [|discriminate]. cbn [app].
    unfold loop_done in Hnd. rewrite Eact in Hnd. destruct (pending s) as [|q ps] eqn:Ep; [discriminate|].
    destruct (list_min_exists (q :: ps) ltac:(discriminate)) as (m & Hm & Hmin).
    unfold get_ready. rewrite Ep. apply (ready_nonempty s (q :: ps) m Eact Hm).
    unfold deps_done. apply forallb_forall. intros d Hdin. apply mem_In.
    assert (Hmp : In m (plan c)). { apply (I_cover c s I). left. now rewrite Ep. }
    destruct (plan_spec c Hwf) as (_ & _ & P3 & _).
    pose proof (P3 m d Hmp Hdin) as Hdp. apply (I_cover c s I) in Hdp.
    pose proof (pdeps_lt c m d Hwf Hdin) as Hlt.
    destruct Hdp as [H|[H|H]]; [|rewrite Eact in H; destruct H|exact H].
    rewrite Ep in H. specialize (Hmin d H). lia.
  Qed.

  Theorem never_stuck o : fst (run p c o) <> Stuck.
  Proof.
    unfold run. assert (Hr : Reach p c (init c)) by constructor. revert Hr. generalize (init c).
    induction o as [|b o IH]; intros s Hr; cbn [loop].
    - destruct (loop_done s); cbn [fst]; [|discriminate]. unfold final. destruct (p_final p); [discriminate| |];
        destruct (opt_all _); discriminate.
    - destruct (loop_done s) eqn:Ed.
      + cbn [fst]. unfold final. destruct (p_final p); [discriminate| |]; destruct (opt_all _); discriminate.
      + pose proof (progress s (Reach_Inv p c Hwf Hguard s Hr) Ed) as Hp.
        pose proof (Reach_submit_phase p c s Hr) as H1.
        destruct (active (submit_phase p c s)) eqn:Ea; [congruence|].
        destruct (process_batch p c (submit_phase p c s) b) as [s2|t s2|] eqn:Eb; cbn [fst]; try discriminate.
        apply IH. eapply Reach_process_batch; eauto.
  Qed.

  (* ---- termination measure: every completion removes one in-flight task, nothing is ever re-added *)
  Definition measure (s : st) : nat := length (pending s) + length (active s).

  Lemma length_remove1_NoDup t l : NoDup l -> In t l -> S (length (remove1 t l)) = length l.
  Proof.
    induction 1 as [|a l Ha Hn IH]; intros Hin; [destruct Hin|]. unfold remove1 in *. cbn [filter].
    destruct (Nat.eqb_spec t a) as [->|Hne]; cbn [negb length].
    - f_equal. clear IH Hin Hn. induction l as [|b l IHl]; cbn [filter]; [reflexivity|].
      destruct (Nat.eqb_spec a b) as [->|Hab]; cbn [negb length].
      + exfalso. apply Ha. now left.
      + f_equal. apply IHl. intro F. apply Ha. now right.
    - destruct Hin as [E|Hin]; [congruence|]. f_equal. now apply IH.
  Qed.

  Lemma measure_start s t : NoDup (pending s) -> In t (pending s) -> measure (start c s t) = measure s.
  Proof.
    intros Hn Hin. unfold measure. cbn [start pending active]. rewrite app_length. cbn [length].
    pose proof (length_remove1_NoDup t (pending s) Hn Hin). lia.
  Qed.

  Lemma measure_fold_start l : forall s, Inv c s -> NoDup l -> (forall t, In t l -> In t (pending s)) ->
    (forall t, In t l -> forall d, In d (pdeps_of c t) -> In d (finished s)) ->
    measure (fold_left (start c) l s) = measure s.
  Proof.
    induction l as [|a l IH]; intros s I Hnd Hp Hd; cbn [fold_left]; [reflexivity|].
    inversion Hnd as [|? ? Ha Hnd']; subst. rewrite IH.
    - apply measure_start; [apply I|apply Hp; now left].
    - apply Inv_start; [exact I|apply Hp; now left|apply Hd; now left].
    - exact Hnd'.
    - intros t Ht. cbn [start pending]. apply In_remove1. split; [apply Hp; now right|]. intros ->. contradiction.
    - intros t Ht. cbn [start finished]. apply Hd. now right.
  Qed.

  Lemma measure_submit_phase s : Inv c s -> measure (submit_phase p c s) = measure s.
  Proof.
    intros I. unfold submit_phase. apply measure_fold_start; [exact I| | |].
    - unfold get_ready. apply ready_loop_NoDup; [apply I|constructor|intros x []].
    - intros t Ht. unfold get_ready in Ht. apply ready_loop_sub in Ht. destruct Ht as [[]|Ht]. exact Ht.
    - intros t Ht. unfold get_ready in Ht. apply (ready_loop_deps p c s _ Hguard) in Ht. destruct Ht as [[]|Ht].
      now apply deps_done_In.
  Qed.

  Lemma complete_pending s t order s' : complete p c s t order = SOk s' -> pending s' = pending s.
  Proof.
    unfold complete. destruct (negb (mem t (active s))); [discriminate|].
    destruct (exec c s t); [intros [= <-]; reflexivity|]. destruct (cont c); [intros [= <-]; reflexivity|discriminate].
  Qed.

  Lemma measure_complete s t order s' : Inv c s -> complete p c s t order = SOk s' -> S (measure s') = measure s.
  Proof.
    intros I E. unfold measure. rewrite (complete_pending s t order s' E), (complete_active s t order s' (or_introl E)).
    pose proof (complete_ok_exec p c s t order s' Hwf I E) as Hin.
    pose proof (length_remove1_NoDup t (active s) (I_nd_a c s I) Hin). lia.
  Qed.

  Lemma measure_batch b : forall s s', Inv c s -> process_batch p c s b = SOk s' -> measure s' + length b = measure s.
  Proof.
    induction b as [|[t order] b IH]; intros s s' I E; cbn [process_batch] in E.
    - injection E as <-. cbn [length]. lia.
    - destruct (complete p c s t order) as [s1|u s1|] eqn:Ec; try discriminate.
      pose proof (measure_complete s t order s1 I Ec). pose proof (Inv_complete p c s t order s1 Hwf I Ec) as I1.
      specialize (IH s1 s' I1 E). cbn [length]. lia.
  Qed.

  (* An oracle that keeps delivering completions (at least one per batch, for as many batches as there are
     tasks still to do) always lets the run finish: the outcome is never OutOfOracle. *)
  Definition productive (o : list batch) (n : nat) : Prop :=
    n <= length o /\ forall b, In b (firstn n o) -> b <> [].

  Theorem fair_terminates o : forall s, Reach p c s -> productive o (measure s) ->
    fst (loop p c s o) <> OutOfOracle.
  Proof.
    induction o as [|b o IH]; intros s Hr [Hlen Hne]; cbn [loop].
    - cbn [length] in Hlen. assert (Hm : measure s = 0) by lia. unfold measure in Hm.
      assert (Ed : loop_done s = true).
      { unfold loop_done. destruct (pending s); [|cbn [length] in Hm; lia]. destruct (active s); [reflexivity|cbn [length] in Hm; lia]. }
      rewrite Ed. cbn [fst]. unfold final. destruct (p_final p); [discriminate| |]; destruct (opt_all _); discriminate.
    - destruct (loop_done s) eqn:Ed.
      + cbn [fst]. unfold final. destruct (p_final p); [discriminate| |]; destruct (opt_all _); discriminate.
      + pose proof (Reach_Inv p c Hwf Hguard s Hr) as I.
        pose proof (Reach_submit_phase p c s Hr) as H1.
        destruct (active (submit_phase p c s)) eqn:Ea; [discriminate|].
        destruct (process_batch p c (submit_phase p c s) b) as [s2|t s2|] eqn:Eb; cbn [fst]; try discriminate.
        apply IH; [eapply Reach_process_batch; eauto|].
        pose proof (measure_batch b _ _ (Reach_Inv p c Hwf Hguard _ H1) Eb) as Hmb.
        rewrite (measure_submit_phase s I) in Hmb.
        assert (Hms : 0 < measure s).
        { unfold measure, loop_done in *. destruct (pending s); [destruct (active s); [discriminate|]|]; cbn [length]; lia. }
        assert (Hb : b <> []).
        { apply Hne. destruct (measure s) as [|n0]; [lia|]. cbn [firstn]. now left. }
        assert (Hlb : 0 < length b) by (destruct b; [congruence|cbn [length]; lia]).
        cbn [length] in Hlen. split; [lia|].
        intros b' Hb'. apply Hne. destruct (measure s) as [|n1] eqn:En; [lia|]. cbn [firstn]. right.
        assert (Hle : measure s2 <= n1) by lia.
        rewrite <- (firstn_skipn (measure s2) (firstn n1 o)). apply in_or_app. left.
        rewrite firstn_firstn. replace (Nat.min (measure s2) n1) with (measure s2) by lia. exact Hb'.
  Qed.
End Limits.
