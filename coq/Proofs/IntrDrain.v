(* IntrDrain.v — C14, "tasks already executing in worker processes are allowed to finish": after a single interrupt run_tasks
   raises KeyboardInterrupt only once every future it registered with the runner has been consumed — each worker that was
   executing has delivered its outcome (IntrKeep: none was terminated), each queued task was cancelled. *)
Require Import LT.Model.Base LT.Model.Sched LT.Model.Intr LT.Proofs.BaseLemmas LT.Proofs.IntrKeep.

Section Prog.
  Variable P : iparams.
  Variable c : cfg.

  Lemma drain_true fuel : forall w w', drain_loop P c fuel w = (inl true, w') -> existsb registered (f2t w') = false.
  Proof.
    induction fuel as [|f IH]; intros w w'; cbn [drain_loop]; [intros [=]|].
    unfold bind at 1, get. destruct (negb (existsb registered (f2t w))) eqn:E.
    - intros [= <-]. now apply negb_true_iff in E.
    - unfold bind at 1. match goal with |- context [try_catch ?m ?h w] => destruct (try_catch m h w) as [[u|e] w1] end; [|intros [=]].
      apply IH.
  Qed.

  Lemma final_not_ki w : final_of P c w <> IRaised KI.
  Proof. unfold final_of. destruct (final (ip P) c (ws w)); discriminate. Qed.
End Prog.

Theorem single_interrupt_waits_for_registered P c maxw o k1 w :
  run_intr P c maxw o k1 None = (IRaised KI, w) -> existsb registered (f2t w) = false.
Proof.
  unfold run_intr, irun. set (fuel := S (S (List.length o))). set (w0 := init_world c maxw o k1 None).
  set (body := ok <- main_loop P c fuel;; (w <- get;; ret (if ok then final_of P c w else IOutOfOracle))).
  assert (Hbody : calm body).
  { unfold body. apply calm_bind; [apply calm_main_loop|intros ok]. apply calm_bind; [apply calm_get|intros w']. apply calm_ret. }
  destruct Hbody as (B1 & B2 & B3).
  assert (T0 : terminated w0 = []) by reflexivity. assert (S0 : second w0 = None) by reflexivity.
  specialize (B1 w0 T0). destruct (B2 w0 S0) as [S1 K1].
  unfold try_catch at 1. fold body. destruct (body w0) as [[out|e] w1] eqn:Eb; cbn [snd] in *.
  - (* the main loop was left without an exception: the outcome is not a KeyboardInterrupt *)
    intros [= Hout _]. exfalso. unfold body, bind, get, ret in Eb. destruct (main_loop P c fuel w0) as [[ok|e] wm]; [|discriminate].
    injection Eb as <- <-. destruct ok; [now apply (final_not_ki P c wm)|discriminate].
  - destruct e; cbn [ret]; try (intros [= ? ?]; discriminate).
    (* first interrupt: cancel and drain *)
    pose proof (K1 w1 eq_refl) as Hb1.
    unfold on_interrupt.
    set (h1 := do_cancel;;; (ok <- drain_loop P c fuel;; ret (if ok then IRaised KI else IOutOfOracle))).
    assert (Hh1 : calm h1).
    { unfold h1. apply calm_bind; [apply calm_cancel|intros ?u]. apply calm_bind; [apply calm_drain|intros ok]. apply calm_ret. }
    destruct Hh1 as (H1 & H2 & H3). destruct (H3 w1 Hb1 S1) as [_ Hnk].
    unfold try_catch at 1. fold h1. destruct (h1 w1) as [[out|e2] w2] eqn:Eh; cbn [snd fst] in *.
    + intros [= -> ->]. unfold h1, bind in Eh. destruct (do_cancel w1) as [[u|e] wa]; [|discriminate].
      destruct (drain_loop P c fuel wa) as [[ok|e] wb] eqn:Ed; [|discriminate]. unfold ret in Eh. injection Eh as Hout <-.
      destruct ok; [|discriminate]. exact (drain_true P c fuel wa wb Ed).
    + destruct e2; try (exfalso; now apply Hnk); cbn [ret]; intros [= ? ?]; discriminate.
Qed.
