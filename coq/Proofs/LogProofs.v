(* LogProofs.v — every record a task emits reaches the caller's handlers exactly once before run_tasks returns (C19). *)
Require Import LT.Model.Base LT.Model.Log LT.Proofs.BaseLemmas.

(* ------------------------------------------------------------------ the worker side *)
Definition logs_of (l : list record) : list nat := flat_map (fun r => match r with RLog m => [m] | _ => [] end) l.
Definition frags_of (s : stream) (l : list record) : list nat :=
  flat_map (fun r => match r, s with
                     | RCaptured Out f, Out | RCaptured Err f, Err => f
                     | _, _ => []
                     end) l.
Definition emits (script : list wact) : list nat := flat_map (fun a => match a with WEmit m => [m] | _ => [] end) script.
Definition written (s : stream) (script : list wact) : list nat :=
  flat_map (fun a => match a, s with
                     | WWrite Out f false, Out | WWrite Err f false, Err => [f]
                     | _, _ => []
                     end) script.

Lemma frags_of_app s a b : frags_of s (a ++ b) = frags_of s a ++ frags_of s b.
Proof. apply flat_map_app. Qed.
Lemma logs_of_app a b : logs_of (a ++ b) = logs_of a ++ logs_of b.
Proof. apply flat_map_app. Qed.

(* what has been handed to the logger plus what is still buffered is exactly what was written, per stream *)
Definition acc (w : wstate) (s : stream) : list nat := frags_of s (put w) ++ bufs w s.

Lemma flush_acc w s s' : acc (flush FlushClears w s') s = acc w s.
Proof.
  unfold flush, acc. destruct (bufs w s') as [|x l] eqn:E; [reflexivity|].
  destruct s, s'; cbn [bufs set_bufs emit put b_out b_err] in *; rewrite ?frags_of_app; cbn [frags_of flat_map];
    rewrite ?app_nil_r, ?E; rewrite <- ?app_assoc; reflexivity.
Qed.
Lemma flush_logs w s : logs_of (put (flush FlushClears w s)) = logs_of (put w).
Proof.
  unfold flush. destruct (bufs w s) as [|x l]; [reflexivity|].
  destruct s; cbn [set_bufs emit put]; rewrite logs_of_app; cbn; now rewrite app_nil_r.
Qed.
Lemma flush_empties w s : bufs (flush FlushClears w s) s = [].
Proof. unfold flush. destruct (bufs w s) as [|x l] eqn:E; [exact E|]. destruct s; reflexivity. Qed.
Lemma flush_other w s s' : s <> s' -> bufs (flush FlushClears w s') s = bufs w s.
Proof. intros H. unfold flush. destruct (bufs w s') as [|x l]; [reflexivity|]. destruct s, s'; try congruence; reflexivity. Qed.

Lemma wstep_acc w a s : acc (wstep FlushClears w a) s = acc w s ++ written s [a].
Proof.
  destruct a as [m|s' f blank|s']; cbn [wstep written flat_map].
  - unfold acc. cbn [emit put bufs b_out b_err]. rewrite frags_of_app. cbn [frags_of flat_map]. rewrite !app_nil_r.
    destruct s; reflexivity.
  - destruct blank.
    + destruct s, s'; cbn; now rewrite app_nil_r.
    + unfold acc. destruct s, s'; cbn [set_bufs bufs put b_out b_err app]; rewrite ?app_nil_r, ?app_assoc; reflexivity.
  - rewrite flush_acc. destruct s; cbn; now rewrite app_nil_r.
Qed.
Lemma wstep_logs w a : logs_of (put (wstep FlushClears w a)) = logs_of (put w) ++ emits [a].
Proof.
  destruct a as [m|s' f blank|s']; cbn [wstep emits flat_map].
  - cbn [emit put]. rewrite logs_of_app. reflexivity.
  - rewrite app_nil_r. destruct blank; [reflexivity|]. destruct s'; reflexivity.
  - rewrite app_nil_r. apply flush_logs.
Qed.

Lemma fold_wstep script : forall w s,
  acc (fold_left (wstep FlushClears) script w) s = acc w s ++ written s script /\
  logs_of (put (fold_left (wstep FlushClears) script w)) = logs_of (put w) ++ emits script.
Proof.
  induction script as [|a script IH]; intros w s; cbn [fold_left].
  - cbn. now rewrite !app_nil_r.
  - destruct (IH (wstep FlushClears w a) s) as [A B]. rewrite A, B, wstep_acc, wstep_logs.
    change (a :: script) with ([a] ++ script). unfold written, emits. rewrite !flat_map_app, !app_assoc. split; reflexivity.
Qed.

(* With a flush that clears its buffer and the streams flushed before the result is returned: every logger call
   appears exactly once, in order; every non-blank fragment written to a stream appears in exactly one captured
   record (the concatenation of the captured fragments is the sequence written); nothing is left for exit time. *)
Theorem worker_exactly_once script :
  let '(pre_, post) := worker FlushClears true script in
  logs_of pre_ = emits script /\ frags_of Out pre_ = written Out script /\ frags_of Err pre_ = written Err script /\ post = [].
Proof.
  unfold worker. set (w0 := {| b_out := []; b_err := []; put := [] |}).
  set (w1 := fold_left (wstep FlushClears) script w0).
  set (w2 := flush FlushClears (flush FlushClears w1 Out) Err).
  destruct (fold_wstep script w0 Out) as [Ao L]. destruct (fold_wstep script w0 Err) as [Ae _]. fold w1 in Ao, Ae, L.
  assert (Bo : bufs w2 Out = []). { unfold w2. rewrite flush_other by discriminate. apply flush_empties. }
  assert (Be : bufs w2 Err = []). { unfold w2. apply flush_empties. }
  assert (Ho : acc w2 Out = written Out script). { unfold w2. rewrite !flush_acc, Ao. reflexivity. }
  assert (He : acc w2 Err = written Err script). { unfold w2. rewrite !flush_acc, Ae. reflexivity. }
  unfold acc in Ho, He. rewrite Bo, app_nil_r in Ho. rewrite Be, app_nil_r in He.
  split; [|split; [exact Ho|split; [exact He|]]].
  - unfold w2. rewrite !flush_logs, L. reflexivity.
  - cbn [bufs] in Bo, Be. unfold flush at 2. cbn [bufs b_out]. rewrite Bo. unfold flush. cbn [bufs b_err]. rewrite Be. reflexivity.
Qed.

(* a flush that keeps its buffer delivers earlier fragments again *)
Theorem flush_keeps_refuted : exists script,
  frags_of Out (fst (worker FlushKeeps true script)) <> written Out script.
Proof. exists [WWrite Out 1 false; WFlush Out; WWrite Out 2 false; WFlush Out]. vm_compute. discriminate. Qed.

(* without flushing before the result is returned, output is only emitted at interpreter exit, after the result *)
Theorem no_flush_before_result_refuted : exists script, snd (worker FlushClears false script) <> [].
Proof. exists [WWrite Out 1 false]. vm_compute. discriminate. Qed.

(* ------------------------------------------------------------------ the caller's side *)
(* per-task program order: a task puts nothing after its result; only tasks of this run put records *)
Fixpoint wf_tl (tasks resulted : list nat) (tl : list ev) : bool :=
  match tl with
  | [] => true
  | EvPut t _ :: tl' => mem t tasks && negb (mem t resulted) && wf_tl tasks resulted tl'
  | EvResult t :: tl' => wf_tl tasks (t :: resulted) tl'
  | _ :: tl' => wf_tl tasks resulted tl'
  end.

Lemma wf_no_puts tasks : forall tl resulted, wf_tl tasks resulted tl = true ->
  (forall t, In t tasks -> In t resulted) -> puts tl = [].
Proof.
  induction tl as [|e tl IH]; intros resulted H Hall; [reflexivity|]. destruct e as [t r|t| |]; cbn [wf_tl puts flat_map] in *.
  - apply andb_true_iff in H. destruct H as [H _]. apply andb_true_iff in H. destruct H as [H1 H2].
    apply mem_In in H1. apply negb_true_iff, mem_false in H2. exfalso. apply H2. now apply Hall.
  - apply (IH (t :: resulted)); [exact H|]. intros u Hu. right. now apply Hall.
  - now apply (IH resulted).
  - now apply (IH resulted).
Qed.

Lemma pstep_stopped ca tasks tl : forall p, stopped p = true -> fold_left (pstep ca tasks) tl p = p.
Proof.
  induction tl as [|e tl IH]; intros p H; cbn [fold_left]; [reflexivity|].
  assert (E : pstep ca tasks p e = p) by (unfold pstep; now rewrite H). rewrite E. now apply IH.
Qed.

Definition live_step (tasks : list nat) (p : pstate) (e : ev) : pstate :=
  match e with
  | EvPut _ r => {| lq := lq p ++ [r]; rq := rq p; got := got p; delivered := delivered p; stopped := false |}
  | EvResult t => {| lq := lq p; rq := rq p ++ [t]; got := got p; delivered := delivered p; stopped := false |}
  | EvWaitBegin => {| lq := []; rq := rq p; got := got p; delivered := delivered p ++ lq p; stopped := false |}
  | EvWaitEnd => {| lq := []; rq := []; got := got p ++ rq p; delivered := delivered p ++ lq p;
                    stopped := forallb (fun t => mem t (got p ++ rq p)) tasks |}
  end.
Lemma pstep_live tasks p e : stopped p = false -> pstep true tasks p e = live_step tasks p e.
Proof. intros H. unfold pstep. rewrite H. destruct e; reflexivity. Qed.

(* With the log queue consumed again after the results are in: when the loop has exited, the records handled are
   exactly the records put, each once, in order — whichever task finished last and however puts, results and the
   two halves of each wait() interleave. *)
Theorem parent_exactly_once tasks : forall tl p resulted,
  stopped p = false ->
  wf_tl tasks resulted tl = true ->
  (forall t, In t (got p) \/ In t (rq p) -> In t resulted) ->
  (forall t, In t resulted -> In t (got p) \/ In t (rq p)) ->
  stopped (fold_left (pstep true tasks) tl p) = true ->
  delivered (fold_left (pstep true tasks) tl p) = delivered p ++ lq p ++ puts tl.
Proof.
  induction tl as [|e tl IH]; intros p resulted Hs Hwf Hsub Hsup Hend; cbn [fold_left] in *; [congruence|].
  rewrite (pstep_live tasks p e Hs) in *.
  destruct e as [t r|t| |]; cbn [wf_tl puts flat_map app live_step] in *.
  - apply andb_true_iff in Hwf. destruct Hwf as [_ Hwf].
    rewrite (IH _ resulted); cbn [stopped delivered lq rq got]; auto. now rewrite <- !app_assoc.
  - rewrite (IH _ (t :: resulted)); cbn [stopped delivered lq rq got]; auto.
    + intros u [Hu|Hu]; [right; apply Hsub; now left|]. apply in_app_or in Hu.
      destruct Hu as [Hu|[<-|[]]]; [right; apply Hsub; now right|now left].
    + intros u [<-|Hu]; [right; apply in_or_app; right; now left|].
      destruct (Hsup u Hu); [now left|right; apply in_or_app; now left].
  - rewrite (IH _ resulted); cbn [stopped delivered lq rq got]; auto. now rewrite app_nil_l, <- app_assoc.
  - destruct (forallb (fun t => mem t (got p ++ rq p)) tasks) eqn:Eall.
    + rewrite pstep_stopped in * by reflexivity. cbn [delivered]. fold (puts tl).
      rewrite (wf_no_puts tasks tl resulted Hwf); [now rewrite !app_nil_r|].
      intros t Ht. rewrite forallb_forall in Eall. specialize (Eall t Ht). apply mem_In in Eall.
      apply Hsub. apply in_app_or in Eall. tauto.
    + rewrite (IH _ resulted); cbn [stopped delivered lq rq got]; auto.
      * now rewrite app_nil_l, <- app_assoc.
      * intros u [Hu|[]]. apply Hsub. apply in_app_or in Hu. tauto.
      * intros u Hu. left. apply in_or_app. destruct (Hsup u Hu); tauto.
Qed.

Corollary run_exactly_once tasks tl : wf_tl tasks [] tl = true ->
  stopped (parent true tasks tl) = true -> delivered (parent true tasks tl) = puts tl.
Proof.
  intros Hwf Hend. unfold parent in *. rewrite (parent_exactly_once tasks tl pinit []); auto;
    cbn; intros t H; repeat (destruct H as [H|H]); destruct H.
Qed.

(* without it, the records of the task that finishes in the last polling round are never handled *)
Theorem no_consume_after_refuted : exists tasks tl, wf_tl tasks [] tl = true /\
  stopped (parent false tasks tl) = true /\ delivered (parent false tasks tl) <> puts tl.
Proof. exists [0], [EvWaitBegin; EvPut 0 (RLog 7); EvResult 0; EvWaitEnd]. vm_compute. repeat split; discriminate. Qed.
