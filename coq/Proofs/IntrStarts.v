(* IntrStarts.v — C14, "no task is started after the interrupt": from whatever state the first KeyboardInterrupt leaves,
   the except-branch of TaskCoordinator.run (cancel, drain; on a second interrupt cancel again, stop, collect) starts no
   worker process and records no submission, however it ends. *)
Require Import LT.Model.Base LT.Model.Sched LT.Model.Intr LT.Proofs.BaseLemmas.

(* submissions recorded by the coordinator *)
Definition is_submit (e : event) : bool := match e with ESubmit _ _ => true | _ => false end.
Definition nsub (w : world) : nat := List.length (filter is_submit (hist (ws w))).

Definition is_queued (p : nat * fstat * bool) : bool := match stat_of p with FQueued => true | _ => false end.
Definition noq (l : list (nat * fstat * bool)) : Prop := forall p, In p l -> is_queued p = false.

(* J: nothing started, nothing submitted since the reference point;  I: moreover no future is queued *)
Definition J (n k : nat) (w : world) : Prop := nstarts w = n /\ nsub w = k.
Definition I (n k : nat) (w : world) : Prop := noq (f2t w) /\ J n k w.

(* triples with a postcondition for the normal and one for the exceptional exit *)
Definition triple {A} (Pre : world -> Prop) (m : M A) (PostN : A -> world -> Prop) (PostE : world -> Prop) : Prop :=
  forall w, Pre w -> match m w with (inl a, w') => PostN a w' | (inr _, w') => PostE w' end.

Lemma t_ret {A} (a : A) (Pre : world -> Prop) PostE : triple Pre (ret a) (fun _ w => Pre w) PostE.
Proof. intros w H. exact H. Qed.
Lemma t_raise {A} e (Pre : world -> Prop) (PostN : A -> world -> Prop) : triple Pre (raise e) PostN Pre.
Proof. intros w H. exact H. Qed.
Lemma t_get (Pre : world -> Prop) PostE : triple Pre get (fun a w => a = w /\ Pre w) PostE.
Proof. intros w H. cbn. auto. Qed.
Lemma t_get' (Pre : world -> Prop) PostE : triple Pre get (fun _ w => Pre w) PostE.
Proof. intros w H. exact H. Qed.
Lemma t_bind {A B} Pre (m : M A) (f : A -> M B) Mid PostN PostE :
  triple Pre m Mid PostE -> (forall a, triple (Mid a) (f a) PostN PostE) -> triple Pre (bind m f) PostN PostE.
Proof.
  intros Hm Hf w H. unfold bind. specialize (Hm w H). destruct (m w) as [[a|e] w']; [apply (Hf a w' Hm)|exact Hm].
Qed.
Lemma t_weaken {A} (Pre Pre' : world -> Prop) (m : M A) (PostN PostN' : A -> world -> Prop) (PostE PostE' : world -> Prop) :
  (forall w, Pre' w -> Pre w) -> (forall a w, PostN a w -> PostN' a w) -> (forall w, PostE w -> PostE' w) ->
  triple Pre m PostN PostE -> triple Pre' m PostN' PostE'.
Proof.
  intros H1 H2 H3 Hm w H. specialize (Hm w (H1 w H)). destruct (m w) as [[a|e] w']; auto.
Qed.
Lemma t_modify (Pre Post : world -> Prop) PostE (f : world -> world) :
  (forall w, Pre w -> Post (f w)) -> triple Pre (modify f) (fun _ w => Post w) PostE.
Proof. intros H w HP. cbn. now apply H. Qed.
Lemma t_try_catch {A} Pre (m : M A) (h : exn -> M A) PostN Mid PostE :
  triple Pre m PostN Mid -> (forall e, triple Mid (h e) PostN PostE) -> triple Pre (try_catch m h) PostN PostE.
Proof.
  intros Hm Hh w H. unfold try_catch. specialize (Hm w H). destruct (m w) as [[a|e] w']; [exact Hm|apply (Hh e w' Hm)].
Qed.
Lemma t_for_each {A} (Inv : world -> Prop) (f : A -> M unit) : forall l,
  (forall x, triple Inv (f x) (fun _ w => Inv w) Inv) -> triple Inv (for_each l f) (fun _ w => Inv w) Inv.
Proof.
  induction l as [|x l IH]; intros Hf; cbn [for_each]; [apply t_ret|].
  eapply t_bind; [apply Hf|]. intros ?u. now apply IH.
Qed.

(* a tick changes neither the futures, nor the coordinator state, nor the start counter *)
Lemma tick_keeps w : let w' := snd (tick w) in ws w' = ws w /\ f2t w' = f2t w /\ nstarts w' = nstarts w.
Proof. unfold tick. destruct (budget w) as [[|k]|]; cbn; auto. Qed.
Lemma t_tick (Pre : world -> Prop) :
  (forall w w', ws w' = ws w -> f2t w' = f2t w -> nstarts w' = nstarts w -> Pre w -> Pre w') ->
  triple Pre tick (fun _ w => Pre w) Pre.
Proof.
  intros Hst w H. pose proof (tick_keeps w) as K. cbn zeta in K.
  destruct (tick w) as [[u|e] w']; cbn [snd] in K; destruct K as (A & B & C); eauto.
Qed.
Lemma J_stable n k w w' : ws w' = ws w -> f2t w' = f2t w -> nstarts w' = nstarts w -> J n k w -> J n k w'.
Proof. unfold J, nsub. intros -> _ ->. auto. Qed.
Lemma I_stable n k w w' : ws w' = ws w -> f2t w' = f2t w -> nstarts w' = nstarts w -> I n k w -> I n k w'.
Proof. unfold I, J, nsub. intros -> -> ->. auto. Qed.

(* ---- with nothing queued, _start_processes starts nothing *)
Lemma start_more_noq free : forall l, noq l -> start_more free l = l.
Proof.
  induction l as [|[[t s] r] l IH]; intros H; cbn [start_more]; [reflexivity|].
  assert (Hl : noq l) by (intros p Hp; apply H; now right).
  pose proof (H (t, s, r) (or_introl eq_refl)) as Hs. unfold is_queued, stat_of in Hs. cbn in Hs.
  destruct s; try discriminate; now rewrite IH.
Qed.
Lemma restart_noq n k w : I n k w -> I n k (restart w).
Proof.
  intros [Hq [Hn Hk]]. unfold restart. rewrite (start_more_noq _ _ Hq). unfold I, J, nsub. cbn [f2t nstarts ws].
  repeat split; [exact Hq|lia|exact Hk].
Qed.

Lemma noq_map l g : noq l -> (forall p, is_queued p = false -> is_queued (g p) = false) -> noq (map g l).
Proof. intros H Hg p Hp. apply in_map_iff in Hp. destruct Hp as (q & <- & Hq). apply Hg. now apply H. Qed.
Lemma noq_filter l q : noq l -> noq (filter q l).
Proof. intros H p Hp. apply filter_In in Hp. now apply H. Qed.

Section Handler.
  Variable P : iparams.
  Variable c : cfg.
  Variables n k : nat.

  Lemma I_finish_worker w t : I n k w -> I n k (finish_worker c w t).
  Proof.
    intros [Hq HJ]. unfold finish_worker. split; [|exact HJ]. cbn [f2t set_f2t]. apply noq_map; [exact Hq|].
    intros p Hp. destruct (Nat.eqb (tid_of p) t); [|exact Hp]. unfold is_queued in *.
    destruct (stat_of p) eqn:E; cbn beta iota; rewrite ?E; try reflexivity; try discriminate; unfold stat_of; cbn; reflexivity.
  Qed.
  Lemma I_fold_finish l : forall w, I n k w -> I n k (fold_left (finish_worker c) l w).
  Proof. induction l as [|t l IH]; intros w H; cbn [fold_left]; [exact H|]. apply IH. now apply I_finish_worker. Qed.

  (* an update of the coordinator state that adds no submission to the history keeps I *)
  Lemma I_set_ws w s : List.length (filter is_submit (hist s)) = List.length (filter is_submit (hist (ws w))) -> I n k w -> I n k (set_ws w s).
  Proof. intros H [Hq [Hn Hk]]. unfold I, J, nsub in *. cbn [set_ws f2t nstarts ws]. rewrite H. auto. Qed.
  Lemma I_set_f2t w l : noq l -> I n k w -> I n k (set_f2t w l).
  Proof. intros H [_ HJ]. split; [exact H|exact HJ]. Qed.

  Lemma t_consume_one t r : triple (I n k) (consume_one P c t r) (fun _ w => I n k w) (I n k).
  Proof.
    unfold consume_one.
    eapply t_bind; [apply (t_modify (I n k) (I n k))|intros ?u].
    { intros w H. destruct r as [v|]; [|exact H]. destruct (mem t (req c)); [|exact H]. apply I_set_ws; [reflexivity|exact H]. }
    eapply t_bind; [apply t_tick, I_stable|intros ?u].
    eapply t_bind; [apply t_get'|intros w0].
    eapply t_bind with (Mid := fun _ w => I n k w); [|intros ?u].
    { destruct (mem t (active (ws w0))); [apply t_ret|apply t_raise]. }
    eapply t_bind; [apply (t_modify _ (I n k))|intros ?u].
    { intros w H. apply I_set_ws; [reflexivity|exact H]. }
    eapply t_bind; [|intros ?u].
    { destruct r as [v|]; [apply t_ret|]. destruct (cont c); [apply t_ret|apply t_raise]. }
    eapply t_bind; [apply t_tick, I_stable|intros ?u].
    eapply t_bind; [apply (t_modify _ (I n k))|intros ?u].
    { intros w H. apply I_set_ws; [reflexivity|exact H]. }
    apply t_tick, I_stable.
  Qed.

  Lemma t_wait_and_process : triple (I n k) (wait_and_process P c) (fun _ w => I n k w) (I n k).
  Proof.
    unfold wait_and_process.
    eapply t_bind; [apply t_tick, I_stable|intros ?u].
    eapply t_bind with (Mid := fun _ w => I n k w).
    { intros w H. unfold next_batch. destruct (oracle w); [exact H|]. exact H. }
    intros ob. eapply t_bind with (Mid := fun _ w => I n k w).
    { destruct ob; [apply t_ret|apply t_raise]. }
    intros completing. eapply t_bind; [apply (t_modify _ (I n k))|intros ?u].
    { intros w H. apply restart_noq. now apply I_fold_finish. }
    eapply t_bind; [apply t_get'|intros w0].
    eapply t_bind with (Mid := fun _ w => I n k w).
    { apply (t_for_each (I n k)).
      intros p. eapply t_bind with (Mid := fun _ w => I n k w).
      { destruct (ip_gen P); [|apply t_ret|apply t_ret]. apply (t_modify _ (I n k)). intros w H. apply I_set_f2t; [|exact H].
        apply noq_filter. exact (proj1 H). }
      intros _. destruct (stat_of p); try apply t_ret.
      eapply t_bind; [apply t_tick, I_stable|intros ?u].
      eapply t_bind; [apply (t_modify _ (I n k))|intros ?u; apply t_consume_one].
      intros w H. apply I_set_ws; [reflexivity|exact H]. }
    intros ?u. destruct (ip_gen P); try apply t_ret.
    apply (t_modify _ (I n k)). intros w H. apply I_set_f2t; [|exact H]. apply noq_filter. exact (proj1 H).
  Qed.

  Lemma t_drain_loop fuel : triple (I n k) (drain_loop P c fuel) (fun _ w => I n k w) (I n k).
  Proof.
    induction fuel as [|f IH]; cbn [drain_loop]; [apply t_ret|].
    eapply t_bind; [apply t_get'|intros w0].
    destruct (negb (existsb registered (f2t w0))).
    - apply t_ret.
    - eapply t_bind with (Mid := fun _ w => I n k w); [|intros ?u; exact IH].
      apply t_try_catch with (Mid := I n k); [apply t_wait_and_process|].
      intros e. destruct e; try apply t_raise. destruct (ip_drain_swallows P); [apply t_ret|apply t_raise].
  Qed.

  (* cancel: nothing is queued afterwards; if the interrupt lands at its entry nothing has changed *)
  Lemma t_cancel : triple (J n k) do_cancel (fun _ w => I n k w) (J n k).
  Proof.
    unfold do_cancel. eapply t_bind; [apply t_tick, J_stable|intros ?u].
    apply (t_modify _ (I n k)). intros w HJ. split; [|exact HJ]. cbn [set_f2t f2t].
    intros p Hp. apply in_map_iff in Hp. destruct Hp as (q & <- & _). unfold is_queued.
    destruct (stat_of q) eqn:E; cbn beta iota; rewrite ?E; try reflexivity; unfold stat_of; cbn; reflexivity.
  Qed.

  Lemma t_stop : triple (I n k) do_stop (fun _ w => I n k w) (I n k).
  Proof.
    unfold do_stop. eapply t_bind; [apply t_tick, I_stable|intros ?u].
    apply (t_modify _ (I n k)). intros w [Hq HJ]. split; [|exact HJ]. cbn [f2t].
    apply noq_map; [exact Hq|]. intros p Hp. unfold is_queued in *.
    destruct (stat_of p) eqn:E; cbn beta iota; rewrite ?E; try reflexivity; try discriminate; unfold stat_of; cbn; reflexivity.
  Qed.

  Lemma I_J w : I n k w -> J n k w.
  Proof. intros [_ H]. exact H. Qed.

  Theorem t_on_interrupt fuel : ip_stop_cancels P = true ->
    triple (J n k) (on_interrupt P c fuel) (fun _ w => J n k w) (J n k).
  Proof.
    intros Hsc. unfold on_interrupt. apply t_try_catch with (Mid := J n k).
    - eapply t_bind; [apply t_cancel|intros ?u].
      eapply t_weaken with (Pre := I n k) (PostN := fun _ w => I n k w) (PostE := I n k); [auto|intros a w; apply I_J|apply I_J|].
      eapply t_bind; [apply t_drain_loop|intros ok]. apply t_ret.
    - intros e2. destruct e2; try apply t_ret.
      rewrite Hsc. apply t_try_catch with (Mid := J n k); [|intros e3; apply t_ret].
      eapply t_bind; [apply t_cancel|intros ?u].
      eapply t_weaken with (Pre := I n k) (PostN := fun _ w => I n k w) (PostE := I n k); [auto|intros a w; apply I_J|apply I_J|].
      eapply t_bind; [apply t_stop|intros ?u].
      eapply t_bind with (Mid := fun _ w => I n k w); [|intros ?u; apply t_ret].
      apply t_try_catch with (Mid := I n k); [apply t_wait_and_process|].
      intros e. destruct e; try apply t_raise. destruct (ip_stop_swallows P); [apply t_ret|apply t_raise].
  Qed.
End Handler.

(* From whatever state the first interrupt leaves: the handler starts no worker and records no submission. *)
Theorem handler_starts_nothing P c fuel w1 : ip_stop_cancels P = true ->
  let w2 := snd (on_interrupt P c fuel w1) in nstarts w2 = nstarts w1 /\ nsub w2 = nsub w1.
Proof.
  intros Hsc. pose proof (t_on_interrupt P c (nstarts w1) (nsub w1) fuel Hsc w1 (conj eq_refl eq_refl)) as H.
  cbn zeta. destruct (on_interrupt P c fuel w1) as [[out|e] w2]; exact H.
Qed.

(* Without the second cancel the statement is false: one worker slot, task 0 running, task 1 queued, the second interrupt
   landing on entry to the first cancel — stop() frees the slot and the final collection starts task 1. *)
Definition one_queued_cfg : cfg :=
  {| ntasks := 2; deps := [[]; []]; reads := [[]; []]; behs := [BOk; BOk]; ty := [0; 0]; maxpar := [None];
     cacheable := [false]; req := [0; 1]; pre := []; bust := false; cont := true |}.
Theorem no_second_cancel_refuted : exists P c fuel w1,
  ip_stop_cancels P = false /\ nstarts w1 < nstarts (snd (on_interrupt P c fuel w1)).
Proof.
  exists {| ip := {| p_cmp := CmpGe; p_dep_guard := true; p_missing := MContinue; p_final := FFilter |};
            ip_gen := PopFirst; ip_drain_swallows := true; ip_stop_swallows := true; ip_stop_cancels := false |},
         one_queued_cfg, 3,
         {| ws := start one_queued_cfg (start one_queued_cfg (init one_queued_cfg) 0) 1;
            f2t := [(0, FRunning, true); (1, FQueued, true)]; maxw_ := 1; budget := Some 0; second := None; fired := 1;
            oracle := [[]; []]; ticks := 0; terminated := []; nstarts := 1 |}.
  vm_compute. split; [reflexivity|lia].
Qed.
