(* BookProofs.v — how an outcome handed back by a runner is booked by the coordinator. *)
Require Import LT.Model.Base LT.Model.Sched.

Theorem raised_is_failure h : h <> HResult -> book FailBaseException h = BFailed.
Proof. destruct h; intros H; try reflexivity; now elim H. Qed.

Theorem exception_only_refuted : exists h, h <> HResult /\ book FailException h = BUnexpected.
Proof. exists HBaseOnly. split; [discriminate|reflexivity]. Qed.
