(* PathsProofs.v — LocalStorage confines every effect to one direct child of the storage directory (C18). *)
Require Import LT.Model.Values LT.Model.Paths LT.Proofs.ValuesProofs.

Lemma path_eqb_eq a b : path_eqb a b = true <-> a = b.
Proof.
  split.
  - revert b. induction a as [|x a IH]; intros [|y b] H; cbn [path_eqb] in H; try discriminate; [reflexivity|].
    apply andb_true_iff in H. destruct H as [H1 H2]. apply str_eqb_eq in H1. subst. f_equal. now apply IH.
  - intros ->. induction b as [|y b IH]; cbn [path_eqb]; [reflexivity|]. now rewrite str_eqb_refl, IH.
Qed.

Lemma parent_child (p r : path) : r <> [] -> parent p = r -> exists c, p = r ++ [c].
Proof.
  intros Hr Hp. destruct p as [|x p] using rev_ind.
  - cbn in Hp. congruence.
  - exists x. unfold parent in Hp. rewrite removelast_last in Hp. now subst.
Qed.

Section Confine.
  Variable g : storage_guards.
  Hypothesis Hkp : g_key_parent g = true.
  Hypothesis Hfp : g_file_parent g = true.
  Hypothesis Hdv : g_delete_validates g = true.
  Variable rs : path -> str -> res path.
  Variable rroot : path -> res path.
  Variable ex : path -> bool.

  Lemma key_to_path_child root key kp r : r <> [] -> rroot root = Ok r ->
    key_to_path g rs rroot root key = Ok kp -> exists c, kp = r ++ [c].
  Proof.
    intros Hr Hrr E. unfold key_to_path in E.
    destruct (g_empty g && _); [discriminate|]. destruct (negb (key_chars_ok g key)); [discriminate|].
    destruct (rs root key) as [kp'|e]; [|discriminate]. rewrite Hrr, Hkp in E. cbn [andb] in E.
    destruct (path_eqb (parent kp') r) eqn:Ep; cbn [negb] in E; [|discriminate]. injection E as <-.
    apply path_eqb_eq in Ep. now apply parent_child.
  Qed.

  (* every effect of every operation acts on root'/c or on root'/c/f, for one component c fixed per call,
     where root' is the resolved storage directory *)
  Definition confined (r : path) (effs : list effect) : Prop :=
    exists c, forall e, In e effs ->
      match e with
      | OpenE p _ => exists f, p = r ++ [c; f]
      | StatE p | MkdirE p | RmtreeE p => p = r ++ [c]
      end.

  Theorem exists_confined root key r : r <> [] -> rroot root = Ok r ->
    confined r (fst (op_exists g rs rroot root key)).
  Proof.
    intros Hr Hrr. unfold op_exists. destruct (key_to_path g rs rroot root key) as [kp|e] eqn:E; cbn [fst].
    - destruct (key_to_path_child root key kp r Hr Hrr E) as [c ->]. exists c. intros e [<-|[]]. reflexivity.
    - exists []. intros e0 [].
  Qed.

  Theorem file_handle_confined root key filename mode r : r <> [] -> rroot root = Ok r ->
    confined r (fst (op_file_handle g rs rroot root key filename mode)).
  Proof.
    intros Hr Hrr. unfold op_file_handle. destruct (key_to_path g rs rroot root key) as [kp|e] eqn:E; cbn [fst].
    - destruct (key_to_path_child root key kp r Hr Hrr E) as [c ->]. exists c.
      destruct (rs (r ++ [c]) filename) as [fp|e]; cbn [fst].
      + rewrite Hfp. cbn [andb]. destruct (path_eqb (parent fp) (r ++ [c])) eqn:Ep; cbn [negb fst].
        * apply path_eqb_eq in Ep. destruct (parent_child fp (r ++ [c])) as [f ->]; [now destruct r|exact Ep|].
          intros e0 [<-|[<-|[]]]; [reflexivity|]. exists f. now rewrite <- app_assoc.
        * intros e0 [<-|[]]. reflexivity.
      + intros e0 [<-|[]]. reflexivity.
    - exists []. intros e0 [].
  Qed.

  Theorem delete_confined root key r : r <> [] -> rroot root = Ok r ->
    confined r (fst (op_delete g rs rroot ex root key)).
  Proof.
    intros Hr Hrr. unfold op_delete. rewrite Hdv.
    destruct (key_to_path g rs rroot root key) as [kp|e] eqn:E; cbn [fst].
    - destruct (key_to_path_child root key kp r Hr Hrr E) as [c ->]. exists c.
      intros e0 [<-|He]; [reflexivity|]. destruct (ex (r ++ [c])); [destruct He as [<-|[]]; reflexivity|destruct He].
    - exists []. intros e0 [].
  Qed.

  (* a key that is empty or contains a forbidden character is rejected before any filesystem access *)
  Theorem bad_key_rejected root key : g_empty g = true ->
    (key = [] \/ exists ch, In ch key /\ In ch (g_chars g)) ->
    key_to_path g rs rroot root key = Err StorageErr.
  Proof.
    intros He [->|(ch & Hk & Hc)]; unfold key_to_path; rewrite He; cbn [andb]; [reflexivity|].
    destruct key as [|x key]; [destruct Hk|]. cbn match.
    assert (Hb : key_chars_ok g (x :: key) = false).
    { unfold key_chars_ok. apply negb_false_iff. apply existsb_exists. exists ch. split; [exact Hk|].
      apply existsb_exists. exists ch. split; [exact Hc|apply N.eqb_refl]. }
    now rewrite Hb.
  Qed.
End Confine.

(* Without the filename guard the statement is false: an absolute filename escapes. *)
Theorem file_guard_needed : exists g rs rroot root key filename mode r,
  g_key_parent g = true /\ g_file_parent g = false /\ r <> [] /\ rroot root = Ok r /\
  ~ confined r (fst (op_file_handle g rs rroot root key filename mode)).
Proof.
  exists {| g_empty := true; g_chars := []; g_key_parent := true; g_file_parent := false; g_delete_validates := true |},
         (fun base name => if path_eqb base [[1%N]] then Ok [[1%N]; [2%N]] else Ok [[9%N]]),
         (fun _ => Ok [[1%N]]), [[1%N]], [2%N], [3%N], [4%N], [[1%N]].
  repeat split; try discriminate. intros [c H]. cbn in H.
  pose proof (H (MkdirE [[1%N]; [2%N]]) (or_introl eq_refl)) as H1.
  pose proof (H (OpenE [[9%N]] [4%N]) (or_intror (or_introl eq_refl))) as [f H2]. discriminate.
Qed.

(* keys made of a prefix, a class name and a digest contain no forbidden character (C07: every key of a
   module-level task type is accepted) *)
Theorem clean_key_accepted g rs rroot root key r c :
  key <> [] -> (forall ch, In ch key -> ~ In ch (g_chars g)) ->
  rs root key = Ok (r ++ [c]) -> rroot root = Ok r ->
  key_to_path g rs rroot root key = Ok (r ++ [c]).
Proof.
  intros Hne Hch Hrs Hrr. unfold key_to_path.
  destruct key as [|x key]; [congruence|]. rewrite andb_false_r.
  assert (Hok : key_chars_ok g (x :: key) = true).
  { unfold key_chars_ok. apply negb_true_iff. destruct (existsb _ (x :: key)) eqn:E; [|reflexivity].
    apply existsb_exists in E. destruct E as (ch & Hin & E). apply existsb_exists in E. destruct E as (d & Hd & E).
    apply N.eqb_eq in E. subst d. exfalso. apply (Hch ch Hin Hd). }
  rewrite Hok, Hrs, Hrr. cbn [negb]. unfold parent. rewrite removelast_last.
  assert (Hp : path_eqb r r = true) by now apply path_eqb_eq. rewrite Hp. cbn [negb]. now rewrite andb_false_r.
Qed.
