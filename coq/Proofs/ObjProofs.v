(* ObjProofs.v — the walk over task objects visits exactly the objects reachable from the requested objects without passing
   through a task served from the cache; its quotient by "denotes the same task" is the task-level plan; completing a task
   marks every visited instance of it and nothing else (C03). *)
Require Import LT.Model.Base LT.Model.Sched LT.Model.ObjPlan LT.Proofs.BaseLemmas LT.Proofs.PlanProofs.

Lemma list_eqb_nat_eq : forall a b, list_eqb Nat.eqb a b = true -> a = b.
Proof.
  induction a as [|x a IH]; intros [|y b] H; cbn in H; try discriminate; [reflexivity|].
  apply andb_true_iff in H. destruct H as [Hx Hr]. apply Nat.eqb_eq in Hx. subst y. f_equal. now apply IH.
Qed.

Lemma has_map_const (l : list nat) (v : val) o : has (map (fun x => (x, v)) l) o = mem o l.
Proof.
  induction l as [|x l IH]; [reflexivity|]. unfold has in *. cbn [map lookup fst snd mem existsb].
  destruct (Nat.eqb o x) eqn:E; [reflexivity|]. cbn [orb]. exact IH.
Qed.

Lemma mem_filter_seq f n o : mem o (filter f (seq 0 n)) = f o && (o <? n).
Proof.
  destruct (mem o (filter f (seq 0 n))) eqn:E.
  - apply mem_In in E. apply filter_In in E. destruct E as [Hs Hf]. apply in_seq in Hs. rewrite Hf.
    symmetry. apply andb_true_iff. split; [reflexivity|]. apply Nat.ltb_lt. lia.
  - apply mem_false in E. destruct (f o) eqn:Ef; [|reflexivity]. destruct (Nat.ltb_spec o n) as [Hlt|Hge]; [|reflexivity].
    exfalso. apply E. apply filter_In. split; [apply in_seq; lia|exact Ef].
Qed.

Section Obj.
  Variable c : cfg.
  Variable g : ograph.
  Hypothesis Hwf : wf c.
  Hypothesis Hden : denotes c g = true.
  Let oc := obj_cfg c g.

  Lemma den_parts :
    map (cls_of g) (oreq g) = req c /\
    (forall o, o < nobj g -> dedup (map (cls_of g) (kids_of g o)) = deps_of c (cls_of g o)) /\
    (forall o k, In k (kids_of g o) -> k < o) /\
    (forall o, In o (oreq g) -> o < nobj g).
  Proof.
    unfold denotes in Hden. rewrite !andb_true_iff in Hden. destruct Hden as [[[[H1 H2] H3] H4] H5].
    rewrite forallb_forall in H2, H3, H4. apply Nat.eqb_eq in H5. split; [|split; [|split]].
    - now apply list_eqb_nat_eq.
    - intros o Ho. apply list_eqb_nat_eq. apply H2. apply in_seq. lia.
    - intros o k Hk. destruct (Nat.lt_ge_cases o (nobj g)) as [Hlt|Hge].
      + specialize (H3 o ltac:(apply in_seq; lia)). rewrite forallb_forall in H3. apply Nat.ltb_lt. now apply H3.
      + unfold kids_of in Hk. rewrite nth_overflow in Hk by lia. destruct Hk.
    - intros o Ho. apply Nat.ltb_lt. now apply H4.
  Qed.

  Lemma wf_oc : wf oc.
  Proof.
    destruct den_parts as (_ & _ & Hk & Hr). split; [|split].
    - intros t d Hd. apply (Hk t d). exact Hd.
    - intros t d Hd. exact Hd.
    - intros t Ht. apply (Hr t). exact Ht.
  Qed.

  (* an object is served from the cache exactly when its task is *)
  Lemma use_cache_obj o : o < nobj g -> use_cache_in oc (pre oc) o = use_cache_in c (pre c) (cls_of g o).
  Proof.
    intros Ho. unfold use_cache_in. cbn [oc obj_cfg bust pre]. f_equal.
    rewrite has_map_const, mem_filter_seq. apply Nat.ltb_lt in Ho. rewrite Ho. apply andb_true_r.
  Qed.

  Lemma pdeps_obj o d : o < nobj g ->
    (In d (pdeps_of c (cls_of g o)) <-> exists k, In k (pdeps_of oc o) /\ cls_of g k = d).
  Proof.
    intros Ho. destruct den_parts as (_ & Hd & _ & _). unfold pdeps_of. rewrite (use_cache_obj o Ho).
    destruct (use_cache_in c (pre c) (cls_of g o)).
    - split; [intros []|intros (k & [] & _)].
    - rewrite <- (Hd o Ho). rewrite In_dedup, in_map_iff. unfold deps_of. cbn [oc obj_cfg deps]. fold (kids_of g o).
      split; intros (k & A & B); exists k; auto.
  Qed.

  Lemma needed_obj_lt o : Needed oc o -> o < nobj g.
  Proof.
    intros H. apply (proj2 (proj2 (proj2 (proj2 (plan_spec oc wf_oc))))).
    now apply (proj1 (proj2 (proj2 (proj2 (plan_spec oc wf_oc))))).
  Qed.

  (* the walk over objects, seen through "denotes", is the walk over tasks *)
  Lemma needed_down o : Needed oc o -> Needed c (cls_of g o).
  Proof.
    induction 1 as [o Ho|o k Hn IH Hk].
    - apply Needed_req. destruct den_parts as (Hr & _). rewrite <- Hr. apply in_map. exact Ho.
    - eapply Needed_dep; [exact IH|]. apply (pdeps_obj o (cls_of g k) (needed_obj_lt o Hn)). exists k. auto.
  Qed.
  Lemma needed_up t : Needed c t -> exists o, Needed oc o /\ cls_of g o = t.
  Proof.
    induction 1 as [t Ht|t d Hn (o & Ho & Hc) Hd].
    - destruct den_parts as (Hr & _). rewrite <- Hr in Ht. apply in_map_iff in Ht. destruct Ht as (o & Hc & Ho).
      exists o. split; [now apply Needed_req|exact Hc].
    - subst t. apply (pdeps_obj o d (needed_obj_lt o Ho)) in Hd. destruct Hd as (k & Hk & Hc).
      exists k. split; [eapply Needed_dep; eauto|exact Hc].
  Qed.

  Theorem oplan_spec :
    NoDup (oplan c g) /\ (forall o, In o (oplan c g) <-> Needed oc o).
  Proof.
    pose proof (plan_spec oc wf_oc) as (A & _ & _ & B & _). split; [exact A|exact B].
  Qed.

  (* the tasks of the task-level plan are exactly the tasks denoted by the visited objects *)
  Theorem oplan_classes t : In t (plan c) <-> exists o, In o (oplan c g) /\ cls_of g o = t.
  Proof.
    pose proof (plan_spec c Hwf) as (_ & _ & _ & B & _). rewrite B. split.
    - intros H. destruct (needed_up t H) as (o & Ho & Hc). exists o. split; [now apply oplan_spec|exact Hc].
    - intros (o & Ho & <-). apply needed_down. now apply oplan_spec.
  Qed.

  (* completing the tasks in ok marks every visited instance of them — each once — and nothing else *)
  Theorem marked_spec ok o : In o (marked c g ok) <-> Needed oc o /\ In (cls_of g o) ok.
  Proof.
    unfold marked. rewrite filter_In, (proj2 oplan_spec o), mem_In. tauto.
  Qed.
  Theorem marked_NoDup ok : NoDup (marked c g ok).
  Proof. unfold marked. apply NoDup_filter. exact (proj1 oplan_spec). Qed.
  Theorem instances_spec t o : In o (instances c g t) <-> Needed oc o /\ cls_of g o = t.
  Proof. unfold instances. rewrite filter_In, (proj2 oplan_spec o), Nat.eqb_eq. tauto. Qed.
End Obj.

(* ---- marks with values, across several run_tasks calls on the same objects *)
Lemma apply_run_length m g marks r : List.length (apply_run m g marks r) = nobj g.
Proof. unfold apply_run. now rewrite map_length, seq_length. Qed.

Lemma apply_run_nth m g marks r o : o < nobj g ->
  nth_error (apply_run m g marks r) o =
  Some (if mem o (marked (r_cfg r) g (r_ok r)) then mark_obj m (nth o marks None) (r_meta r (cls_of g o)) else nth o marks None).
Proof.
  intros Ho. unfold apply_run. rewrite nth_error_map.
  rewrite (nth_error_nth' (seq 0 (nobj g)) 0) by (now rewrite seq_length).
  rewrite seq_nth by exact Ho. reflexivity.
Qed.

(* with unconditional marking: after any history of calls, every instance the last call completed carries the outcome of the last
   call — whatever it carried before — and every other object carries what it carried before that call *)
Theorem last_run_marks g marks rs r o : o < nobj g ->
  nth_error (apply_runs MarkAlways g marks (rs ++ [r])) o =
  Some (if mem o (marked (r_cfg r) g (r_ok r)) then Some (r_meta r (cls_of g o)) else nth o (apply_runs MarkAlways g marks rs) None).
Proof.
  intros Ho. unfold apply_runs. rewrite fold_left_app. cbn [fold_left].
  rewrite apply_run_nth by exact Ho. destruct (mem o _); reflexivity.
Qed.

(* marking only what is not marked yet: an object that is completed again keeps the outcome of its first completion *)
Theorem mark_if_unset_refuted : exists g marks r1 r2 o,
  o < nobj g /\ mem o (marked (r_cfg r2) g (r_ok r2)) = true /\
  nth_error (apply_runs MarkIfUnset g marks [r1; r2]) o <> Some (Some (r_meta r2 (cls_of g o))).
Proof.
  pose (c := {| ntasks := 1; deps := [[]]; reads := [[]]; behs := []; ty := []; maxpar := []; cacheable := []; req := [0]; pre := []; bust := true; cont := true |}).
  exists {| nobj := 1; ocls := [0]; okids := [[]]; oreq := [0] |}, [None],
         {| r_cfg := c; r_ok := [0]; r_meta := fun _ => 1 |}, {| r_cfg := c; r_ok := [0]; r_meta := fun _ => 2 |}, 0.
  split; [cbn [nobj]; lia|]. split; [vm_compute; reflexivity|]. vm_compute. discriminate.
Qed.
