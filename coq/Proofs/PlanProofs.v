(* PlanProofs.v — the planner computes exactly the tasks that are needed (C03), without duplicates. *)
Require Import LT.Model.Base LT.Model.Sched LT.Proofs.BaseLemmas.

Definition wf (c : cfg) : Prop :=
  (forall t d, In d (deps_of c t) -> d < t) /\
  (forall t d, In d (reads_of c t) -> In d (deps_of c t)) /\
  (forall t, In t (req c) -> t < ntasks c).

Lemma nth_oob {A} (l : list A) t d : length l <= t -> nth t l d = d.
Proof. apply nth_overflow. Qed.

Lemma wfb_wf c : wfb c = true -> wf c.
Proof.
  unfold wfb. rewrite !andb_true_iff, !forallb_forall, !Nat.eqb_eq.
  intros [[[[H1 H2] _] H3] H4]. split; [|split].
  - intros t d Hd. destruct (Nat.lt_ge_cases t (ntasks c)) as [Hlt|Hge].
    + specialize (H1 t). rewrite in_seq in H1. specialize (H1 ltac:(lia)).
      apply andb_true_iff in H1. destruct H1 as [H1 _].
      rewrite forallb_forall in H1. apply Nat.ltb_lt. now apply H1.
    + unfold deps_of in Hd. rewrite nth_overflow in Hd by lia. destruct Hd.
  - intros t d Hd. destruct (Nat.lt_ge_cases t (ntasks c)) as [Hlt|Hge].
    + specialize (H1 t). rewrite in_seq in H1. specialize (H1 ltac:(lia)).
      apply andb_true_iff in H1. destruct H1 as [_ H1]. unfold subset in H1.
      rewrite forallb_forall in H1. apply mem_In. now apply H1.
    + unfold reads_of in Hd. rewrite nth_overflow in Hd by lia. destruct Hd.
  - intros t Ht. apply Nat.ltb_lt. now apply H2.
Qed.

Lemma pdeps_sub c t d : In d (pdeps_of c t) -> In d (deps_of c t).
Proof. unfold pdeps_of. destruct (use_cache_in c (pre c) t); [intros []|auto]. Qed.
Lemma pdeps_lt c t d : wf c -> In d (pdeps_of c t) -> d < t.
Proof. intros [H _] Hd. apply H. now apply pdeps_sub. Qed.

(* d is reachable from w through recorded dependencies *)
Inductive RF (c : cfg) : nat -> nat -> Prop :=
| RF_refl w : RF c w w
| RF_step w t d : RF c w t -> In d (pdeps_of c t) -> RF c w d.

Lemma RF_trans c a b : RF c a b -> forall d, RF c b d -> RF c a d.
Proof.
  intros Hab d Hbd. induction Hbd as [w|w t d Hwt IH Hd]; [exact Hab|].
  eapply RF_step; [apply IH; exact Hab|exact Hd].
Qed.
Lemma RF_le c w x : wf c -> RF c w x -> x <= w.
Proof. intros Hwf H. induction H; [lia|]. pose proof (pdeps_lt c t d Hwf H0). lia. Qed.

(* The property-level notion: what a run is allowed (and obliged) to touch. *)
Inductive Needed (c : cfg) : nat -> Prop :=
| Needed_req t : In t (req c) -> Needed c t
| Needed_dep t d : Needed c t -> In d (pdeps_of c t) -> Needed c d.

Lemma Needed_RF c x : Needed c x <-> exists w, In w (req c) /\ RF c w x.
Proof.
  split.
  - induction 1 as [t Ht|t d Hn [w [Hw Hr]] Hd].
    + exists t. split; [exact Ht|constructor].
    + exists w. split; [exact Hw|]. eapply RF_step; eauto.
  - intros [w [Hw Hr]]. induction Hr; [now constructor|]. eapply Needed_dep; eauto.
Qed.

Lemma plan_loop_spec c : wf c -> forall fuel wave visited,
  NoDup visited ->
  (forall t, In t wave -> t < fuel) ->
  (forall v d, In v visited -> In d (pdeps_of c v) -> In d visited \/ In d wave) ->
  NoDup (plan_loop c fuel wave visited) /\
  (forall x, In x visited -> In x (plan_loop c fuel wave visited)) /\
  (forall x, In x wave -> In x (plan_loop c fuel wave visited)) /\
  (forall v d, In v (plan_loop c fuel wave visited) -> In d (pdeps_of c v) ->
               In d (plan_loop c fuel wave visited)) /\
  (forall x, In x (plan_loop c fuel wave visited) ->
             In x visited \/ exists w, In w wave /\ RF c w x).
Proof.
  intros Hwf. induction fuel as [|f IH]; intros wave visited Hnd Hb Hcl.
  - assert (Hw : wave = []). { destruct wave as [|a w]; [reflexivity|]. specialize (Hb a (or_introl eq_refl)). lia. }
    subst wave. cbn [plan_loop]. repeat split; auto.
    + intros x [].
    + intros v d Hv Hd. destruct (Hcl v d Hv Hd) as [H|[]]. exact H.
  - cbn [plan_loop]. set (new := dedup (filter (fun t => negb (mem t visited)) wave)).
    assert (Hnew : forall x, In x new <-> In x wave /\ ~ In x visited).
    { intros x. unfold new. rewrite In_dedup, filter_In, negb_true_iff, mem_false. tauto. }
    destruct new as [|n l] eqn:En.
    + assert (Hwv : forall x, In x wave -> In x visited).
      { intros x Hx. destruct (mem x visited) eqn:Em; [now apply mem_In|].
        apply mem_false in Em. assert (In x []) by (apply Hnew; auto). contradiction. }
      repeat split; auto.
      * intros v d Hv Hd. destruct (Hcl v d Hv Hd); auto.
    + rewrite <- En in *. clear En n l.
      assert (Hnd' : NoDup (visited ++ new)).
      { apply NoDup_app_intro; [exact Hnd|apply NoDup_dedup|]. intros x Hx Hn. apply Hnew in Hn. tauto. }
      assert (Hb' : forall t, In t (flat_map (pdeps_of c) new) -> t < f).
      { intros t Ht. apply in_flat_map in Ht. destruct Ht as (u & Hu & Hd). apply Hnew in Hu.
        pose proof (Hb u (proj1 Hu)). pose proof (pdeps_lt c u t Hwf Hd). lia. }
      assert (Hcl' : forall v d, In v (visited ++ new) -> In d (pdeps_of c v) ->
                                 In d (visited ++ new) \/ In d (flat_map (pdeps_of c) new)).
      { intros v d Hv Hd. apply in_app_or in Hv. destruct Hv as [Hv|Hv].
        - destruct (Hcl v d Hv Hd) as [H|H]; [left; apply in_or_app; now left|].
          destruct (mem d visited) eqn:Em.
          + apply mem_In in Em. left. apply in_or_app. now left.
          + apply mem_false in Em. left. apply in_or_app. right. apply Hnew. tauto.
        - right. apply in_flat_map. exists v. tauto. }
      destruct (IH _ _ Hnd' Hb' Hcl') as (R1 & R2 & R3 & R4 & R5).
      split; [exact R1|]. split; [|split; [|split; [exact R4|]]].
      * intros x Hx. apply R2. apply in_or_app. now left.
      * intros x Hx. apply R2. destruct (mem x visited) eqn:Em.
        -- apply mem_In in Em. apply in_or_app. now left.
        -- apply mem_false in Em. apply in_or_app. right. apply Hnew. tauto.
      * intros x Hx. destruct (R5 x Hx) as [H|(w & Hw & Hr)].
        -- apply in_app_or in H. destruct H as [H|H]; [now left|]. right. exists x.
           split; [apply Hnew in H; tauto|constructor].
        -- right. apply in_flat_map in Hw. destruct Hw as (u & Hu & Hd). exists u.
           split; [apply Hnew in Hu; tauto|]. eapply RF_trans; [|exact Hr].
           eapply RF_step; [constructor|exact Hd].
Qed.

Theorem plan_spec c : wf c ->
  NoDup (plan c) /\
  (forall t, In t (req c) -> In t (plan c)) /\
  (forall v d, In v (plan c) -> In d (pdeps_of c v) -> In d (plan c)) /\
  (forall x, In x (plan c) <-> Needed c x) /\
  (forall x, In x (plan c) -> x < ntasks c).
Proof.
  intros Hwf. unfold plan.
  destruct (plan_loop_spec c Hwf (S (ntasks c)) (req c) []) as (R1 & R2 & R3 & R4 & R5).
  - constructor.
  - intros t Ht. destruct Hwf as (_ & _ & H). specialize (H t Ht). lia.
  - intros v d [].
  - assert (Hn : forall x, In x (plan_loop c (S (ntasks c)) (req c) []) -> Needed c x).
    { intros x Hx. destruct (R5 x Hx) as [[]|H]. now apply Needed_RF. }
    repeat split; auto.
    + intros Hx. induction Hx as [t Ht|t d Hn' IHn Hd]; [now apply R3|]. eapply R4; eauto.
    + intros x Hx. apply Hn in Hx. apply Needed_RF in Hx. destruct Hx as (w & Hw & Hr).
      pose proof (RF_le c w x Hwf Hr) as Hle. destruct Hwf as (_ & _ & Hq). specialize (Hq w Hw). lia.
Qed.
