(* DiagramTextProofs.v — what the lines of the diagram text contain: one class line per type of the structure, its parameter
   lines and run line, one arrow line per relationship (C20, the text itself). *)
Require Import LT.Model.Values LT.Model.Diagram LT.Model.DiagramText LT.Proofs.DiagramProofs LT.Proofs.EqProofs.

Definition class_of (l : line) : option str := match l with LClass A => Some A | _ => None end.
Definition arrow_of (l : line) : option (str * bool * str * str) := match l with LArrow A m B p => Some (A, m, B, p) | _ => None end.

Fixpoint pick {A B} (f : A -> option B) (l : list A) : list B :=
  match l with
  | [] => []
  | x :: r => match f x with Some y => y :: pick f r | None => pick f r end
  end.
Lemma pick_app {A B} (f : A -> option B) a b : pick f (a ++ b) = pick f a ++ pick f b.
Proof. induction a as [|x a IH]; [reflexivity|]. cbn [app pick]. destruct (f x); cbn [app]; now rewrite IH. Qed.
Lemma pick_none {A B} (f : A -> option B) l : (forall x, In x l -> f x = None) -> pick f l = [].
Proof. induction l as [|x l IH]; intros H; [reflexivity|]. cbn [pick]. rewrite (H x (or_introl eq_refl)). apply IH. intros y Hy. apply H. now right. Qed.

Section Text.
  Variable info : str -> tinfo.
  Notation name := (fun A => ti_name (info A)).

  Lemma pick_join {B} (f : line -> option B) bs : f LBlank = None ->
    pick f (join_blocks bs) = flat_map (pick f) bs.
  Proof.
    intros Hb. induction bs as [|b bs IH]; [cbn; now rewrite Hb|].
    destruct bs as [|b' bs']; [cbn [join_blocks flat_map]; now rewrite app_nil_r|].
    change (join_blocks (b :: b' :: bs')) with (b ++ LBlank :: join_blocks (b' :: bs')).
    rewrite pick_app. cbn [pick]. rewrite Hb, IH. reflexivity.
  Qed.

  Lemma class_of_block A : pick class_of (class_block info A) = [name A].
  Proof.
    unfold class_block. cbn [pick class_of]. f_equal. rewrite pick_app. cbn [pick class_of]. rewrite app_nil_r.
    apply pick_none. intros x Hx. apply in_map_iff in Hx. destruct Hx as (f & <- & _). reflexivity.
  Qed.
  Lemma class_of_arrows e : pick class_of (arrows_of info e) = [].
  Proof. apply pick_none. intros x Hx. unfold arrows_of in Hx. apply in_map_iff in Hx. destruct Hx as (r & <- & _). reflexivity. Qed.
  Lemma arrow_of_block A : pick arrow_of (class_block info A) = [].
  Proof.
    apply pick_none. intros x Hx. unfold class_block in Hx. destruct Hx as [<-|Hx]; [reflexivity|].
    apply in_app_iff in Hx. destruct Hx as [Hx|[<-|[]]]; [|reflexivity]. apply in_map_iff in Hx. destruct Hx as (f & <- & _). reflexivity.
  Qed.
  Lemma arrow_of_arrows e :
    pick arrow_of (arrows_of info e) = map (fun r => (name (fst e), snd r, name (snd (fst r)), fst (fst r))) (snd e).
  Proof. unfold arrows_of. induction (snd e) as [|r l IH]; [reflexivity|]. cbn [map pick arrow_of]. now rewrite IH. Qed.

  Lemma flat_map_nil {A B} (f : A -> list B) l : (forall x, In x l -> f x = []) -> flat_map f l = [].
  Proof. induction l as [|x l IH]; intros H; [reflexivity|]. cbn [flat_map]. rewrite (H x (or_introl eq_refl)). apply IH. intros y Hy. apply H. now right. Qed.

  (* the class lines of the text: the types of the structure, in order — one block each *)
  Theorem text_class_lines dir ts : pick class_of (render info dir ts) = map name (map fst ts).
  Proof.
    unfold render. cbn [pick class_of]. rewrite !pick_app. cbn [pick class_of app].
    rewrite !pick_join by reflexivity. rewrite (flat_map_nil (pick class_of) (map (arrows_of info) _)).
    - rewrite app_nil_r. induction (map fst ts) as [|A l IH]; [reflexivity|]. cbn [map flat_map]. now rewrite class_of_block, IH.
    - intros x Hx. apply in_map_iff in Hx. destruct Hx as (e & <- & _). apply class_of_arrows.
  Qed.

  (* the arrow lines of the text: the relationships of the structure, type by type *)
  Theorem text_arrow_lines dir ts :
    pick arrow_of (render info dir ts) =
    flat_map (fun e => map (fun r => (name (fst e), snd r, name (snd (fst r)), fst (fst r))) (snd e)) ts.
  Proof.
    unfold render. cbn [pick arrow_of]. rewrite !pick_app. cbn [pick arrow_of app].
    rewrite !pick_join by reflexivity. rewrite (flat_map_nil (pick arrow_of) (map (class_block info) _)).
    - cbn [app]. induction ts as [|[A r] ts IH]; [reflexivity|]. cbn [filter flat_map]. unfold has_rels at 1. cbn [fst snd].
      destruct r as [|r0 l].
      + cbn [map app]. exact IH.
      + cbn [map flat_map]. rewrite arrow_of_arrows, IH. reflexivity.
    - intros x Hx. apply in_map_iff in Hx. destruct Hx as (A & <- & _). apply arrow_of_block.
  Qed.

  (* every block lists all parameters of its type and the run signature *)
  Theorem text_block_complete dir ts A : In A (map fst ts) ->
    In (LRun (name A) (ti_run (info A))) (render info dir ts) /\
    forall f, In f (ti_fields (info A)) -> In (LField (name A) (fst f) (snd f)) (render info dir ts).
  Proof.
    intros HA.
    assert (Hblock : forall x, In x (class_block info A) -> In x (render info dir ts)).
    { intros x Hx. unfold render. right. right. right. apply in_or_app. left.
      assert (Hj : forall bs b, In b bs -> In x b -> In x (join_blocks bs)).
      { induction bs as [|b0 bs IH]; intros b Hb Hxb; [destruct Hb|].
        destruct bs as [|b1 bs']; [destruct Hb as [<-|[]]; exact Hxb|].
        change (join_blocks (b0 :: b1 :: bs')) with (b0 ++ LBlank :: join_blocks (b1 :: bs')). apply in_or_app.
        destruct Hb as [<-|Hb]; [now left|]. right. right. now apply (IH b). }
      apply (Hj _ (class_block info A)); [apply in_map; exact HA|exact Hx]. }
    split.
    - apply Hblock. unfold class_block. right. apply in_or_app. right. now left.
    - intros f Hf. apply Hblock. unfold class_block. right. apply in_or_app. left. apply in_map_iff. exists f. auto.
  Qed.
End Text.

(* membership in the relationship list of a well-formed structure = the structure's lookup *)
Lemma rlookup_In r k m : rlookup r k = Some m -> In (k, m) r.
Proof.
  induction r as [|[k' m'] r IH]; cbn [rlookup]; [discriminate|]. destruct (relkey_eqb k k') eqn:E.
  - apply relkey_eqb_eq in E. subst k'. intros [= ->]. now left.
  - intros H. right. now apply IH.
Qed.
Lemma In_rlookup r k m : NoDup (map fst r) -> In (k, m) r -> rlookup r k = Some m.
Proof.
  induction r as [|[k' m'] r IH]; intros Hnd Hin; [destruct Hin|]. cbn [map fst] in Hnd. inversion Hnd as [|? ? Hni Hnd']; subst.
  cbn [rlookup]. destruct Hin as [[= -> ->]|Hin]; [now rewrite relkey_eqb_refl|].
  destruct (relkey_eqb k k') eqn:E; [|now apply IH]. apply relkey_eqb_eq in E. subst k'. exfalso. apply Hni. apply in_map_iff. exists (k, m). auto.
Qed.

Theorem arrows_are_sem ts : well ts -> forall A p B m,
  In (A, (p, B), m) (flat_map (fun e => map (fun r => (fst e, fst r, snd r)) (snd e)) ts) <-> sem ts A (p, B) = Some m.
Proof.
  intros [W1 W2] A p B m. unfold sem. rewrite in_flat_map. split.
  - intros ([A' r] & Hin & Hr). cbn [fst snd] in Hr. apply in_map_iff in Hr. destruct Hr as ([k m'] & [= <- <- <-] & Hk).
    rewrite (In_alookup ts A' r W1 Hin). apply In_rlookup; [|exact Hk]. apply (W2 A' r). apply In_alookup; assumption.
  - destruct (alookup ts A) as [r|] eqn:E; [|discriminate]. intros Hl. exists (A, r). split; [now apply alookup_In|].
    cbn [fst snd]. apply in_map_iff. exists ((p, B), m). split; [reflexivity|now apply rlookup_In].
Qed.

(* exactly one arrow per (dependent type, parameter, dependency type) *)
Lemma nodup_app_disj {A} (a b : list A) : NoDup a -> NoDup b -> (forall x, In x a -> ~ In x b) -> NoDup (a ++ b).
Proof.
  induction a as [|x a IH]; intros Ha Hb Hd; [exact Hb|]. inversion Ha as [|? ? Hni Ha']; subst. cbn [app]. constructor.
  - intros Hin. apply in_app_iff in Hin. destruct Hin as [Hin|Hin]; [now apply Hni|]. apply (Hd x); [now left|exact Hin].
  - apply IH; [exact Ha'|exact Hb|]. intros y Hy. apply Hd. now right.
Qed.
Theorem arrow_keys_NoDup ts : well ts ->
  NoDup (flat_map (fun e => map (fun r => (fst e, fst r)) (snd e)) ts).
Proof.
  intros [W1 W2].
  assert (W2' : forall A r, In (A, r) ts -> NoDup (map fst r)).
  { intros A r Hin. apply (W2 A r). now apply In_alookup. }
  clear W2. induction ts as [|[A r] ts IH]; [constructor|]. cbn [map fst] in W1. inversion W1 as [|? ? Hni W1']; subst.
  cbn [flat_map fst snd]. apply nodup_app_disj.
  - specialize (W2' A r (or_introl eq_refl)). clear -W2'. induction r as [|[k m] r IHr]; [constructor|].
    cbn [map fst] in *. inversion W2' as [|? ? Hn Hr]; subst. constructor; [|now apply IHr].
    intros Hin. apply in_map_iff in Hin. destruct Hin as ([k' m'] & [= <-] & Hk). apply Hn. apply in_map_iff. exists (k', m'). auto.
  - apply IH; [exact W1'|]. intros A' r' Hin. apply (W2' A' r'). now right.
  - intros [A' k] Hx Hy. apply in_map_iff in Hx. destruct Hx as (r0 & [= <- <-] & _).
    apply in_flat_map in Hy. destruct Hy as ([A'' r''] & Hin & Hm). cbn [fst snd] in Hm. apply in_map_iff in Hm. destruct Hm as (r1 & [= -> _] & _).
    apply Hni. apply in_map_iff. exists (A, r''). auto.
Qed.

Lemma build_well tasks : well (build tasks).
Proof. unfold build. exact (proj1 (fold_tasks_spec (trav (total_size tasks) tasks) [] well_nil)). Qed.

(* the text of the diagram of any list of tasks, end to end *)
Theorem text_of_build info dir tasks :
  let ts := build tasks in
  let arrows := flat_map (fun e => map (fun r => (fst e, fst r, snd r)) (snd e)) ts in
  (* class lines: the reachable task types, each once *)
  pick class_of (render info dir ts) = map (fun A => ti_name (info A)) (map fst ts) /\
  NoDup (map fst ts) /\ (forall A, In A (map fst ts) <-> exists t, ReachD tasks t /\ task_type t = A) /\
  (* every block is complete *)
  (forall A, In A (map fst ts) -> In (LRun (ti_name (info A)) (ti_run (info A))) (render info dir ts) /\
     forall f, In f (ti_fields (info A)) -> In (LField (ti_name (info A)) (fst f) (snd f)) (render info dir ts)) /\
  (* arrow lines: one per relationship of the structure, marked as the structure says *)
  pick arrow_of (render info dir ts) =
    map (fun a => (ti_name (info (fst (fst a))), snd a, ti_name (info (snd (snd (fst a)))), fst (snd (fst a)))) arrows /\
  NoDup (map fst arrows) /\
  (forall A p B m, In (A, (p, B), m) arrows <-> sem ts A (p, B) = Some m).
Proof.
  cbv zeta. pose proof (build_well tasks) as W. destruct (build_types tasks) as [T1 T2].
  split; [apply text_class_lines|]. split; [exact T1|]. split; [exact T2|]. split; [intros A HA; now apply text_block_complete|].
  split.
  - rewrite text_arrow_lines. generalize (build tasks). intros ts. induction ts as [|[A r] ts IH]; [reflexivity|].
    cbn [flat_map fst snd]. rewrite map_app, IH. f_equal. rewrite map_map. reflexivity.
  - split.
    + replace (map fst (flat_map (fun e => map (fun r => (fst e, fst r, snd r)) (snd e)) (build tasks)))
        with (flat_map (fun e : str * rels => map (fun r => (fst e, fst r)) (snd e)) (build tasks)); [now apply arrow_keys_NoDup|].
      generalize (build tasks). intros ts. induction ts as [|[A r] ts IH]; [reflexivity|].
      cbn [flat_map fst snd]. rewrite map_app, <- IH. f_equal. rewrite map_map. reflexivity.
    + now apply arrows_are_sem.
Qed.
