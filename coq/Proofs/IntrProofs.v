(* IntrProofs.v — once a KeyboardInterrupt has been delivered, the interruptible coordinator ends with
   KeyboardInterrupt: never a normal return, never a LabError, never the KeyError of a re-yielded task (C14). *)
Require Import LT.Model.Base LT.Model.Sched LT.Model.Intr LT.Proofs.BaseLemmas.

(* ------------------------------------------------------------------ the invariant *)
(* futures known to the executor are distinct tasks that are active (started, not completed) and no longer pending *)
Definition Inv3 (f : list (nat * fstat * bool)) (act pend : list nat) : Prop :=
  NoDup (map tid_of f) /\ forall p, In p f -> In (tid_of p) act /\ ~ In (tid_of p) pend.
Definition WInv (w : world) : Prop := Inv3 (f2t w) (active (ws w)) (pending (ws w)) /\ NoDup (pending (ws w)).

(* outcome of a computation started in a state satisfying the invariant: the invariant still holds and the
   exception, if any, is not KeyErr; on normal termination an extra postcondition may hold *)
Definition hoare {A} (Pre : world -> Prop) (m : M A) (Post : A -> world -> Prop) : Prop :=
  forall w, Pre w -> WInv w ->
    match m w with
    | (inl a, w') => WInv w' /\ Post a w'
    | (inr e, w') => WInv w' /\ e <> KeyErr
    end.
Definition TT {A} : A -> world -> Prop := fun _ _ => True.
Definition Tw : world -> Prop := fun _ => True.

Lemma hoare_ret {A} (a : A) (Pre : world -> Prop) : hoare Pre (ret a) (fun x w => x = a /\ Pre w).
Proof. intros w HP HI. cbn. auto. Qed.

Lemma hoare_bind {A B} (Pre : world -> Prop) (m : M A) (f : A -> M B) Mid Post :
  hoare Pre m Mid -> (forall a, hoare (Mid a) (f a) Post) -> hoare Pre (bind m f) Post.
Proof.
  intros Hm Hf w HP HI. unfold bind. specialize (Hm w HP HI). destruct (m w) as [[a|e] w'].
  - destruct Hm as [HI' HM]. apply (Hf a w' HM HI').
  - exact Hm.
Qed.

Lemma hoare_weaken {A} (Pre Pre' : world -> Prop) (m : M A) (Post Post' : A -> world -> Prop) :
  (forall w, Pre' w -> WInv w -> Pre w) -> (forall a w, Post a w -> WInv w -> Post' a w) -> hoare Pre m Post -> hoare Pre' m Post'.
Proof.
  intros H1 H2 Hm w HP HI. specialize (Hm w (H1 w HP HI) HI). destruct (m w) as [[a|e] w']; [|exact Hm].
  destruct Hm; split; auto.
Qed.

Lemma hoare_raise {A} (e : exn) Pre (Post : A -> world -> Prop) : e <> KeyErr -> hoare Pre (raise e) Post.
Proof. intros He w HP HI. cbn. auto. Qed.

Lemma hoare_get Pre : hoare Pre get (fun a w => a = w /\ Pre w).
Proof. intros w HP HI. cbn. auto. Qed.

Lemma hoare_modify (Pre Post : world -> Prop) (f : world -> world) :
  (forall w, Pre w -> WInv w -> WInv (f w) /\ Post (f w)) -> hoare Pre (modify f) (fun _ w => Post w).
Proof. intros H w HP HI. cbn. now apply H. Qed.

Lemma tick_fields w r w' : tick w = (r, w') -> ws w' = ws w /\ f2t w' = f2t w /\ maxw_ w' = maxw_ w /\ oracle w' = oracle w.
Proof.
  unfold tick. destruct (budget w) as [[|k]|]; intros [= <- <-]; cbn; repeat split.
Qed.

(* a tick preserves every property of (coordinator state, futures) *)
Lemma hoare_tick (Pre : world -> Prop) :
  (forall w w', ws w' = ws w -> f2t w' = f2t w -> Pre w -> Pre w') -> hoare Pre tick (fun _ w => Pre w).
Proof.
  intros Hst w HP HI. destruct (tick w) as [r w'] eqn:E. destruct (tick_fields w r w' E) as (A & B & _).
  assert (HI' : WInv w') by (unfold WInv; now rewrite A, B).
  destruct r as [[]|e].
  - split; [exact HI'|]. eapply Hst; eauto.
  - split; [exact HI'|]. unfold tick in E. destruct (budget w) as [[|k]|]; inversion E; discriminate.
Qed.

Lemma hoare_try_catch {A} Pre (m : M A) (h : exn -> M A) Post :
  hoare Pre m Post -> (forall e, e <> KeyErr -> hoare Tw (h e) Post) -> hoare Pre (try_catch m h) Post.
Proof.
  intros Hm Hh w HP HI. unfold try_catch. specialize (Hm w HP HI). destruct (m w) as [[a|e] w']; [exact Hm|].
  destruct Hm as [HI' He]. apply (Hh e He w' I HI').
Qed.

(* loops over a list, with a loop invariant on the part still to do *)
Lemma hoare_for_each {A} (J : list A -> world -> Prop) (f : A -> M unit) : forall l,
  (forall x rest, hoare (J (x :: rest)) (f x) (fun _ w => J rest w)) ->
  hoare (J l) (for_each l f) (fun _ w => J [] w).
Proof.
  induction l as [|x l IH]; intros Hf; cbn [for_each].
  - intros w HP HI. cbn. auto.
  - eapply hoare_bind; [apply Hf|]. intros ?u. now apply IH.
Qed.

(* ------------------------------------------------------------------ invariant preservation of the primitive updates *)
Lemma Inv3_sub f f' act pend : (forall p, In p f' -> In p f) -> NoDup (map tid_of f') -> Inv3 f act pend -> Inv3 f' act pend.
Proof. intros Hs Hn [_ H]. split; [exact Hn|]. intros p Hp. apply H. now apply Hs. Qed.

Lemma NoDup_map_filter {A} (g : A -> nat) (q : A -> bool) l : NoDup (map g l) -> NoDup (map g (filter q l)).
Proof.
  induction l as [|a l IH]; cbn [map filter]; intros H; [constructor|].
  inversion H as [|? ? Hn Hd]; subst. destruct (q a); cbn [map]; [|now apply IH].
  constructor; [|now apply IH]. intro F. apply Hn. apply in_map_iff in F. destruct F as (x & E & Hx).
  apply filter_In in Hx. apply in_map_iff. exists x. tauto.
Qed.

Lemma Inv3_filter f q act pend : Inv3 f act pend -> Inv3 (filter q f) act pend.
Proof.
  intros H. eapply Inv3_sub; [|apply NoDup_map_filter; apply H|exact H]. intros p Hp. apply filter_In in Hp. tauto.
Qed.

(* status / registration changes keep the task ids *)
Lemma Inv3_map_same f g act pend : (forall p, tid_of (g p) = tid_of p) -> Inv3 f act pend -> Inv3 (map g f) act pend.
Proof.
  intros Hg [Hn H]. split.
  - rewrite map_map. erewrite map_ext; [exact Hn|]. intros p. apply Hg.
  - intros p Hp. apply in_map_iff in Hp. destruct Hp as (q & <- & Hq). rewrite Hg. now apply H.
Qed.

Lemma start_more_tids free : forall l, map tid_of (start_more free l) = map tid_of l.
Proof.
  intros l. revert free. induction l as [|[[t s] r] l IH]; intros free; cbn [start_more map]; [reflexivity|].
  destruct s; cbn [map tid_of fst]; try (now rewrite IH).
  destruct free; cbn [map tid_of fst]; [reflexivity|]. now rewrite IH.
Qed.
Lemma start_more_In free : forall l p, In p (start_more free l) -> exists q, In q l /\ tid_of q = tid_of p.
Proof.
  intros l. revert free. induction l as [|[[t s] r] l IH]; intros free p Hp; cbn [start_more] in Hp; [destruct Hp|].
  assert (Hrec : forall fr, In p ((t, s, r) :: start_more fr l) -> exists q, In q ((t, s, r) :: l) /\ tid_of q = tid_of p).
  { intros fr [<-|H]; [exists (t, s, r); split; [now left|reflexivity]|].
    destruct (IH fr p H) as (q & Hq & E). exists q. split; [now right|exact E]. }
  destruct s; try (apply (Hrec free); exact Hp).
  destruct free; [exists p; split; [exact Hp|reflexivity]|].
  destruct Hp as [<-|H]; [exists (t, FQueued, r); split; [now left|reflexivity]|].
  destruct (IH free p H) as (q & Hq & E). exists q. split; [now right|exact E].
Qed.
Lemma Inv3_start_more free f act pend : Inv3 f act pend -> Inv3 (start_more free f) act pend.
Proof.
  intros [Hn H]. split; [now rewrite start_more_tids|]. intros p Hp.
  destruct (start_more_In free f p Hp) as (q & Hq & E). rewrite <- E. now apply H.
Qed.

Lemma WInv_restart w : WInv w -> WInv (restart w).
Proof. unfold WInv, restart, set_f2t. cbn [f2t ws]. intros [H1 H2]. split; [now apply Inv3_start_more|exact H2]. Qed.

Lemma WInv_ws_same w s : active s = active (ws w) -> pending s = pending (ws w) -> WInv w -> WInv (set_ws w s).
Proof. unfold WInv, set_ws. cbn [f2t ws]. intros -> ->. auto. Qed.

Lemma fold_finish_worker_inv c l : forall w, WInv w -> WInv (fold_left (finish_worker c) l w) /\
  ws (fold_left (finish_worker c) l w) = ws w /\ map tid_of (f2t (fold_left (finish_worker c) l w)) = map tid_of (f2t w).
Proof.
  induction l as [|t l IH]; intros w HI; cbn [fold_left]; [auto|].
  assert (Hg : forall p : nat * fstat * bool, tid_of (if Nat.eqb (tid_of p) t
              then match stat_of p with FRunning => (tid_of p, FDone (exec c (ws w) t), registered p) | _ => p end else p) = tid_of p).
  { intros p. destruct (Nat.eqb (tid_of p) t); [|reflexivity]. destruct (stat_of p); reflexivity. }
  assert (H1 : WInv (finish_worker c w t)).
  { unfold WInv, finish_worker, set_f2t in *. cbn [f2t ws]. destruct HI as [HI Hpn]. split; [apply Inv3_map_same; [exact Hg|exact HI]|exact Hpn]. }
  destruct (IH _ H1) as (A & B & C). split; [exact A|]. split.
  - rewrite B. reflexivity.
  - rewrite C. unfold finish_worker, set_f2t. cbn [f2t]. rewrite map_map. apply map_ext. exact Hg.
Qed.

Section Safety.
  Variable P : iparams.
  Variable c : cfg.
  Hypothesis Hpop : ip_gen P = PopFirst.

  (* ---------------------------------------------------------------- submit *)
  Lemma hoare_submit_one t (Pre : world -> Prop) :
    (forall w w', pending (ws w') = remove1 t (pending (ws w)) \/ pending (ws w') = pending (ws w) -> Pre w -> Pre w') ->
    hoare (fun w => Pre w /\ In t (pending (ws w))) (submit_one c t)
          (fun _ w => exists w0, Pre w0 /\ (pending (ws w) = remove1 t (pending (ws w0))) ).
  Proof.
    intros Hmono. unfold submit_one.
    (* tick *)
    eapply hoare_bind.
    { apply (hoare_tick (fun w => Pre w /\ In t (pending (ws w)))). intros w w' E1 E2 [A B]. split; [|now rewrite E1].
      eapply Hmono; [right; now rewrite E1|exact A]. }
    intros ?u.
    (* start *)
    eapply hoare_bind.
    { apply (hoare_modify _ (fun w' => (exists w0, Pre w0 /\ pending (ws w') = remove1 t (pending (ws w0))) /\
                                      In t (active (ws w')) /\ ~ In t (map tid_of (f2t w')))).
      intros w [HP Ht] HI. unfold WInv, set_ws in *. cbn [f2t ws start pending active]. destruct HI as [[Hn H] Hpn]. split.
      - split; [|now apply NoDup_remove1]. split; [exact Hn|]. intros p Hp. destruct (H p Hp) as [A B]. split; [apply in_or_app; now left|].
        rewrite In_remove1. tauto.
      - split; [exists w; auto|]. split; [apply in_or_app; right; now left|].
        intros F. apply in_map_iff in F. destruct F as (p & E & Hp). destruct (H p Hp) as [_ B]. rewrite E in B. contradiction. }
    intros ?u.
    (* tick *)
    eapply hoare_bind.
    { apply hoare_tick. intros w w' E1 E2 (A & B & C). rewrite E1, E2. auto. }
    intros ?u.
    (* executor.submit *)
    eapply hoare_bind.
    { apply (hoare_modify _ (fun w' => exists w0, Pre w0 /\ pending (ws w') = remove1 t (pending (ws w0)))).
      intros w ((w0 & HP & Ep) & Ha & Hnf) HI. split.
      - apply WInv_restart. unfold WInv, set_f2t in *. cbn [f2t ws]. destruct HI as [[Hn H] Hpn]. split; [|exact Hpn]. split.
        + rewrite map_app. cbn [map tid_of fst]. apply NoDup_app_intro; [exact Hn|constructor; [intros []|constructor]|].
          intros x Hx [<-|[]]. contradiction.
        + intros p Hp. apply in_app_or in Hp. destruct Hp as [Hp|[<-|[]]]; [now apply H|]. cbn [tid_of fst]. split; [exact Ha|].
          rewrite Ep. rewrite In_remove1. tauto.
      - exists w0. split; [exact HP|]. unfold restart, set_f2t. cbn [ws]. exact Ep. }
    intros ?u.
    (* tick *)
    eapply hoare_bind.
    { apply hoare_tick. intros w w' E1 E2 (w0 & A & B). exists w0. rewrite E1. auto. }
    intros ?u.
    (* register *)
    apply hoare_modify. intros w (w0 & HP & Ep) HI. split; [|exists w0; unfold set_f2t; cbn [ws]; auto].
    unfold WInv, set_f2t in *. cbn [f2t ws]. destruct HI as [HI Hpn]. split; [|exact Hpn]. apply Inv3_map_same; [|exact HI].
    intros p. destruct (Nat.eqb (tid_of p) t); reflexivity.
  Qed.

  Lemma hoare_submit_all l : NoDup l ->
    hoare (fun w => forall t, In t l -> In t (pending (ws w))) (for_each l (submit_one c)) TT.
  Proof.
    intros Hnd. eapply hoare_weaken; [| |apply (hoare_for_each (fun rest w => NoDup rest /\ forall t, In t rest -> In t (pending (ws w))))].
    - intros w H _. split; [exact Hnd|exact H].
    - intros a w _ _. exact I.
    - intros x rest. eapply hoare_weaken; [| |apply (hoare_submit_one x (fun w => NoDup (x :: rest) /\ forall t, In t rest -> In t (pending (ws w))))].
      + intros w [Hn H] _. split; [split; [exact Hn|]|apply H; now left]. intros t Ht. apply H. now right.
      + intros _ w (w0 & [Hn H] & Ep) _. inversion Hn as [|? ? Hx Hn']; subst. split; [exact Hn'|].
        intros t Ht. rewrite Ep. apply In_remove1. split; [now apply H|]. intros ->. contradiction.
      + intros w w' Hp [Hn H]. split; [exact Hn|]. intros t Ht. inversion Hn as [|? ? Hx Hn']; subst.
        destruct Hp as [Hp|Hp]; rewrite Hp; [|now apply H]. apply In_remove1. split; [now apply H|]. intros ->. contradiction.
  Qed.

  (* ---------------------------------------------------------------- consuming one yielded task *)
  (* the consumer does not touch the futures; the task it completes is active, so complete_task's KeyError is impossible *)
  Lemma hoare_consume_one t r F :
    hoare (fun w => In t (active (ws w)) /\ ~ In t (map tid_of F) /\ f2t w = F) (consume_one P c t r) (fun _ w => f2t w = F).
  Proof.
    unfold consume_one.
    eapply hoare_bind.
    { apply (hoare_modify _ (fun w => In t (active (ws w)) /\ ~ In t (map tid_of F) /\ f2t w = F)).
      intros w (Ha & Hn & Hf) HI. destruct r as [v|].
      - destruct (mem t (req c)).
        + split; [apply WInv_ws_same; auto|]. unfold set_ws. cbn [ws f2t active]. auto.
        + split; [exact HI|auto].
      - split; [exact HI|auto]. }
    intros ?u.
    eapply hoare_bind.
    { apply hoare_tick. intros w w' E1 E2 (A & B & C). rewrite E1, E2. auto. }
    intros ?u.
    eapply hoare_bind; [apply hoare_get|]. intros w0.
    eapply hoare_bind.
    { instantiate (1 := fun _ w => In t (active (ws w)) /\ ~ In t (map tid_of F) /\ f2t w = F).
      intros w [-> (Ha & Hn & Hf)] HI. apply mem_In in Ha. rewrite Ha. cbn. apply mem_In in Ha. auto. }
    intros ?u.
    eapply hoare_bind.
    { apply (hoare_modify _ (fun w => f2t w = F)). intros w (Ha & Hn & Hf) HI. split; [|unfold set_ws; cbn [f2t]; exact Hf].
      unfold WInv, set_ws in *. cbn [f2t ws active pending]. destruct HI as [[Hnd H] Hpn]. split; [|exact Hpn]. split; [exact Hnd|].
      intros p Hp. destruct (H p Hp) as [A B]. split; [|exact B]. apply In_remove1. split; [exact A|].
      intros E. apply Hn. rewrite <- Hf. apply in_map_iff. exists p. auto. }
    intros ?u.
    eapply hoare_bind.
    { instantiate (1 := fun _ w => f2t w = F). destruct r as [v|].
      - eapply hoare_weaken; [| |apply hoare_ret]; [intros w H _; exact H|intros a w [_ H] _; exact H].
      - destruct (cont c).
        + eapply hoare_weaken; [| |apply hoare_ret]; [intros w H _; exact H|intros a w [_ H] _; exact H].
        + apply hoare_raise. discriminate. }
    intros ?u.
    eapply hoare_bind; [apply (hoare_tick (fun w => f2t w = F)); intros w w' _ E H; now rewrite E|]. intros ?u.
    eapply hoare_bind.
    { apply (hoare_modify _ (fun w => f2t w = F)). intros w Hf HI. split; [apply WInv_ws_same; auto|unfold set_ws; cbn [f2t]; exact Hf]. }
    intros ?u. apply (hoare_tick (fun w => f2t w = F)). intros w w' _ E H. now rewrite E.
  Qed.

  (* ---------------------------------------------------------------- one wait() with its consumer *)
  Definition loopJ (rest : list (nat * fstat * bool)) (w : world) : Prop :=
    NoDup (map tid_of rest) /\ forall p, In p rest -> In (tid_of p) (map tid_of (f2t w)).

  Lemma hoare_done_step p rest :
    hoare (loopJ (p :: rest))
          (modify (fun w => set_f2t w (filter (fun q => negb (Nat.eqb (tid_of q) (tid_of p))) (f2t w))) ;;;
           match stat_of p with
           | FCancelled => ret tt
           | FDone r =>
             tick ;;;
             modify (fun w => let s := ws w in
                              set_ws w {| needed := needed s; pending := pending s; active := active s; finished := finished s;
                                          failed := failed s;
                                          rmap := match r with Some v => (tid_of p, v) :: rmap s | None => rmap s end;
                                          results := results s; store := store s; hist := EFinish (tid_of p) r :: hist s |}) ;;;
             consume_one P c (tid_of p) r
           | _ => ret tt
           end)
          (fun _ w => loopJ rest w).
  Proof.
    set (Mid := fun w => In (tid_of p) (active (ws w)) /\ ~ In (tid_of p) (map tid_of (f2t w)) /\ loopJ rest w).
    eapply hoare_bind.
    { apply (hoare_modify _ Mid). intros w [Hn H] HI. unfold set_f2t, WInv, Mid, loopJ in *. cbn [f2t ws].
      inversion Hn as [|? ? Hx Hn']; subst. destruct HI as [HI Hpn]. split; [split; [now apply Inv3_filter|exact Hpn]|].
      assert (Hin : In (tid_of p) (map tid_of (f2t w))) by (apply H; now left).
      apply in_map_iff in Hin. destruct Hin as (q & Eq & Hq). destruct HI as [Hnd HH]. destruct (HH q Hq) as [Ha _].
      rewrite Eq in Ha. split; [exact Ha|]. split; [|split; [exact Hn'|]].
      - intro F. apply in_map_iff in F. destruct F as (x & E & Hxx). apply filter_In in Hxx. destruct Hxx as [_ Hxx].
        rewrite E, Nat.eqb_refl in Hxx. discriminate.
      - intros x Hxr. assert (Hxin : In (tid_of x) (map tid_of (f2t w))) by (apply H; now right).
        apply in_map_iff in Hxin. destruct Hxin as (y & Ey & Hy). apply in_map_iff. exists y. split; [exact Ey|].
        apply filter_In. split; [exact Hy|]. apply negb_true_iff, Nat.eqb_neq. rewrite Ey. intros E.
        apply Hx. apply in_map_iff. exists x. auto. }
    intros ?u.
    destruct (stat_of p) as [| |r|];
      try (eapply hoare_weaken; [| |apply hoare_ret]; [intros w H _; exact H|intros a w [_ (_ & _ & A)] _; exact A]).
    eapply hoare_bind.
    { apply hoare_tick. intros w w' E1 E2 (A & B & C & D). unfold Mid, loopJ. rewrite E1, E2. auto. }
    intros ?u.
    eapply hoare_bind.
    { apply (hoare_modify _ Mid). intros w (A & B & C) HI. split; [apply WInv_ws_same; auto|]. unfold Mid, loopJ, set_ws in *. cbn [ws f2t active]. auto. }
    intros ?u.
    intros w (A & B & C) HI.
    pose proof (hoare_consume_one (tid_of p) r (f2t w) w (conj A (conj B eq_refl)) HI) as Hc.
    destruct (consume_one P c (tid_of p) r w) as [[a|e] w']; [|exact Hc].
    destruct Hc as [HI' Ef]. split; [exact HI'|]. unfold loopJ in *. rewrite Ef. exact C.
  Qed.

  Lemma hoare_wait_and_process : hoare Tw (wait_and_process P c) TT.
  Proof.
    unfold wait_and_process.
    eapply hoare_bind; [apply (hoare_tick Tw); auto|]. intros ?u.
    eapply hoare_bind.
    { instantiate (1 := TT). intros w _ HI. unfold next_batch. destruct (oracle w); cbn; split; auto; exact I. }
    intros ob.
    eapply hoare_bind.
    { instantiate (1 := TT). destruct ob; [intros w _ HI; cbn; split; [exact HI|exact I]|]. apply hoare_raise. discriminate. }
    intros completing.
    eapply hoare_bind.
    { apply (hoare_modify _ Tw). intros w _ HI. split; [|exact I]. apply WInv_restart. now apply fold_finish_worker_inv. }
    intros ?u.
    eapply hoare_bind; [apply hoare_get|]. intros w0. cbn beta.
    eapply hoare_bind.
    { eapply hoare_weaken; [| |apply (hoare_for_each loopJ)].
      - intros w [-> _] HI. unfold loopJ. split.
        + apply NoDup_map_filter. apply HI.
        + intros p Hp. apply filter_In in Hp. apply in_map. tauto.
      - intros a w _ _. exact I.
      - intros p rest. rewrite Hpop. apply hoare_done_step. }
    intros ?u. rewrite Hpop. eapply hoare_weaken; [| |apply hoare_ret]; [intros w H _; exact H|intros; exact I].
  Qed.

  Lemma hoare_cancel : hoare Tw do_cancel TT.
  Proof.
    unfold do_cancel. eapply hoare_bind; [apply (hoare_tick Tw); auto|]. intros ?u.
    apply (hoare_modify _ Tw). intros w _ HI. split; [|exact I]. unfold WInv, set_f2t in *. cbn [f2t ws].
    destruct HI as [HI Hpn]. split; [|exact Hpn]. apply Inv3_map_same; [|exact HI]. intros p. destruct (stat_of p); reflexivity.
  Qed.
  Lemma hoare_stop : hoare Tw do_stop TT.
  Proof.
    unfold do_stop. eapply hoare_bind; [apply (hoare_tick Tw); auto|]. intros ?u.
    apply (hoare_modify _ Tw). intros w _ HI. split; [|exact I]. unfold WInv in *. cbn [f2t ws].
    destruct HI as [HI Hpn]. split; [|exact Hpn]. apply Inv3_map_same; [|exact HI]. intros p. destruct (stat_of p); reflexivity.
  Qed.
End Safety.

(* ------------------------------------------------------------------ the loops *)
Require Import LT.Proofs.SchedInv.

Section Loops.
  Variable P : iparams.
  Variable c : cfg.
  Hypothesis Hpop : ip_gen P = PopFirst.

  Lemma hoare_main_loop fuel : hoare Tw (main_loop P c fuel) TT.
  Proof.
    induction fuel as [|f IH]; cbn [main_loop].
    - intros w _ HI. cbn. split; [exact HI|exact I].
    - eapply hoare_bind; [apply hoare_get|]. intros w0.
      destruct (negb (loop_cond w0)); [intros w _ HI; cbn; split; [exact HI|exact I]|].
      intros w [-> _] HI.
      assert (Hnd : NoDup (get_ready (ip P) c (ws w))).
      { unfold get_ready. apply ready_loop_NoDup; [apply HI|constructor|intros x []]. }
      assert (Hsub : forall t, In t (get_ready (ip P) c (ws w)) -> In t (pending (ws w))).
      { intros t Ht. unfold get_ready in Ht. apply ready_loop_sub in Ht. destruct Ht as [[]|Ht]. exact Ht. }
      refine (hoare_bind _ _ _ TT TT (hoare_submit_all c _ Hnd) _ w Hsub HI).
      intros ?u. apply (hoare_bind _ _ _ TT TT).
      + eapply hoare_weaken; [| |apply (hoare_wait_and_process P c Hpop)]; [intros; exact I|intros; exact I].
      + intros ?u. eapply hoare_weaken; [| |exact IH]; [intros; exact I|intros; exact I].
  Qed.

  Lemma hoare_drain_loop fuel : hoare Tw (drain_loop P c fuel) TT.
  Proof.
    induction fuel as [|f IH]; cbn [drain_loop].
    - intros w _ HI. cbn. split; [exact HI|exact I].
    - eapply hoare_bind; [apply hoare_get|]. intros w0.
      destruct (negb (existsb registered (f2t w0))); [intros w _ HI; cbn; split; [exact HI|exact I]|].
      apply (hoare_bind _ _ _ TT TT).
      + eapply hoare_weaken; [| |apply (hoare_try_catch Tw _ _ TT (hoare_wait_and_process P c Hpop))];
          [intros; exact I|intros; exact I|].
        intros e He. destruct e; try (apply hoare_raise; discriminate); try contradiction.
        destruct (ip_drain_swallows P); [intros w _ HI; cbn; split; [exact HI|exact I]|apply hoare_raise; discriminate].
      + intros ?u. eapply hoare_weaken; [| |exact IH]; [intros; exact I|intros; exact I].
  Qed.
End Loops.

(* ------------------------------------------------------------------ interrupts are only delivered by ticks *)
Definition fired_ok {A} (m : M A) : Prop :=
  forall w, match m w with (inr KI, _) => True | (_, w') => fired w' = fired w end.

Lemma fired_ok_ret {A} (a : A) : fired_ok (ret a).
Proof. intros w. reflexivity. Qed.
Lemma fired_ok_raise {A} e : fired_ok (@raise A e).
Proof. intros w. cbn. destruct e; reflexivity. Qed.
Lemma fired_ok_get : fired_ok get.
Proof. intros w. reflexivity. Qed.
Lemma fired_ok_bind {A B} (m : M A) (f : A -> M B) : fired_ok m -> (forall a, fired_ok (f a)) -> fired_ok (bind m f).
Proof.
  intros Hm Hf w. unfold bind. specialize (Hm w). destruct (m w) as [[a|e] w1].
  - specialize (Hf a w1). destruct (f a w1) as [[b|e] w2]; [congruence|]. destruct e; congruence.
  - exact Hm.
Qed.
Lemma fired_ok_tick : fired_ok tick.
Proof. intros w. unfold tick. destruct (budget w) as [[|k]|]; cbn; auto. Qed.
Lemma fired_ok_modify f : (forall w, fired (f w) = fired w) -> fired_ok (modify f).
Proof. intros H w. cbn. apply H. Qed.
Lemma fired_ok_for_each {A} (f : A -> M unit) l : (forall x, fired_ok (f x)) -> fired_ok (for_each l f).
Proof.
  intros Hf. induction l as [|x l IH]; cbn [for_each]; [apply fired_ok_ret|]. apply fired_ok_bind; [apply Hf|]. intros _. exact IH.
Qed.

Lemma fired_restart w : fired (restart w) = fired w.
Proof. reflexivity. Qed.
Lemma fired_fold_finish c l : forall w, fired (fold_left (finish_worker c) l w) = fired w.
Proof. induction l as [|t l IH]; intros w; cbn [fold_left]; [reflexivity|]. now rewrite IH. Qed.

Ltac fo :=
  repeat first
    [ apply fired_ok_bind; [|intros ?]
    | apply fired_ok_tick | apply fired_ok_get | apply fired_ok_ret | apply fired_ok_raise
    | apply fired_ok_modify; intros ?w; reflexivity ].

Lemma fired_ok_submit_one c t : fired_ok (submit_one c t).
Proof. unfold submit_one. fo. Qed.

Lemma fired_ok_consume_one P c t r : fired_ok (consume_one P c t r).
Proof.
  unfold consume_one. fo.
  - apply fired_ok_modify. intros w. destruct r; [destruct (mem t (req c))|]; reflexivity.
  - match goal with |- fired_ok (if ?b then _ else _) => destruct b end; fo.
  - destruct r; [fo|destruct (cont c); fo].
Qed.

Ltac fo2 :=
  repeat first
    [ apply fired_ok_consume_one
    | apply fired_ok_bind; [|intros ?]
    | apply fired_ok_tick | apply fired_ok_get | apply fired_ok_ret | apply fired_ok_raise
    | apply fired_ok_modify; intros ?w; reflexivity ].

Lemma fired_ok_wait P c : fired_ok (wait_and_process P c).
Proof.
  unfold wait_and_process. fo2.
  - intros w. unfold next_batch. destruct (oracle w); reflexivity.
  - match goal with |- fired_ok (match ?o with _ => _ end) => destruct o end; fo.
  - apply fired_ok_modify. intros w. rewrite fired_restart. apply fired_fold_finish.
  - apply fired_ok_for_each. intros p. apply fired_ok_bind; [destruct (ip_gen P); fo|]. intros ?u.
    destruct (stat_of p); fo2.
  - destruct (ip_gen P); fo.
Qed.

Lemma fired_ok_main_loop P c fuel : fired_ok (main_loop P c fuel).
Proof.
  induction fuel as [|f IH]; cbn [main_loop]; [apply fired_ok_ret|].
  apply fired_ok_bind; [apply fired_ok_get|]. intros w0.
  destruct (negb (loop_cond w0)); [apply fired_ok_ret|].
  apply fired_ok_bind; [apply fired_ok_for_each; intros t; apply fired_ok_submit_one|]. intros ?u.
  apply fired_ok_bind; [apply fired_ok_wait|]. intros ?u. exact IH.
Qed.

(* ------------------------------------------------------------------ a swallowed LabError cannot leave the draining code *)
Definition no_lab {A} (m : M A) : Prop := forall w t, fst (m w) <> inr (LabErr t).

Lemma no_lab_bind {A B} (m : M A) (f : A -> M B) : no_lab m -> (forall a, no_lab (f a)) -> no_lab (bind m f).
Proof.
  intros Hm Hf w t. unfold bind. specialize (Hm w t). destruct (m w) as [[a|e] w1]; cbn [fst] in *; [apply Hf|].
  intros E. apply Hm. injection E as ->. reflexivity.
Qed.
Lemma no_lab_tick : no_lab tick.
Proof. intros w t. unfold tick. destruct (budget w) as [[|k]|]; cbn; discriminate. Qed.
Lemma no_lab_modify f : no_lab (modify f).
Proof. intros w t. cbn. discriminate. Qed.
Lemma no_lab_ret {A} (a : A) : no_lab (ret a).
Proof. intros w t. cbn. discriminate. Qed.
Lemma no_lab_get : no_lab get.
Proof. intros w t. cbn. discriminate. Qed.

Definition swallow (b : bool) (e : exn) : M unit :=
  match e with LabErr _ => if b then ret tt else raise e | _ => raise e end.
Lemma no_lab_try_swallow (m : M unit) : no_lab (try_catch m (swallow true)).
Proof.
  intros w t. unfold try_catch. destruct (m w) as [[a|e] w1]; cbn [fst]; [discriminate|].
  destruct e; cbn; discriminate.
Qed.

Lemma no_lab_cancel : no_lab do_cancel.
Proof. unfold do_cancel. apply no_lab_bind; [apply no_lab_tick|]. intros _. apply no_lab_modify. Qed.
Lemma no_lab_stop : no_lab do_stop.
Proof. unfold do_stop. apply no_lab_bind; [apply no_lab_tick|]. intros _. apply no_lab_modify. Qed.

Lemma no_lab_drain P c fuel : ip_drain_swallows P = true -> no_lab (drain_loop P c fuel).
Proof.
  intros Hs. induction fuel as [|f IH]; cbn [drain_loop]; [apply no_lab_ret|].
  apply no_lab_bind; [apply no_lab_get|]. intros w0.
  destruct (negb (existsb registered (f2t w0))); [apply no_lab_ret|].
  apply no_lab_bind; [|intros _; exact IH]. rewrite Hs. apply (no_lab_try_swallow (wait_and_process P c)).
Qed.

(* ------------------------------------------------------------------ C14 *)
Lemma init_WInv c maxw o k1 k2 : NoDup (plan c) -> WInv (init_world c maxw o k1 k2).
Proof.
  intros H. unfold WInv, init_world, init. cbn [f2t ws active pending]. split; [|exact H].
  split; [constructor|]. intros p [].
Qed.

Theorem interrupted_run_raises_KI P c maxw o k1 k2 :
  ip_gen P = PopFirst -> ip_drain_swallows P = true -> ip_stop_swallows P = true -> NoDup (plan c) ->
  let '(out, w) := run_intr P c maxw o k1 k2 in
  1 <= fired w -> out = IRaised KI \/ out = IOutOfOracle.
Proof.
  intros Hpop Hdrain Hstop Hnd. unfold run_intr, irun.
  set (fuel := S (S (List.length o))). set (w0 := init_world c maxw o k1 k2).
  pose proof (init_WInv c maxw o k1 k2 Hnd) as HI0. fold w0 in HI0.
  unfold try_catch at 1.
  set (body := ok <- main_loop P c fuel;; (w <- get;; ret (if ok then final_of P c w else IOutOfOracle))).
  assert (Hfo : fired_ok body).
  { unfold body. apply fired_ok_bind; [apply fired_ok_main_loop|]. intros ok. apply fired_ok_bind; [apply fired_ok_get|]. intros w. apply fired_ok_ret. }
  assert (Hh : hoare Tw body TT).
  { unfold body. eapply hoare_bind; [apply (hoare_main_loop P c Hpop)|]. intros ok.
    eapply hoare_bind; [apply hoare_get|]. intros w. intros w' _ HI. cbn. split; [exact HI|exact I]. }
  specialize (Hfo w0). specialize (Hh w0 I HI0).
  destruct (body w0) as [[out|e] w1].
  - (* the main loop ended without an exception: no interrupt was delivered *)
    intros Hf. exfalso. assert (fired w0 = 0) by reflexivity. lia.
  - destruct Hh as [HI1 Hne]. destruct e as [|t| |].
    + (* first interrupt: cancel, drain *)
      unfold on_interrupt. unfold try_catch at 1.
      set (h1 := do_cancel;;; (ok <- drain_loop P c fuel;; ret (if ok then IRaised KI else IOutOfOracle))).
      assert (Hh1 : hoare Tw h1 TT).
      { unfold h1. apply (hoare_bind _ _ _ TT TT); [apply hoare_cancel|]. intros ?u.
        apply (hoare_bind _ _ _ TT TT); [eapply hoare_weaken; [| |apply (hoare_drain_loop P c Hpop)]; [intros; exact I|intros; exact I]|].
        intros ok w _ HI. cbn. split; [exact HI|exact I]. }
      assert (Hnl1 : no_lab h1).
      { unfold h1. apply no_lab_bind; [apply no_lab_cancel|]. intros _. apply no_lab_bind; [now apply no_lab_drain|]. intros ok. apply no_lab_ret. }
      specialize (Hh1 w1 I HI1). specialize (Hnl1 w1).
      destruct (h1 w1) as [[out|e2] w2] eqn:E1.
      * intros _. unfold h1 in E1. unfold bind in E1. destruct (do_cancel w1) as [[u|e] wa]; [|discriminate].
        destruct (drain_loop P c fuel wa) as [[ok|e] wb]; [|discriminate]. cbn in E1. injection E1 as <- _.
        destruct ok; auto.
      * destruct Hh1 as [HI2 Hne2]. cbn [fst] in Hnl1. destruct e2 as [|t| |]; try (exfalso; congruence).
        -- (* second interrupt: (cancel,) stop, process once, raise *)
           unfold try_catch at 1.
           set (h2 := (if ip_stop_cancels P then do_cancel else ret tt);;; do_stop;;;
                      try_catch (wait_and_process P c) (fun e3 => match e3 with LabErr _ => if ip_stop_swallows P then ret tt else raise e3 | _ => raise e3 end);;;
                      ret (IRaised KI)).
           assert (Hh2 : hoare Tw h2 TT).
           { unfold h2. apply (hoare_bind _ _ _ TT TT).
             { destruct (ip_stop_cancels P); [apply hoare_cancel|intros w _ HI; cbn; split; [exact HI|exact I]]. }
             intros ?u. apply (hoare_bind _ _ _ TT TT); [eapply hoare_weaken; [| |apply hoare_stop]; [intros; exact I|intros; exact I]|]. intros ?u.
             apply (hoare_bind _ _ _ TT TT).
             { eapply hoare_weaken; [| |apply (hoare_try_catch Tw _ _ TT (hoare_wait_and_process P c Hpop))]; [intros; exact I|intros; exact I|].
               intros e He. destruct e; try (apply hoare_raise; discriminate); try contradiction.
               destruct (ip_stop_swallows P); [intros w _ HI; cbn; split; [exact HI|exact I]|apply hoare_raise; discriminate]. }
             intros ?u w _ HI. cbn. split; [exact HI|exact I]. }
           assert (Hnl2 : no_lab h2).
           { unfold h2. apply no_lab_bind; [destruct (ip_stop_cancels P); [apply no_lab_cancel|apply no_lab_ret]|]. intros _.
             apply no_lab_bind; [apply no_lab_stop|]. intros _. apply no_lab_bind; [|intros _; apply no_lab_ret].
             rewrite Hstop. apply (no_lab_try_swallow (wait_and_process P c)). }
           specialize (Hh2 w2 I HI2). specialize (Hnl2 w2).
           destruct (h2 w2) as [[out|e3] w3] eqn:E2.
           ++ intros _. left. unfold h2 in E2. unfold bind in E2.
              destruct ((if ip_stop_cancels P then do_cancel else ret tt) w2) as [[u|e] wa]; [|discriminate].
              destruct (do_stop wa) as [[u2|e] wb]; [|discriminate].
              destruct (try_catch (wait_and_process P c) _ wb) as [[u3|e] wc]; [|discriminate]. cbn in E2. now injection E2 as <- _.
           ++ destruct Hh2 as [_ Hne3]. cbn [fst] in Hnl2. cbn [ret]. intros _.
              destruct e3 as [|t| |]; [left; reflexivity|exfalso; congruence|exfalso; congruence|right; reflexivity].
        -- cbn [ret]. intros _. now right.
    + (* a LabError before any interrupt *)
      cbn [ret]. intros Hf. exfalso. assert (fired w0 = 0) by reflexivity. lia.
    + congruence.
    + cbn [ret]. intros _. now right.
Qed.

(* ------------------------------------------------------------------ each ingredient is needed (witnesses found by evaluating the model) *)
Definition good_sched : params := {| p_cmp := CmpGe; p_dep_guard := true; p_missing := MContinue; p_final := FFilter |}.
Definition two_tasks (k : bool) : cfg :=
  {| ntasks := 2; deps := [[]; []]; reads := [[]; []]; behs := [BOk; BRaise]; ty := [0; 0]; maxpar := [None];
     cacheable := [false]; req := [0; 1]; pre := []; bust := false; cont := k |}.

(* pruning future_to_task only after the whole batch: an interrupt between two yields re-yields a completed task *)
Theorem prune_after_refuted : exists c maxw o k1,
  let '(out, w) := run_intr {| ip := good_sched; ip_gen := PruneAfter; ip_drain_swallows := true; ip_stop_swallows := true;
                               ip_stop_cancels := true |} c maxw o (Some k1) None in
  1 <= fired w /\ out = IRaised KeyErr.
Proof. exists (two_tasks true), 2, [[0; 1]; []; []], 10. vm_compute. split; [lia|reflexivity]. Qed.

(* a draining loop that lets LabError through: the failure replaces the interrupt *)
Theorem drain_not_swallowing_refuted : exists c maxw o k1 t,
  let '(out, w) := run_intr {| ip := good_sched; ip_gen := PopFirst; ip_drain_swallows := false; ip_stop_swallows := true;
                               ip_stop_cancels := true |} c maxw o (Some k1) None in
  1 <= fired w /\ out = IRaised (LabErr t).
Proof. exists (two_tasks false), 2, [[]; [0; 1]; []], 6, 1. vm_compute. split; [lia|reflexivity]. Qed.

Theorem stop_not_swallowing_refuted : exists c maxw o k1 k2 t,
  let '(out, w) := run_intr {| ip := good_sched; ip_gen := PopFirst; ip_drain_swallows := true; ip_stop_swallows := false;
                               ip_stop_cancels := true |} c maxw o (Some k1) (Some k2) in
  2 <= fired w /\ out = IRaised (LabErr t).
Proof. exists (two_tasks false), 2, [[0; 1]; []; []], 6, 2, 1. vm_compute. split; [lia|reflexivity]. Qed.
