(* EqProofs.v — Python-level equality of normalised parameter values (== on tuples, frozendicts — order-insensitive —
   and tasks) is symmetric and transitive, given that scalar == is (C15: "equal to any task built from equal parameters"). *)
Require Import LT.Model.Base LT.Model.Values LT.Proofs.BaseLemmas LT.Proofs.ValuesProofs.

(* every frozendict, at every depth, has pairwise distinct keys (a Python dict cannot hold a key twice) *)
Fixpoint dict_keys_ok (v : value) : bool :=
  match v with
  | VScal _ => true
  | VTuple l => forallb dict_keys_ok l
  | VDict kvs => nodup_str (map fst kvs) && forallb (fun kv => dict_keys_ok (snd kv)) kvs
  | VTask _ fs => forallb (fun kv => dict_keys_ok (snd kv)) fs
  end.

Lemma alookup_In {V} (l : list (str * V)) k v : alookup l k = Some v -> In (k, v) l.
Proof.
  induction l as [|[k' v'] l IH]; cbn [alookup]; [discriminate|].
  destruct (str_eqb k k') eqn:E; [|intros H; right; now apply IH].
  apply str_eqb_eq in E. subst k'. intros [= ->]. now left.
Qed.
Lemma In_alookup {V} (l : list (str * V)) k v : NoDup (map fst l) -> In (k, v) l -> alookup l k = Some v.
Proof.
  induction l as [|[k' v'] l IH]; intros Hnd Hin; [destruct Hin|]. cbn [map fst] in Hnd. inversion Hnd as [|? ? Hni Hnd']; subst.
  cbn [alookup]. destruct Hin as [[= -> ->]|Hin]; [now rewrite str_eqb_refl|].
  destruct (str_eqb k k') eqn:E; [|now apply IH].
  apply str_eqb_eq in E. subst k'. exfalso. apply Hni. apply in_map_iff. exists (k, v). auto.
Qed.

Section Eq.
  Variable seq : scalar -> scalar -> bool.
  Notation veq := (veq seq).

  (* the three inner loops of veq, characterised *)
  Lemma tuple_go_spec (f : value -> value -> bool) : forall xs ys,
    (fix go (xs ys : list value) {struct xs} : bool :=
       match xs, ys with
       | [], [] => true
       | x :: xs', y :: ys' => f x y && go xs' ys'
       | _, _ => false
       end) xs ys = true <-> Forall2 (fun x y => f x y = true) xs ys.
  Proof.
    induction xs as [|x xs IH]; intros [|y ys]; split; intros H; try discriminate; try (inversion H; fail); try constructor.
    - apply andb_true_iff in H. tauto.
    - apply IH. apply andb_true_iff in H. tauto.
    - inversion H; subst. apply andb_true_iff. split; [assumption|]. now apply IH.
  Qed.
  Lemma task_go_spec (f : value -> value -> bool) : forall xs ys,
    (fix go (xs ys : list (str * value)) {struct xs} : bool :=
       match xs, ys with
       | [], [] => true
       | (k, x) :: xs', (k', y) :: ys' => str_eqb k k' && f x y && go xs' ys'
       | _, _ => false
       end) xs ys = true <-> Forall2 (fun kx ky => fst kx = fst ky /\ f (snd kx) (snd ky) = true) xs ys.
  Proof.
    induction xs as [|[k x] xs IH]; intros [|[k' y] ys]; split; intros H; try discriminate; try (inversion H; fail); try constructor.
    - rewrite !andb_true_iff in H. destruct H as [[A B] _]. apply str_eqb_eq in A. cbn. auto.
    - apply IH. rewrite !andb_true_iff in H. tauto.
    - inversion H as [|? ? ? ? [A B] C]; subst. cbn in A, B. rewrite !andb_true_iff. split; [split|]; [now apply str_eqb_eq|exact B|now apply IH].
  Qed.
  Lemma dict_go_spec (f : value -> value -> bool) (ys : list (str * value)) : forall xs,
    (fix go (xs : list (str * value)) {struct xs} : bool :=
       match xs with
       | [] => true
       | (k, x) :: xs' => match alookup ys k with Some y => f x y | None => false end && go xs'
       end) xs = true <-> forall k x, In (k, x) xs -> exists y, alookup ys k = Some y /\ f x y = true.
  Proof.
    induction xs as [|[k x] xs IH]; split; intros H.
    - intros ? ? [].
    - reflexivity.
    - apply andb_true_iff in H. destruct H as [A B]. intros k' x' [[= <- <-]|Hin].
      + destruct (alookup ys k) as [y|]; [exists y; auto|discriminate].
      + now apply (proj1 IH B).
    - apply andb_true_iff. split.
      + destruct (H k x (or_introl eq_refl)) as (y & -> & Hy). exact Hy.
      + apply IH. intros k' x' Hin. apply H. now right.
  Qed.

  Hypothesis seq_sym : forall x y, seq x y = true -> seq y x = true.
  Hypothesis seq_trans : forall x y z, seq x y = true -> seq y z = true -> seq x z = true.

  Lemma forallb_snd_In (p : value -> bool) (l : list (str * value)) k x :
    forallb (fun kv => p (snd kv)) l = true -> In (k, x) l -> p x = true.
  Proof. intros H Hin. rewrite forallb_forall in H. exact (H (k, x) Hin). Qed.

  Theorem veq_sym a : forall b, dict_keys_ok a = true -> dict_keys_ok b = true -> veq a b = true -> veq b a = true.
  Proof.
    induction a as [s|l IH|kvs IH|c fs IH] using value_ind'; intros b Ha Hb H; destruct b as [s'|l'|kvs'|c' fs'];
      cbn [Values.veq] in H; try discriminate; cbn [Values.veq dict_keys_ok] in *.
    - now apply seq_sym.
    - apply tuple_go_spec. apply tuple_go_spec in H. rewrite forallb_forall in Ha, Hb.
      revert l' Hb H. induction IH as [|x l Hx Hl IHl]; intros l' Hb H; inversion H as [|? y ? l2 Hxy Hrest]; subst; constructor.
      + apply Hx; [apply Ha; now left|apply Hb; now left|exact Hxy].
      + apply IHl; [intros z Hz; apply Ha; now right|intros z Hz; apply Hb; now right|exact Hrest].
    - apply andb_true_iff in H. destruct H as [Hlen H]. apply Nat.eqb_eq in Hlen.
      apply andb_true_iff in Ha. destruct Ha as [Hnd Ha]. apply andb_true_iff in Hb. destruct Hb as [Hnd' Hb].
      apply nodup_str_NoDup in Hnd. apply nodup_str_NoDup in Hnd'.
      apply andb_true_iff. split; [apply Nat.eqb_eq; lia|].
      pose proof (proj1 (dict_go_spec _ kvs' kvs) H) as Hfw. apply dict_go_spec.
      (* the keys of kvs all occur in kvs'; both key lists are duplicate-free and equally long, so they are the same set *)
      assert (Hincl : incl (map fst kvs) (map fst kvs')).
      { intros k Hk. apply in_map_iff in Hk. destruct Hk as ([k0 x] & <- & Hin). destruct (Hfw k0 x Hin) as (y & Hy & _).
        apply alookup_In in Hy. apply in_map_iff. exists (k0, y). auto. }
      assert (Hincl' : incl (map fst kvs') (map fst kvs)).
      { apply NoDup_length_incl; [exact Hnd|rewrite !map_length; lia|exact Hincl]. }
      intros k y Hin. assert (Hk : In k (map fst kvs)) by (apply Hincl'; apply in_map_iff; exists (k, y); auto).
      apply in_map_iff in Hk. destruct Hk as ([k0 x] & Hk0 & Hx). cbn [fst] in Hk0. subst k0.
      exists x. split; [now apply In_alookup|].
      destruct (Hfw k x Hx) as (y' & Hy' & Hxy). rewrite (In_alookup kvs' k y Hnd' Hin) in Hy'. injection Hy' as <-.
      rewrite Forall_forall in IH. apply (IH (k, x) Hx); [exact (forallb_snd_In _ _ k x Ha Hx)|exact (forallb_snd_In _ _ k y Hb Hin)|exact Hxy].
    - apply andb_true_iff in H. destruct H as [Hc H]. apply str_eqb_eq in Hc. subst c'. rewrite str_eqb_refl. cbn [andb].
      apply task_go_spec. apply task_go_spec in H. rewrite forallb_forall in Ha, Hb.
      revert fs' Hb H. induction IH as [|[k x] l Hx Hl IHl]; intros fs' Hb H; inversion H as [|? [k' y] ? l2 [Hk Hxy] Hrest]; subst; constructor.
      + cbn [fst snd] in *. split; [now symmetry|]. apply Hx; [apply (Ha (k, x)); now left|apply (Hb (k', y)); now left|exact Hxy].
      + apply IHl; [intros z Hz; apply Ha; now right|intros z Hz; apply Hb; now right|exact Hrest].
  Qed.

  Theorem veq_trans a : forall b d, veq a b = true -> veq b d = true -> veq a d = true.
  Proof.
    induction a as [s|l IH|kvs IH|c fs IH] using value_ind'; intros b d H1 H2; destruct b as [s'|l'|kvs'|c' fs'];
      cbn [Values.veq] in H1; try discriminate; destruct d as [s''|l''|kvs''|c'' fs''];
      cbn [Values.veq] in H2; try discriminate; cbn [Values.veq].
    - eapply seq_trans; eauto.
    - apply tuple_go_spec. apply tuple_go_spec in H1. apply tuple_go_spec in H2.
      revert l' l'' H1 H2. induction IH as [|x l Hx Hl IHl]; intros l' l'' H1 H2; inversion H1 as [|? y ? l2 Hxy Hr1]; subst;
        inversion H2 as [|? z ? l3 Hyz Hr2]; subst; constructor.
      + eapply Hx; eauto.
      + eapply IHl; eauto.
    - apply andb_true_iff in H1. destruct H1 as [Hl1 H1]. apply andb_true_iff in H2. destruct H2 as [Hl2 H2].
      apply Nat.eqb_eq in Hl1. apply Nat.eqb_eq in Hl2. apply andb_true_iff. split; [apply Nat.eqb_eq; lia|].
      pose proof (proj1 (dict_go_spec _ kvs' kvs) H1) as F1. pose proof (proj1 (dict_go_spec _ kvs'' kvs') H2) as F2.
      apply dict_go_spec. intros k x Hin. destruct (F1 k x Hin) as (y & Hy & Hxy).
      destruct (F2 k y (alookup_In _ _ _ Hy)) as (z & Hz & Hyz). exists z. split; [exact Hz|].
      rewrite Forall_forall in IH. exact (IH (k, x) Hin y z Hxy Hyz).
    - apply andb_true_iff in H1. destruct H1 as [Hc1 H1]. apply andb_true_iff in H2. destruct H2 as [Hc2 H2].
      apply str_eqb_eq in Hc1. apply str_eqb_eq in Hc2. subst c' c''. rewrite str_eqb_refl. cbn [andb].
      apply task_go_spec. apply task_go_spec in H1. apply task_go_spec in H2.
      revert fs' fs'' H1 H2. induction IH as [|[k x] l Hx Hl IHl]; intros fs' fs'' H1 H2; inversion H1 as [|? [k' y] ? l2 [Hk Hxy] Hr1]; subst;
        inversion H2 as [|? [k'' z] ? l3 [Hk' Hyz] Hr2]; subst; constructor.
      + cbn [fst snd] in *. split; [congruence|]. eapply Hx; eauto.
      + eapply IHl; eauto.
  Qed.
End Eq.
