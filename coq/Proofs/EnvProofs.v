Require Import LT.Model.Base LT.Model.Env.

Theorem run_place_ok d b : run_place CtorMpContext d b = Some (context_method b).
Proof. destruct b; reflexivity. Qed.

(* with the module-level constructor the spawn backend runs tasks wherever the platform default puts them:
   on Linux (default: fork) in a forked child *)
Theorem run_place_module_default_refuted : run_place CtorModuleDefault ForkedChild Spawn <> Some SpawnedChild.
Proof. discriminate. Qed.

Theorem seen_context_filtered ctx task (f : task -> ctx -> ctx) sites b t c :
  cf_serial sites = true -> cf_fork sites = true -> cf_spawn sites = true ->
  seen_context ctx task f sites b t c = f t c.
Proof. intros H1 H2 H3. unfold seen_context. destruct b; rewrite ?H1, ?H2, ?H3; reflexivity. Qed.

Theorem stored_independent_of_context ctx task (key_of : task -> nat) (entry_of : task -> nat -> nat) b t c c' r :
  stored ctx task key_of entry_of b t c r = stored ctx task key_of entry_of b t c' r.
Proof. reflexivity. Qed.

Theorem handed_is_current ctx (c0 : ctx) ops : forall cur, handed ctx CtxAtRun c0 cur ops = current_at_runs ctx cur ops.
Proof. induction ops as [|[c|] ops IH]; intros cur; cbn [handed current_at_runs]; [reflexivity|apply IH|now rewrite IH]. Qed.

Theorem bound_at_init_refuted : exists (c0 c1 : nat) ops, handed nat CtxAtInit c0 c0 ops <> current_at_runs nat c0 ops.
Proof. exists 1, 2, [LSetContext nat 2; LRun nat]. cbn. discriminate. Qed.
