(* KeyProofs.v — cache keys distinguish distinct tasks (C07), given what is assumed of json.dumps and sha1. *)
Require Import LT.Model.Values LT.Proofs.ValuesProofs.
From Coq Require Import Lia.

Lemma app_eq_len {A} (a : list A) : forall b s1 s2, List.length s1 = List.length s2 -> a ++ s1 = b ++ s2 -> a = b /\ s1 = s2.
Proof.
  induction a as [|x a IH]; intros b s1 s2 Hl E; cbn [app] in E.
  - destruct b as [|y b]; [now split|]. subst s1. cbn [app List.length] in Hl. rewrite app_length in Hl. lia.
  - destruct b as [|y b]; cbn [app] in E.
    + subst s2. cbn [List.length] in Hl. rewrite app_length in Hl. lia.
    + injection E as -> E. destruct (IH b s1 s2 Hl E) as [-> ->]. now split.
Qed.

Section Key.
  Variable dumps : json -> str.
  Variable H : str -> str.
  Hypothesis dumps_inj : forall a b, dumps a = dumps b -> a = b.
  Hypothesis H_len : forall x y, List.length (H x) = List.length (H y).

  Theorem key_injective prefix c1 f1 c2 f2 :
    no_reserved (VTask c1 f1) = true -> no_reserved (VTask c2 f2) = true ->
    (H (dumps (ser (VTask c1 f1))) = H (dumps (ser (VTask c2 f2))) ->
     dumps (ser (VTask c1 f1)) = dumps (ser (VTask c2 f2))) ->
    cache_key dumps H prefix (VTask c1 f1) = cache_key dumps H prefix (VTask c2 f2) ->
    VTask c1 f1 = VTask c2 f2.
  Proof.
    intros N1 N2 Hcol E. unfold cache_key in E. apply app_inv_head in E. rewrite !app_assoc in E.
    apply app_eq_len in E; [|apply H_len]. destruct E as [_ E].
    apply ser_injective; auto.
  Qed.

  (* the key is a function of class and field values only: whatever preserves the value preserves the key *)
  Theorem key_of_copy post_init prefix c fs o' :
    setstate post_init SSReinit (getstate (construct post_init (cache_key dumps H prefix) (VTask c fs))) = Some o' ->
    o_key o' = cache_key dumps H prefix (VTask c fs) /\ cache_key dumps H prefix (o_val o') = cache_key dumps H prefix (VTask c fs).
  Proof. rewrite pickle_copy. intros [= <-]. now split. Qed.

  Theorem key_of_reconstructed e prefix v :
    wf_env e v = true -> no_reserved v = true ->
    option_map (cache_key dumps H prefix) (deser DRecursive e (ser v)) = Some (cache_key dumps H prefix v).
  Proof. intros Hw Hn. now rewrite deser_ser. Qed.

  Theorem key_of_renormalised prefix v :
    option_map (cache_key dumps H prefix) (normalize (embed v)) = Some (cache_key dumps H prefix v).
  Proof. now rewrite normalize_embed. Qed.
End Key.

(* ---- a post_init that rewrites parameters (D12): with the key computed after post_init, the key is the key of the task as
   it ends up, so the task reconstructed from its stored parameters (or built from the canonical spelling) has the same key *)
Theorem key_describes_final (post_init : value -> option value) (keyf : value -> str) (rw : value -> value) (v : value) :
  o_key (construct_rw post_init keyf KeyAfterPostInit rw v) = keyf (o_val (construct_rw post_init keyf KeyAfterPostInit rw v)).
Proof. reflexivity. Qed.

Theorem key_stable_rewrite (post_init : value -> option value) (keyf : value -> str) (rw : value -> value) (v : value) :
  (forall x, rw (rw x) = rw x) ->
  let o := construct_rw post_init keyf KeyAfterPostInit rw v in
  o_key (construct_rw post_init keyf KeyAfterPostInit rw (o_val o)) = o_key o.
Proof. intros Hid. cbn. now rewrite Hid. Qed.

Theorem key_before_post_init_refuted : exists (post_init : value -> option value) (keyf : value -> str) (rw : value -> value) (v : value),
  (forall x, rw (rw x) = rw x) /\
  let o := construct_rw post_init keyf KeyBeforePostInit rw v in
  o_key (construct_rw post_init keyf KeyBeforePostInit rw (o_val o)) <> o_key o.
Proof.
  exists (fun _ => None), (fun v => match v with VTuple [] => [1%N] | _ => [] end), (fun _ => VScal SNone), (VTuple []).
  split; [reflexivity|]. cbn. discriminate.
Qed.
