(* CacheProofs.v — a completed save loads back (C06), a save touches only its own key (C06/C08), a failed save
   leaves nothing that looks cached (C12), where a killed save leaves the entry (C13). *)
Require Import LT.Model.Base LT.Model.Cache LT.Proofs.BaseLemmas.

Lemma get_put_same st k e : get (put st k e) k = Some e.
Proof. unfold get, put. cbn [lookup]. now rewrite Nat.eqb_refl. Qed.
Lemma get_put_other st k k' e : k' <> k -> get (put st k e) k' = get st k'.
Proof.
  intros H. unfold get, put. cbn [lookup]. destruct (Nat.eqb_spec k' k); [congruence|]. now apply lookup_del_other.
Qed.

Definition op_key (op : fsop) : nat := match op with Mkdir k | OpenW k _ | Write k _ _ _ | Close k _ _ => k end.

(* the effect of one operation on the entry of its own key *)
Definition eff (flushed : bool) (o : option entry) (op : fsop) : option entry :=
  match op, o with
  | Mkdir _, None => Some {| e_meta := FAbsent; e_data := FAbsent |}
  | Mkdir _, Some e => Some e
  | OpenW _ f, Some e => Some (set_file e f FPartial)
  | Write _ f last c, Some e => Some (set_file e f (if last && flushed then FComplete c else FPartial))
  | Close _ f c, Some e => Some (set_file e f (FComplete c))
  | _, None => None
  end.

Lemma get_apply_op fl st op k : get (apply_op fl st op) k = if Nat.eqb (op_key op) k then eff fl (get st k) op else get st k.
Proof.
  destruct op as [k0|k0 f|k0 f l c|k0 f c]; cbn [apply_op op_key eff];
    destruct (Nat.eqb_spec k0 k) as [Heq|Hne]; try subst k0.
  - destruct (get st k) as [e|] eqn:E; [exact E|apply get_put_same].
  - destruct (get st k0) as [e|]; [reflexivity|]. apply get_put_other. congruence.
  - destruct (get st k) as [e|] eqn:E; [apply get_put_same|exact E].
  - destruct (get st k0) as [e|]; [|reflexivity]. apply get_put_other. congruence.
  - destruct (get st k) as [e|] eqn:E; [apply get_put_same|exact E].
  - destruct (get st k0) as [e|]; [|reflexivity]. apply get_put_other. congruence.
  - destruct (get st k) as [e|] eqn:E; [apply get_put_same|exact E].
  - destruct (get st k0) as [e|]; [|reflexivity]. apply get_put_other. congruence.
Qed.

Lemma get_apply_ops_other fl ops : forall st k, (forall op, In op ops -> op_key op <> k) ->
  get (apply_ops fl st ops) k = get st k.
Proof.
  unfold apply_ops. induction ops as [|op ops IH]; intros st k H; cbn [fold_left]; [reflexivity|].
  rewrite IH by (intros; apply H; now right). rewrite get_apply_op.
  destruct (Nat.eqb_spec (op_key op) k) as [E|_]; [exfalso; apply (H op); [now left|exact E]|reflexivity].
Qed.

Lemma get_apply_ops_own fl ops : forall st k, (forall op, In op ops -> op_key op = k) ->
  get (apply_ops fl st ops) k = fold_left (eff fl) ops (get st k).
Proof.
  unfold apply_ops. induction ops as [|op ops IH]; intros st k H; cbn [fold_left]; [reflexivity|].
  rewrite IH by (intros; apply H; now right). rewrite get_apply_op, (H op (or_introl eq_refl)), Nat.eqb_refl. reflexivity.
Qed.

Lemma writes_key k f n c op : In op (writes k f n c) -> op_key op = k.
Proof.
  revert op. induction n as [|n IH]; intros op H; cbn [writes] in H; [destruct H|].
  destruct n as [|n']; [destruct H as [<-|[]]; reflexivity|]. destruct H as [<-|H]; [reflexivity|]. now apply IH.
Qed.

Lemma save_ops_key order k m d wm wd op : In op (save_ops order k m d wm wd) -> op_key op = k.
Proof.
  unfold save_ops. destruct order; cbn [In]; intros H; try contradiction;
    repeat (rewrite ?in_app_iff in H; cbn [In] in H);
    repeat match goal with
           | H : _ \/ _ |- _ => destruct H as [H|H]
           | H : _ = op |- _ => subst op; reflexivity
           | H : In _ (writes _ _ _ _) |- _ => now apply writes_key in H
           | H : False |- _ => destruct H
           end.
Qed.

(* writing (any number of write calls) and closing a file leaves it complete *)
Lemma fold_writes_close fl k f n c e :
  fold_left (eff fl) (writes k f n c ++ [Close k f c]) (Some e) = Some (set_file e f (FComplete c)).
Proof.
  revert e. induction n as [|n IH]; intros e; cbn [writes app fold_left eff].
  - reflexivity.
  - destruct n as [|n'].
    + cbn [app fold_left eff]. destruct e, f; reflexivity.
    + change (writes k f (S (S n')) c) with (Write k f false c :: writes k f (S n') c).
      cbn [app fold_left eff]. rewrite IH. destruct e, f; reflexivity.
Qed.

(* ------------------------------------------------------------------ C06: a completed save loads back *)
Theorem save_then_load fl st k m d wm wd :
  let st' := apply_ops fl st (save_ops MetaThenData k m d wm wd) in
  load st' k = Some (d, m) /\ is_cached st' k = true.
Proof.
  cbn zeta. unfold load, is_cached, has. fold (get (apply_ops fl st (save_ops MetaThenData k m d wm wd)) k).
  rewrite get_apply_ops_own by (intros op H; eapply save_ops_key; eauto).
  unfold save_ops. cbn [fold_left app].
  assert (Hm : exists e0, eff fl (get st k) (Mkdir k) = Some e0) by (destruct (get st k); cbn; eauto).
  destruct Hm as [e0 He0]. rewrite He0. cbn [eff].
  rewrite fold_left_app. rewrite fold_writes_close. cbn [fold_left eff].
  rewrite fold_writes_close. destruct e0; cbn. split; reflexivity.
Qed.

(* ... and touches no other key *)
Theorem save_frame fl st order k m d wm wd n k' : k' <> k ->
  get (apply_ops fl st (firstn n (save_ops order k m d wm wd))) k' = get st k'.
Proof.
  intros H. apply get_apply_ops_other. intros op Hop Ek. apply H. rewrite <- Ek.
  eapply save_ops_key. eapply In_firstn_local. exact Hop.
Qed.

(* ------------------------------------------------------------------ C12: a save that fails *)
Lemma has_del_same {V} (st : list (nat * V)) k : has (del k st) k = false.
Proof. unfold has. now rewrite lookup_del_same. Qed.

(* With the clean-up of the current source, whatever the fault point, write counts, flush behaviour and previous
   entry: afterwards the task is not reported as cached (hence never "cached but unloadable"), and no other key
   is affected. *)
Theorem failed_save_safe order fl st k m d wm wd n :
  is_cached (failed_save CleanupDelete order fl st k m d wm wd n) k = false /\
  consistent (failed_save CleanupDelete order fl st k m d wm wd n) k = true /\
  forall k', k' <> k -> get (failed_save CleanupDelete order fl st k m d wm wd n) k' = get st k'.
Proof.
  unfold failed_save, delete, consistent, is_cached. rewrite has_del_same. repeat split.
  intros k' Hk. unfold get. rewrite lookup_del_other by exact Hk. now apply save_frame.
Qed.

(* Without a clean-up the statement is false: a fault right after the key directory was created leaves an entry
   that is reported as cached and cannot be loaded. *)
Theorem failed_save_no_cleanup_refuted :
  exists order fl st k m d wm wd n, consistent (failed_save NoCleanup order fl st k m d wm wd n) k = false.
Proof. exists MetaThenData, true, [], 7, 2, 2, 1, 1, 1. reflexivity. Qed.

(* ------------------------------------------------------------------ C13: a writer that is killed *)
(* once every effect of the save has happened, the entry is complete and holds the new value *)
Theorem crash_after_save_safe fl st k m d wm wd n : List.length (save_ops MetaThenData k m d wm wd) <= n ->
  load (crashed_save MetaThenData fl st k m d wm wd n) k = Some (d, m) /\
  consistent (crashed_save MetaThenData fl st k m d wm wd n) k = true.
Proof.
  intros H. unfold crashed_save. rewrite firstn_all2 by exact H.
  destruct (save_then_load fl st k m d wm wd) as [A B]. split; [exact A|].
  unfold consistent. rewrite A. apply orb_true_r.
Qed.

Theorem crash_frame order fl st k m d wm wd n k' : k' <> k ->
  get (crashed_save order fl st k m d wm wd n) k' = get st k'.
Proof. intros H. now apply save_frame. Qed.

(* every earlier kill point of a first save leaves an entry that looks cached but cannot be loaded: *)
Definition unsafe_points (order : save_order) (fl overwrite : bool) (wm wd : nat) : list nat :=
  let st0 := if overwrite then [(7, {| e_meta := FComplete 1; e_data := FComplete 1 |})] else [] in
  filter (fun n => negb (consistent (crashed_save order fl st0 7 2 2 wm wd n) 7))
         (seq 0 (S (List.length (save_ops order 7 2 2 wm wd)))).

Example crash_points_first_save_lost :      (* buffered data lost *)
  unsafe_points MetaThenData false false 1 2 = [1; 2; 3; 4; 5; 6; 7; 8].
Proof. vm_compute. reflexivity. Qed.
Example crash_points_first_save_flushed :   (* buffered data flushed: only the point after the last data write is safe *)
  unsafe_points MetaThenData true false 1 2 = [1; 2; 3; 4; 5; 6; 7].
Proof. vm_compute. reflexivity. Qed.
Example crash_points_overwrite_lost :       (* overwrite: from the truncating open of the metadata on *)
  unsafe_points MetaThenData false true 1 2 = [2; 3; 6; 7; 8].
Proof. vm_compute. reflexivity. Qed.

Theorem crash_unsafe_refuted : exists fl st k m d wm wd n,
  consistent (crashed_save MetaThenData fl st k m d wm wd n) k = false.
Proof. exists false, [], 7, 2, 2, 1, 1, 1. reflexivity. Qed.
