(* C08 — cache contents evolve exactly as run, bust_cache and uncache dictate. *)
Require Import LT.Model.Base LT.Model.Sched LT.Model.Lab LT.Proofs.PlanProofs LT.Proofs.LabProofs LT.Gen.SrcParams.

(* run_tasks as a map update: after a run that returns, exactly the tasks that were needed, not served from the
   cache, succeeded and have a caching type hold their reference value; every other entry is unchanged. *)
Theorem C08_run_store_spec : forall c o r, wf c -> fst (run sched_params c o) = Returned r ->
  forall t, lookup (store (snd (run sched_params c o))) t = if written c t then ref c t else lookup (pre c) t.
Proof. exact (run_store_spec sched_params eq_refl). Qed.
Print Assumptions C08_run_store_spec.

(* uncache_tasks removes exactly the named entries *)
Theorem C08_uncache_spec : forall ts (st : list (nat * val)) t,
  lookup (fst (lab_step sched_params (with_run {| ntasks := 0; deps := []; reads := []; behs := []; ty := []; maxpar := [];
                cacheable := []; req := []; pre := []; bust := false; cont := true |} [] [] false true []) st (LUncache ts))) t
  = if mem t ts then None else lookup st t.
Proof. exact (fun ts st t => lookup_del_all ts st t). Qed.
Print Assumptions C08_uncache_spec.

(* is_cached and cached_tasks are pure *)
Theorem C08_queries_pure : forall c st t tys,
  fst (lab_step sched_params c st (LIsCached t)) = st /\ fst (lab_step sched_params c st (LCached tys)) = st.
Proof. exact (fun c st t tys => conj eq_refl eq_refl). Qed.
Print Assumptions C08_queries_pure.

(* types declared with cache=None and Labs with storage=None never persist anything *)
Theorem C08_null_inert : forall c o r t, wf c -> fst (run sched_params c o) = Returned r ->
  cacheable_of c (ty_of c t) = false -> lookup (store (snd (run sched_params c o))) t = lookup (pre c) t.
Proof. exact (null_inert sched_params eq_refl). Qed.
Print Assumptions C08_null_inert.

(* bust_cache re-executes everything it needs and replaces what it ran *)
Theorem C08_bust_replaces : forall c o r t v, wf c -> bust c = true -> fst (run sched_params c o) = Returned r ->
  In t (plan c) -> ref c t = Some v -> cacheable_of c (ty_of c t) = true ->
  lookup (store (snd (run sched_params c o))) t = Some v.
Proof. exact (bust_replaces sched_params eq_refl). Qed.
Print Assumptions C08_bust_replaces.
