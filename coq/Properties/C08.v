(* C08 — cache contents evolve exactly as run, bust_cache and uncache dictate. *)
Require Import LT.Model.Base LT.Model.Sched LT.Model.Lab LT.Proofs.PlanProofs LT.Proofs.LabProofs LT.Gen.SrcParams.

(* run_tasks as a map update: after a run that returns, exactly the tasks that were needed, not served from the
   cache, succeeded and have a caching type hold their reference value; every other entry is unchanged. *)
Theorem C08_run_store_spec : forall c o r, wf c -> fst (run sched_params c o) = Returned r ->
  forall t, lookup (store (snd (run sched_params c o))) t = if written c t then ref c t else lookup (pre c) t.
Proof. exact (run_store_spec sched_params eq_refl). Qed.
Print Assumptions C08_run_store_spec.

(* uncache_tasks removes exactly the named entries *)
Theorem C08_uncache_spec : forall ts (st : list (nat * val)) t,
  lookup (fst (lab_step sched_params (with_run {| ntasks := 0; deps := []; reads := []; behs := []; ty := []; maxpar := [];
                cacheable := []; req := []; pre := []; bust := false; cont := true |} [] [] false true []) st (LUncache ts))) t
  = if mem t ts then None else lookup st t.
Proof. exact (fun ts st t => lookup_del_all ts st t). Qed.
Print Assumptions C08_uncache_spec.

(* is_cached and cached_tasks are pure *)
Theorem C08_queries_pure : forall c st t tys,
  fst (lab_step sched_params c st (LIsCached t)) = st /\ fst (lab_step sched_params c st (LCached tys)) = st.
Proof. exact (fun c st t tys => conj eq_refl eq_refl). Qed.
Print Assumptions C08_queries_pure.

(* types declared with cache=None and Labs with storage=None never persist anything *)
Theorem C08_null_inert : forall c o r t, wf c -> fst (run sched_params c o) = Returned r ->
  cacheable_of c (ty_of c t) = false -> lookup (store (snd (run sched_params c o))) t = lookup (pre c) t.
Proof. exact (null_inert sched_params eq_refl). Qed.
Print Assumptions C08_null_inert.

(* bust_cache re-executes everything it needs and replaces what it ran *)
Theorem C08_bust_replaces : forall c o r t v, wf c -> bust c = true -> fst (run sched_params c o) = Returned r ->
  In t (plan c) -> ref c t = Some v -> cacheable_of c (ty_of c t) = true ->
  lookup (store (snd (run sched_params c o))) t = Some v.
Proof. exact (bust_replaces sched_params eq_refl). Qed.
Print Assumptions C08_bust_replaces.

(* cached_tasks reflects exactly what the storage holds for the requested types (Model/Listing.v; the store stage of this check
   compares Lab.cached_tasks with it on real storages): after any sequence of saves, the listing is the saved tasks of those
   types, each once, with the stored result_meta. *)
Require Import LT.Model.Values LT.Model.Listing LT.Proofs.ListingProofs.
Theorem C08_listing_reflects_store : forall e dumps H tys (items : list item),
  (forall it, In it items -> wf_item e it) ->
  (forall ty it, In ty tys -> In it items -> tt_cls ty = tt_cls (it_ty it) -> ty = it_ty it) ->
  cached_tasks deser_mode_src e tys (map (fun it => save_entry dumps H (it_ty it) (it_task it) (it_meta it)) items) =
  Some (map (fun it => (it_task it, it_meta it)) (filter (wanted tys) items)).
Proof. exact listing_exact. Qed.
Print Assumptions C08_listing_reflects_store.

(* uncache_tasks(cached_tasks(types)) — deleting the keys of what a listing returned — removes exactly the entries of those
   types and leaves every other entry as it was (distinct stored tasks have distinct keys: C07). *)
Theorem C08_uncache_listed_exact : forall dumps H tys (items : list item),
  NoDup (map (fun it => cache_key dumps H (tt_prefix (it_ty it)) (it_task it)) items) ->
  delete_keys (map (fun it => cache_key dumps H (tt_prefix (it_ty it)) (it_task it)) (filter (wanted tys) items))
              (map (fun it => save_entry dumps H (it_ty it) (it_task it) (it_meta it)) items)
  = map (fun it => save_entry dumps H (it_ty it) (it_task it) (it_meta it)) (filter (fun it => negb (wanted tys it)) items).
Proof. exact uncache_listed_exact. Qed.
Print Assumptions C08_uncache_listed_exact.
