(* C05 — runnable work is started whenever capacity is free (scheduler level). *)
Require Import LT.Model.Base LT.Model.Sched LT.Proofs.SchedThms LT.Proofs.SchedLimits LT.Gen.SrcParams.

(* At every rest point (the state in which wait() is entered), every task still pending either has an
   unfinished dependency or its type is at its max_parallel limit. *)
Theorem C05_rest_no_ready_left : forall c s t, In t (pending (submit_phase sched_params c s)) ->
  deps_done c (submit_phase sched_params c s) t = false \/
  at_limit c (active (submit_phase sched_params c s)) t.
Proof. exact (fun c => rest_no_ready_left sched_params c eq_refl). Qed.
Print Assumptions C05_rest_no_ready_left.

(* ---- worker processes: after every submit and every wait, no future is left pending while a worker slot is
   free, i.e. the number of worker processes is min(max_workers, submitted and unfinished futures) — for the
   _start_processes and the wait() (queued futures are started on every poll) the source has now. *)
Require Import LT.Model.Exec LT.Proofs.ExecProofs.
Theorem C05_rest_workers_full : forall e o, List.length (running e) <= maxw e ->
  match o with
  | XSubmit | XWait _ => pendq (exstep start_policy_src wait_policy_src e o) <> [] ->
                         List.length (running (exstep start_policy_src wait_policy_src e o)) = maxw (exstep start_policy_src wait_policy_src e o)
  | _ => True
  end.
Proof. exact (rest_full start_policy_src eq_refl wait_policy_src eq_refl). Qed.
Print Assumptions C05_rest_workers_full.

(* The statement depends on wait() starting queued futures on every poll: for a wait() that does so only after receiving a
   result it is false (a killed worker's slot stays idle). *)
Theorem C05_wait_if_received_refuted :
  exists e o, List.length (running e) <= maxw e /\
    match o with XWait _ => pendq (exstep StartUpToMax WaitStartsIfReceived e o) <> [] /\
                            List.length (running (exstep StartUpToMax WaitStartsIfReceived e o)) < maxw e | _ => False end.
Proof. exact wait_if_received_refuted. Qed.
Print Assumptions C05_wait_if_received_refuted.

(* ---- several runs in one interpreter: whatever an earlier run left behind, after every submit and every wait of a later run no
   future is pending while one of *its* max_workers slots is free — given that each process runner builds an executor of its own
   (read from the source; with a shared executor, or a shared table, slots of the later run are taken by work that is not its
   own: C04_shared_executor_refuted shows the state). *)
Require Import LT.Model.Scope LT.Proofs.ScopeProofs.
Theorem C05_every_run_fills_its_own_slots : forall ops1 w1 e1 w2 ops2 e o,
  In e1 (states start_policy_src wait_policy_src (init_ex w1) ops1) ->
  In e (states start_policy_src wait_policy_src (second_run_start exec_scope_src e1 w2) ops2) ->
  match o with
  | XSubmit | XWait _ => pendq (exstep start_policy_src wait_policy_src e o) <> [] ->
                         List.length (running (exstep start_policy_src wait_policy_src e o)) = w2
  | _ => True
  end.
Proof. exact (second_run_rest_full start_policy_src wait_policy_src eq_refl eq_refl). Qed.
Print Assumptions C05_every_run_fills_its_own_slots.
