(* C04 — per-type concurrency limits are never exceeded (scheduler level; the worker limit is C04b/Exec). *)
Require Import LT.Model.Base LT.Model.Sched LT.Proofs.SchedThms LT.Proofs.SchedLimits LT.Gen.SrcParams.

(* At every instant of every run — initial state, after each single submission of a submit phase, after each
   completion, and in the state a failing run is abandoned in — at most max_parallel tasks of a type are in
   flight.  Holds because the source compares with the operator extracted into sched_params (>=). *)
Theorem C04_type_limit : forall c s, Reach sched_params c s ->
  forall y m, maxpar_of c y = Some m -> count_ty c y (active s) <= m.
Proof. exact (fun c => type_limit_reach sched_params c eq_refl). Qed.
Print Assumptions C04_type_limit.

Theorem C04_type_limit_after_raise : forall c t s, raise_succ sched_params c t s ->
  forall y m, maxpar_of c y = Some m -> count_ty c y (active s) <= m.
Proof. exact (fun c => type_limit_after_raise sched_params c eq_refl). Qed.
Print Assumptions C04_type_limit_after_raise.

(* every state a run ends in is covered by one of the two statements *)
Theorem C04_run_covered : forall c o,
  match fst (run sched_params c o) with
  | RaisedLabError t => raise_succ sched_params c t (snd (run sched_params c o))
  | _ => Reach sched_params c (snd (run sched_params c o))
  end.
Proof. exact (run_Reach sched_params). Qed.
Print Assumptions C04_run_covered.

(* ---- worker processes (ProcessExecutor): for every sequence of submit / wait / cancel / stop calls, with any
   worker completions, exits and kills in between, the number of registered worker processes never exceeds
   max_workers — for the start policy read from _start_processes. *)
Require Import LT.Model.Exec LT.Proofs.ExecProofs.
Theorem C04_worker_limit : forall ops w e', In e' (states start_policy_src wait_policy_src (init_ex w) ops) ->
  List.length (running e') <= maxw e'.
Proof. exact (fun ops w e' H => worker_limit start_policy_src eq_refl wait_policy_src ops (init_ex w) (init_within w) e' H). Qed.
Print Assumptions C04_worker_limit.

(* ---- several runs in one interpreter: whatever an earlier run did with its executor (any max_workers, any calls, any worker
   events, wherever it was abandoned), every state of a later run has at most *its own* max_workers worker processes — given that
   each process runner builds an executor of its own (read from the source); *)
Require Import LT.Model.Scope LT.Proofs.ScopeProofs.
Theorem C04_every_run_has_its_own_limit : forall ops1 w1 e1 w2 ops2 e,
  In e1 (states start_policy_src wait_policy_src (init_ex w1) ops1) ->
  In e (states start_policy_src wait_policy_src (second_run_start exec_scope_src e1 w2) ops2) ->
  List.length (running e) <= w2 /\ maxw e = w2.
Proof. exact (second_run_worker_limit start_policy_src wait_policy_src eq_refl). Qed.
Print Assumptions C04_every_run_has_its_own_limit.

(* with an executor (or its tables) shared between runs the limit of the later run is not obeyed. *)
Theorem C04_shared_executor_refuted : exists ops1 w1 e1 w2 ops2 e,
  In e1 (states StartUpToMax WaitAlwaysStarts (init_ex w1) ops1) /\
  In e (states StartUpToMax WaitAlwaysStarts (second_run_start ExecShared e1 w2) ops2) /\
  w2 < List.length (running e).
Proof. exact shared_executor_refuted. Qed.
Print Assumptions C04_shared_executor_refuted.
