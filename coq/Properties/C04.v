(* C04 — per-type concurrency limits are never exceeded (scheduler level; the worker limit is C04b/Exec). *)
Require Import LT.Model.Base LT.Model.Sched LT.Proofs.SchedThms LT.Proofs.SchedLimits LT.Gen.SrcParams.

(* At every instant of every run — initial state, after each single submission of a submit phase, after each
   completion, and in the state a failing run is abandoned in — at most max_parallel tasks of a type are in
   flight.  Holds because the source compares with the operator extracted into sched_params (>=). *)
Theorem C04_type_limit : forall c s, Reach sched_params c s ->
  forall y m, maxpar_of c y = Some m -> count_ty c y (active s) <= m.
Proof. exact (fun c => type_limit_reach sched_params c eq_refl). Qed.
Print Assumptions C04_type_limit.

Theorem C04_type_limit_after_raise : forall c t s, raise_succ sched_params c t s ->
  forall y m, maxpar_of c y = Some m -> count_ty c y (active s) <= m.
Proof. exact (fun c => type_limit_after_raise sched_params c eq_refl). Qed.
Print Assumptions C04_type_limit_after_raise.

(* every state a run ends in is covered by one of the two statements *)
Theorem C04_run_covered : forall c o,
  match fst (run sched_params c o) with
  | RaisedLabError t => raise_succ sched_params c t (snd (run sched_params c o))
  | _ => Reach sched_params c (snd (run sched_params c o))
  end.
Proof. exact (run_Reach sched_params). Qed.
Print Assumptions C04_run_covered.

(* ---- worker processes (ProcessExecutor): for every sequence of submit / wait / cancel / stop calls, with any
   worker completions, exits and kills in between, the number of registered worker processes never exceeds
   max_workers — for the start policy read from _start_processes. *)
Require Import LT.Model.Exec LT.Proofs.ExecProofs.
Theorem C04_worker_limit : forall ops w e', In e' (states start_policy_src wait_policy_src (init_ex w) ops) ->
  List.length (running e') <= maxw e'.
Proof. exact (fun ops w e' H => worker_limit start_policy_src eq_refl wait_policy_src ops (init_ex w) (init_within w) e' H). Qed.
Print Assumptions C04_worker_limit.
