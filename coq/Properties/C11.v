(* C11 — run_tasks always terminates; it never deadlocks or spins (scheduler level). *)
Require Import LT.Model.Base LT.Model.Sched LT.Proofs.PlanProofs LT.Proofs.SchedInv LT.Proofs.SchedThms
  LT.Proofs.SchedLimits LT.Gen.SrcParams.

(* The coordinator never waits with nothing in flight while work remains — for every graph, oracle, failure
   pattern and limits (no type with max_parallel = 0). *)
Theorem C11_never_stuck : forall c o, wf c -> (forall y, maxpar_of c y <> Some 0) ->
  fst (run sched_params c o) <> Stuck.
Proof. exact (fun c o Hw Hc => never_stuck sched_params c eq_refl Hw eq_refl Hc o). Qed.
Print Assumptions C11_never_stuck.

(* Whenever work remains after a submit phase, something is in flight. *)
Theorem C11_progress : forall c s, wf c -> (forall y, maxpar_of c y <> Some 0) -> Inv c s ->
  loop_done s = false -> active (submit_phase sched_params c s) <> [].
Proof. exact (fun c s Hw Hc => progress sched_params c eq_refl Hw eq_refl Hc s). Qed.
Print Assumptions C11_progress.

(* Every completion strictly decreases |pending| + |in flight|; an oracle that delivers at least one
   completion per polling round for as many rounds as there are tasks left always ends the run. *)
Theorem C11_fair_terminates : forall c o, wf c -> productive o (length (plan c)) ->
  fst (run sched_params c o) <> OutOfOracle.
Proof.
  exact (fun c o Hw Hp => fair_terminates sched_params c Hw eq_refl o (init c) (R_init sched_params c)
           (eq_ind_r (fun n => productive o n) Hp (Nat.add_0_r (length (plan c))))).
Qed.
Print Assumptions C11_fair_terminates.

(* Once the last unfinished task has completed no further wait is issued. *)
Theorem C11_exit_after_last : forall c s o, loop_done s = true -> loop sched_params c s o = (final sched_params c s, s).
Proof. exact (fun c s o H => match o with [] => ltac:(cbn [loop]; rewrite H; reflexivity) | _ :: _ => ltac:(cbn [loop]; rewrite H; reflexivity) end). Qed.
Print Assumptions C11_exit_after_last.

(* ---- worker processes: a worker that is dead when wait() begins (killed, or exited) has, when that wait()
   returns, a finished future (TaskDiedError unless its result had been queued) and no longer occupies a slot. *)
Require Import LT.Model.Exec LT.Proofs.ExecProofs.
Theorem C11_dead_detected : forall e i, running_not_done e -> In i (dead_ids e) ->
  done (fut_of (consume e) i) = true /\ has (running (consume e)) i = false.
Proof. exact (fun e i H Hin => conj (dead_worker_done e i Hin) (dead_worker_removed e i H Hin)). Qed.
Print Assumptions C11_dead_detected.

(* The same with no assumption on the state: the executor invariant ExInv (running futures are pending; queued futures are
   pending and not running; no duplicate in the queue; ids below the counter) holds after every sequence of
   submit / wait / cancel / stop calls and environment events, for the start policy the source has now. *)
Theorem C11_dead_detected_always : forall ops w e i,
  In e (states start_policy_src wait_policy_src (init_ex w) ops) -> In i (dead_ids e) ->
  done (fut_of (consume e) i) = true /\ has (running (consume e)) i = false.
Proof. exact (dead_detected_always start_policy_src wait_policy_src). Qed.
Print Assumptions C11_dead_detected_always.

Theorem C11_executor_invariant : forall ops w e, In e (states start_policy_src wait_policy_src (init_ex w) ops) -> ExInv e.
Proof. exact (fun ops w e H => ExInv_states start_policy_src wait_policy_src ops (init_ex w) (ExInv_init w) e H). Qed.
Print Assumptions C11_executor_invariant.

(* ---- line level: with the statement order read from _start_processes, a KeyboardInterrupt before any statement of a worker launch
   finds the future in the pending or in the running table — so cancel() or the liveness check reaches it and the drain that
   follows a first interrupt is not left waiting for a future nobody will ever finish (that was defect D13). *)
Require Import LT.Model.Launch LT.Proofs.LaunchProofs.
Theorem C11_launch_never_loses_future : forall i t k, mem i (t_pending t) = true ->
  tracked i (interrupted_at launch_order_src i t k) = true.
Proof. exact launch_tracked. Qed.
Print Assumptions C11_launch_never_loses_future.
