(* C02 — a task never starts before all of its dependencies have finished (scheduler level).
   The dependency-discovery half (every task nested anywhere in the parameters is found) is Values/C02b. *)
Require Import LT.Model.Base LT.Model.Sched LT.Proofs.PlanProofs LT.Proofs.SchedInv LT.Proofs.SchedThms
  LT.Proofs.SchedRef LT.Gen.SrcParams.

(* In the event history of any run (any oracle; also runs cut short by a failure): a submission of t is
   preceded by the completion of every dependency the planner recorded for t, and every recorded completion
   carries t's reference outcome. *)
Theorem C02_submit_after_deps : forall c o, wfb c = true ->
  forall h2 t uc h1, hist (snd (run sched_params c o)) = h2 ++ ESubmit t uc :: h1 ->
    uc = use_cache_in c (pre c) t /\ forall d, In d (pdeps_of c t) -> In d (finishes h1).
Proof. exact (fun c o Hw => proj1 (proj2 (proj2 (run_hist_ok sched_params eq_refl c o Hw)))). Qed.
Print Assumptions C02_submit_after_deps.

(* While t is in flight (and is executed, not loaded) every dependency it reads has finished; reading it
   yields that dependency's result of this run, and a failed dependency has no entry (reading raises), so t's
   own outcome is exactly the reference outcome. *)
Theorem C02_reads_real_result : forall c s t, wf c -> Reach sched_params c s -> In t (active s) ->
  use_cache_in c (pre c) t = false ->
  exec c s t = ref c t /\
  forall d, In d (reads_of c t) ->
    In d (finished s) /\ lookup (rmap s) d = ref c d /\ (In d (failed s) <-> ref c d = None).
Proof. exact (reads_real sched_params eq_refl). Qed.
Print Assumptions C02_reads_real_result.

Theorem C02_finish_values : forall c o, wfb c = true ->
  forall t r, In (EFinish t r) (hist (snd (run sched_params c o))) -> r = ref c t.
Proof. exact (fun c o Hw => proj2 (proj2 (proj2 (run_hist_ok sched_params eq_refl c o Hw)))). Qed.
Print Assumptions C02_finish_values.

(* Dependency discovery is exact at any nesting depth of tuples and dicts: the tasks found in a parameter value
   are precisely the tasks occurring in it outside other tasks. *)
Require Import LT.Model.Values LT.Proofs.ValuesProofs.
Theorem C02_find_all_depths : forall v t, In t (find_tasks v) <-> Occurs t v.
Proof. exact find_tasks_exact. Qed.
Print Assumptions C02_find_all_depths.

(* ---- fork backend: the dict object handed to forked workers.  For every sequence of results stored by wait(), results released
   by remove_results and workers forked in between, what a forked worker is handed is what the runner holds at that moment —
   given that the dict is only ever mutated in place (read from the runners' source); *)
Require Import LT.Model.Scope LT.Proofs.ScopeProofs.
Theorem C02_forked_worker_reads_current_results : forall ops,
  Forall (fun p => fst p = snd p) (vrun results_view_src v_init ops).
Proof. exact (fun ops => view_in_place ops v_init eq_refl). Qed.
Print Assumptions C02_forked_worker_reads_current_results.

(* if the attribute is ever re-bound (say, to release an emptied dict), a worker forked afterwards reads the abandoned object. *)
Theorem C02_rebound_results_refuted : exists ops, ~ Forall (fun p => fst p = snd p) (vrun ViewRebinds v_init ops).
Proof. exact view_rebinds_refuted. Qed.
Print Assumptions C02_rebound_results_refuted.

(* a history on which the two alternatives differ: an independent result is stored and released (the dict is empty once), then a
   dependency's result is stored and a worker is forked — with the source's in-place dict the worker is handed that result *)
Example C02_forked_worker_example :
  vrun results_view_src v_init [VPut 1 7; VRemove [1]; VPut 2 8; VFork] = [([(2, 8)], [(2, 8)])].
Proof. vm_compute. reflexivity. Qed.
