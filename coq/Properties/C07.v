(* C07 — cache keys are deterministic and distinguish every distinct task. *)
Require Import LT.Model.Values LT.Proofs.ValuesProofs LT.Proofs.KeyProofs LT.Gen.SrcParams.

(* The serialised form (of the serialiser read from the current source: a dict parameter that spells a serialised task, enum
   member or wrapped dict is wrapped) determines the task: class, every field, value types, enum members and nested task
   parameters at any depth, whatever keys dict parameters use.  ([no_reserved]: no task *field* is called _is_task or
   __class__, which no dataclass field can be.) *)
Theorem C07_ser_injective : forall a b, no_reserved a = true -> no_reserved b = true ->
  ser_of ser_mode_src a = ser_of ser_mode_src b -> a = b.
Proof. exact ser_injective. Qed.
Print Assumptions C07_ser_injective.

(* Hence distinct tasks get distinct keys, assuming json.dumps is injective on the trees labtech produces, sha1
   digests have one length, and sha1 does not collide on the pair at hand. *)
Theorem C07_key_injective : forall dumps H,
  (forall a b, dumps a = dumps b -> a = b) -> (forall x y, List.length (H x) = List.length (H y)) ->
  forall prefix c1 f1 c2 f2,
  no_reserved (VTask c1 f1) = true -> no_reserved (VTask c2 f2) = true ->
  (H (dumps (ser (VTask c1 f1))) = H (dumps (ser (VTask c2 f2))) ->
   dumps (ser (VTask c1 f1)) = dumps (ser (VTask c2 f2))) ->
  cache_key dumps H prefix (VTask c1 f1) = cache_key dumps H prefix (VTask c2 f2) ->
  VTask c1 f1 = VTask c2 f2.
Proof. exact key_injective. Qed.
Print Assumptions C07_key_injective.

(* The key is a function of class name and field values alone (no identity, seed, context): it survives
   re-normalisation, pickling (for the __setstate__ of the current source) and reconstruction from metadata (for
   the deserialize_value of the current source). *)
Theorem C07_key_stable_renormalise : forall dumps H prefix v,
  option_map (cache_key dumps H prefix) (normalize (embed v)) = Some (cache_key dumps H prefix v).
Proof. exact key_of_renormalised. Qed.
Print Assumptions C07_key_stable_renormalise.

Theorem C07_key_stable_reconstruct : forall dumps H e prefix v, wf_env e v = true -> no_reserved v = true ->
  option_map (cache_key dumps H prefix) (deser deser_mode_src e (ser v)) = Some (cache_key dumps H prefix v).
Proof. exact key_of_reconstructed. Qed.
Print Assumptions C07_key_stable_reconstruct.

Theorem C07_key_stable_pickle : forall dumps H post_init prefix c fs o',
  setstate post_init setstate_mode_src (getstate (construct post_init (cache_key dumps H prefix) (VTask c fs))) = Some o' ->
  o_key o' = cache_key dumps H prefix (VTask c fs) /\
  cache_key dumps H prefix (o_val o') = cache_key dumps H prefix (VTask c fs).
Proof. exact key_of_copy. Qed.
Print Assumptions C07_key_stable_pickle.

(* A task type's post_init may (re)assign parameter attributes.  For the _task_post_init read from the current source the
   key is (re)computed afterwards, so it describes the parameters as they end up — the values that ==, the stored metadata
   and cached_tasks use — and rebuilding the task from those values gives the same key (any idempotent rewrite). *)
Theorem C07_key_describes_final_parameters : forall (post_init : value -> option value) (keyf : value -> str) (rw : value -> value) (v : value),
  (forall x, rw (rw x) = rw x) ->
  let o := construct_rw post_init keyf key_mode_src rw v in
  o_key o = keyf (o_val o) /\ o_key (construct_rw post_init keyf key_mode_src rw (o_val o)) = o_key o.
Proof. exact (fun pi keyf rw v H => conj (key_describes_final pi keyf rw v) (key_stable_rewrite pi keyf rw v H)). Qed.
Print Assumptions C07_key_describes_final_parameters.
Theorem C07_key_before_post_init_refuted : exists (post_init : value -> option value) (keyf : value -> str) (rw : value -> value) (v : value),
  (forall x, rw (rw x) = rw x) /\
  let o := construct_rw post_init keyf KeyBeforePostInit rw v in
  o_key (construct_rw post_init keyf KeyBeforePostInit rw (o_val o)) <> o_key o.
Proof. exact key_before_post_init_refuted. Qed.
Print Assumptions C07_key_before_post_init_refuted.

(* For a serialiser that never wraps dicts (the source before defect D9 was repaired) the statement is false: a string-keyed
   dict can spell a serialised task. *)
Theorem C07_unguarded_refuted : exists a b, a <> b /\ no_reserved a = true /\ no_reserved b = true /\
  ser_of SerPlainDicts a = ser_of SerPlainDicts b.
Proof. exact ser_unguarded_refuted. Qed.
Print Assumptions C07_unguarded_refuted.

(* Every key of a module-level task type is accepted by LocalStorage: a key whose characters are none of the
   forbidden ones (prefix, identifier class name, "__", hex digest) and that resolves to a direct child of the
   storage directory passes validation. *)
Require Import LT.Model.Paths LT.Proofs.PathsProofs.
Theorem C07_key_accepted : forall rs rroot root key r c,
  key <> [] -> (forall ch, In ch key -> ~ In ch (g_chars storage_guards_src)) ->
  rs root key = Ok (r ++ [c]) -> rroot root = Ok r ->
  key_to_path storage_guards_src rs rroot root key = Ok (r ++ [c]).
Proof. exact (clean_key_accepted storage_guards_src). Qed.
Print Assumptions C07_key_accepted.
