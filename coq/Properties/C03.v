(* C03 — each distinct task runs at most once, and only if its result is needed. *)
Require Import LT.Model.Base LT.Model.Sched LT.Proofs.PlanProofs LT.Proofs.SchedInv LT.Proofs.SchedThms
  LT.Proofs.SchedRef LT.Gen.SrcParams.

(* The plan is duplicate-free and is exactly the dependency closure of the requested tasks, where a task
   served from the cache contributes no dependencies. *)
Theorem C03_planned_is_needed : forall c, wf c ->
  NoDup (plan c) /\ (forall t, In t (plan c) <-> Needed c t).
Proof. exact (fun c H => conj (proj1 (plan_spec c H)) (proj1 (proj2 (proj2 (proj2 (plan_spec c H)))))). Qed.
Print Assumptions C03_planned_is_needed.

(* In any run: no task is submitted twice, only needed tasks are submitted, and a submission loads from the
   cache exactly when the task was cached beforehand (and bust_cache is off). *)
Theorem C03_submit_once_needed_cached : forall c o, wfb c = true ->
  let h := hist (snd (run sched_params c o)) in
  NoDup (submitted h) /\
  (forall t, In t (submitted h) -> Needed c t) /\
  (forall h2 t uc h1, h = h2 ++ ESubmit t uc :: h1 -> uc = use_cache_in c (pre c) t).
Proof.
  exact (fun c o Hw =>
    let H := run_hist_ok sched_params eq_refl c o Hw in
    conj (proj1 H) (conj (proj1 (proj2 H))
      (fun h2 t uc h1 E => proj1 (proj1 (proj2 (proj2 H)) h2 t uc h1 E)))).
Qed.
Print Assumptions C03_submit_once_needed_cached.

(* ---- the object layer: several distinct task objects may denote the same task (compare equal).  The walk over objects
   (process_tasks with get_direct_dependency_instances, one visit per object) reaches exactly the objects reachable from the
   requested objects without passing through a task served from the cache, each once; seen through "denotes the same
   task" it is the task-level plan above. *)
Require Import LT.Model.ObjPlan LT.Proofs.ObjProofs.
Theorem C03_object_walk_is_task_plan : forall c g, wf c -> denotes c g = true ->
  NoDup (oplan c g) /\
  (forall o, In o (oplan c g) <-> Needed (obj_cfg c g) o) /\
  (forall t, In t (plan c) <-> exists o, In o (oplan c g) /\ cls_of g o = t).
Proof.
  exact (fun c g Hw Hd => conj (proj1 (oplan_spec c g Hd)) (conj (proj2 (oplan_spec c g Hd)) (oplan_classes c g Hw Hd))).
Qed.
Print Assumptions C03_object_walk_is_task_plan.

(* Completing the tasks in ok (executed or loaded successfully) sets result_meta on every visited instance of them — every
   equal object, each once — and on no other object: in particular not on the dependencies of a task that was served from
   the cache. *)
Theorem C03_every_instance_marked : forall c g ok, denotes c g = true ->
  NoDup (marked c g ok) /\
  (forall o, In o (marked c g ok) <-> Needed (obj_cfg c g) o /\ In (cls_of g o) ok).
Proof. exact (fun c g ok Hd => conj (marked_NoDup c g Hd ok) (marked_spec c g Hd ok)). Qed.
Print Assumptions C03_every_instance_marked.

(* ---- the same task objects across several run_tasks calls (each call with its own cache contents, outcomes and completed set):
   every instance the last call completed carries the outcome of the last call, whatever it carried before, and every other
   object is left as it was — given that complete_task and the setter assign unconditionally (read from the source); *)
Theorem C03_instances_carry_latest_outcome : forall g marks rs r o, o < nobj g ->
  nth_error (apply_runs mark_mode_src g marks (rs ++ [r])) o =
  Some (if mem o (marked (r_cfg r) g (r_ok r)) then Some (r_meta r (cls_of g o)) else nth o (apply_runs mark_mode_src g marks rs) None).
Proof. exact last_run_marks. Qed.
Print Assumptions C03_instances_carry_latest_outcome.

(* marking only what carries nothing yet leaves an object that is completed again with the outcome of its first completion. *)
Theorem C03_mark_if_unset_refuted : exists g marks r1 r2 o,
  o < nobj g /\ mem o (marked (r_cfg r2) g (r_ok r2)) = true /\
  nth_error (apply_runs MarkIfUnset g marks [r1; r2]) o <> Some (Some (r_meta r2 (cls_of g o))).
Proof. exact mark_if_unset_refuted. Qed.
Print Assumptions C03_mark_if_unset_refuted.

(* the premises are satisfiable on a non-trivial history: two equal objects of one task and a dependency object, two calls with
   different outcomes; both instances end up with the outcome of the second call, the dependency keeps what the first call gave it *)
Example C03_latest_outcome_example :
  let c := {| ntasks := 2; deps := [[]; [0]]; reads := [[]; [0]]; behs := []; ty := []; maxpar := []; cacheable := []; req := [1]; pre := [];
              bust := true; cont := true |} in
  let g := {| nobj := 3; ocls := [0; 1; 1]; okids := [[]; [0]; [0]]; oreq := [1; 2] |} in
  apply_runs mark_mode_src g [None; None; None]
    [{| r_cfg := c; r_ok := [0; 1]; r_meta := fun t => 10 + t |}; {| r_cfg := c; r_ok := [1]; r_meta := fun t => 20 + t |}]
  = [Some 10; Some 21; Some 21].
Proof. vm_compute. reflexivity. Qed.
