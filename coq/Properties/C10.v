(* C10 — one task's failure never disturbs unrelated tasks (scheduler level). *)
Require Import LT.Model.Base LT.Model.Sched LT.Proofs.PlanProofs LT.Proofs.SchedInv LT.Proofs.SchedThms
  LT.Proofs.SchedLimits LT.Gen.SrcParams.

(* continue_on_failure=True: whatever fails, a run never raises, and what it returns is exactly the requested
   tasks whose reference outcome is a value (they and everything they read succeeded), with that value. *)
Theorem C10_continue_never_raises : forall c o t, cont c = true -> fst (run sched_params c o) <> RaisedLabError t.
Proof. exact (fun c => continue_never_raises sched_params c eq_refl). Qed.
Print Assumptions C10_continue_never_raises.

Theorem C10_returns_exactly_ok : forall c o r, wf c -> fst (run sched_params c o) = Returned r -> r = expected c.
Proof. exact (fun c o r H => run_returns_expected sched_params c H eq_refl eq_refl o r). Qed.
Print Assumptions C10_returns_exactly_ok.

(* Nothing is ever stored or captured for a task whose reference outcome is a failure, and every executed
   cacheable task that succeeded is stored with its value — at every instant of every run. *)
Theorem C10_store_and_results_sound : forall c s, wf c -> Reach sched_params c s ->
  (forall t v, lookup (store s) t = Some v -> lookup (pre c) t = Some v \/ ref c t = Some v) /\
  (forall t v, lookup (results s) t = Some v -> ref c t = Some v) /\
  (forall t, In t (finished s) -> ~ In t (failed s) -> use_cache_in c (pre c) t = false ->
             cacheable_of c (ty_of c t) = true -> lookup (store s) t = ref c t) /\
  (forall t, In t (finished s) -> (In t (failed s) <-> ref c t = None)).
Proof.
  exact (fun c s Hw Hr =>
    let I := Reach_Inv sched_params c Hw eq_refl s Hr in
    conj (fun t v H => match I_store2 c s I t v H with
                       | or_introl A => or_introl A
                       | or_intror (conj _ (conj B _)) => or_intror B end)
      (conj (fun t v H => proj1 (I_results c s I t v H))
        (conj (I_store3 c s I) (I_fail_ref c s I)))).
Qed.
Print Assumptions C10_store_and_results_sound.

(* continue_on_failure=False: a LabError names a task whose own reference outcome is a failure, the failure is
   the last event of the run (nothing is submitted afterwards: the loop is left at once). *)
Theorem C10_stop_on_first : forall c o t, wf c -> fst (run sched_params c o) = RaisedLabError t ->
  cont c = false /\ ref c t = None /\ exists h, hist (snd (run sched_params c o)) = EFinish t None :: h.
Proof. exact (fun c o t H => raise_means_own_failure sched_params c H eq_refl o t). Qed.
Print Assumptions C10_stop_on_first.

(* ---- the theorems above take "the task failed" as what the coordinator is told.  What it is told is whatever the runner hands back:
   with the test read from process_completed_tasks, every exception object a runner can hand back — SystemExit from a task that
   calls sys.exit() included — is booked as that task's failure, never as an "unexpected result" raised out of run_tasks (defect D15,
   repaired in d186224, was the Exception-only test). *)
Require Import LT.Proofs.BookProofs.
Theorem C10_every_raised_outcome_is_a_failure : forall h, h <> HResult -> book fail_test_src h = BFailed.
Proof. exact raised_is_failure. Qed.
Print Assumptions C10_every_raised_outcome_is_a_failure.
Theorem C10_exception_only_test_refuted : exists h, h <> HResult /\ book FailException h = BUnexpected.
Proof. exact exception_only_refuted. Qed.
Print Assumptions C10_exception_only_test_refuted.
