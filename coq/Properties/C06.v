(* C06 — a cache hit returns the result and metadata stored for that very task. *)
Require Import LT.Model.Base LT.Model.Sched LT.Model.Lab LT.Model.Cache LT.Proofs.PlanProofs LT.Proofs.CacheProofs
  LT.Proofs.LabProofs LT.Gen.SrcParams.

(* File level: once a save has completed (any number of write calls, any flush behaviour, first save or overwrite)
   the entry is reported as cached and loads exactly the saved data and metadata. *)
Theorem C06_save_then_load : forall fl st k m d wm wd,
  let st' := apply_ops fl st (save_ops save_order_src k m d wm wd) in
  load st' k = Some (d, m) /\ is_cached st' k = true.
Proof. exact save_then_load. Qed.
Print Assumptions C06_save_then_load.

(* A save (complete or interrupted anywhere) never changes the entry of another key: together with the
   injectivity of keys (C07) a load never returns what was stored for a different task. *)
Theorem C06_frame : forall fl st order k m d wm wd n k', k' <> k ->
  get (apply_ops fl st (firstn n (save_ops order k m d wm wd))) k' = get st k'.
Proof. exact save_frame. Qed.
Print Assumptions C06_frame.

(* Run level: whatever an earlier run left in the store, any later run over the same graph (bust_cache off; any
   request, oracle, limits, continue flag) submits as a load, does not expand its dependencies, and its outcome
   is the stored value. *)
Theorem C06_second_run_loads : forall c st rq cnt fails t v, wf c -> (forall u, In u rq -> u < ntasks c) ->
  lookup st t = Some v ->
  let c2 := with_run c st rq false cnt fails in
  use_cache_in c2 (pre c2) t = true /\ pdeps_of c2 t = [] /\ ref c2 t = Some v.
Proof. exact second_run_loads. Qed.
Print Assumptions C06_second_run_loads.

(* ---- the metadata a cache hit leaves on the caller's task object: whatever the object carried from earlier calls (an earlier
   execution, an earlier hit, cached_tasks), after a call that served its task from the cache it carries the metadata that call
   loaded — [r_meta r] is, for a task served from the cache, the start and duration stored in its entry — given unconditional
   marking (read from the source). *)
Require Import LT.Model.ObjPlan LT.Proofs.ObjProofs.
Theorem C06_hit_sets_stored_meta : forall g marks rs r o, o < nobj g ->
  mem o (marked (r_cfg r) g (r_ok r)) = true ->
  nth_error (apply_runs mark_mode_src g marks (rs ++ [r])) o = Some (Some (r_meta r (cls_of g o))).
Proof. exact (fun g marks rs r o Ho Hm => eq_trans (last_run_marks g marks rs r o Ho) (f_equal (fun b : bool => Some (if b then _ else _)) Hm)). Qed.
Print Assumptions C06_hit_sets_stored_meta.

(* ---- Lab.is_cached: whatever the key directory looks like in the storage and whatever this Lab object answered before, the answer
   is what the task type's cache class says about the store as it is now — for the body read from Lab.is_cached; an answer taken
   from the storage directly ignores cache classes with a say of their own, a remembered answer goes stale when an entry is
   rolled back or removed behind the Lab's back. *)
Require Import LT.Proofs.IsCachedProofs.
Theorem C06_is_cached_is_the_caches_answer : forall cache_says storage_has answered_before,
  lab_is_cached is_cached_src cache_says storage_has answered_before = cache_says.
Proof. exact is_cached_follows_cache. Qed.
Print Assumptions C06_is_cached_is_the_caches_answer.
Theorem C06_is_cached_shortcuts_refuted :
  (exists c s b, lab_is_cached IsCachedAsksStorage c s b <> c) /\ (exists c s b, lab_is_cached IsCachedMemoises c s b <> c).
Proof. exact (conj is_cached_storage_refuted is_cached_memo_refuted). Qed.
Print Assumptions C06_is_cached_shortcuts_refuted.
