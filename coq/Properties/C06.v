(* C06 — a cache hit returns the result and metadata stored for that very task. *)
Require Import LT.Model.Base LT.Model.Sched LT.Model.Lab LT.Model.Cache LT.Proofs.PlanProofs LT.Proofs.CacheProofs
  LT.Proofs.LabProofs LT.Gen.SrcParams.

(* File level: once a save has completed (any number of write calls, any flush behaviour, first save or overwrite)
   the entry is reported as cached and loads exactly the saved data and metadata. *)
Theorem C06_save_then_load : forall fl st k m d wm wd,
  let st' := apply_ops fl st (save_ops save_order_src k m d wm wd) in
  load st' k = Some (d, m) /\ is_cached st' k = true.
Proof. exact save_then_load. Qed.
Print Assumptions C06_save_then_load.

(* A save (complete or interrupted anywhere) never changes the entry of another key: together with the
   injectivity of keys (C07) a load never returns what was stored for a different task. *)
Theorem C06_frame : forall fl st order k m d wm wd n k', k' <> k ->
  get (apply_ops fl st (firstn n (save_ops order k m d wm wd))) k' = get st k'.
Proof. exact save_frame. Qed.
Print Assumptions C06_frame.

(* Run level: whatever an earlier run left in the store, any later run over the same graph (bust_cache off; any
   request, oracle, limits, continue flag) submits as a load, does not expand its dependencies, and its outcome
   is the stored value. *)
Theorem C06_second_run_loads : forall c st rq cnt fails t v, wf c -> (forall u, In u rq -> u < ntasks c) ->
  lookup st t = Some v ->
  let c2 := with_run c st rq false cnt fails in
  use_cache_in c2 (pre c2) t = true /\ pdeps_of c2 t = [] /\ ref c2 t = Some v.
Proof. exact second_run_loads. Qed.
Print Assumptions C06_second_run_loads.
