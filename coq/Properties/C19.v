(* C19 — messages emitted by a task reach the caller's log exactly once. *)
Require Import LT.Model.Base LT.Model.Log LT.Proofs.LogProofs LT.Gen.SrcParams.

(* Worker side, for every output script (logger calls, stream writes incl. blank ones, explicit flushes), with the
   flush behaviour and the end-of-task flush read from the current source: each logger call is queued exactly once, in
   order; the fragments written to a stream are exactly the fragments of the captured records, in order, each once;
   nothing is left to the interpreter's exit-time flush (which happens after the result was handed over). *)
Theorem C19_worker_exactly_once : forall script,
  let '(pre_, post) := worker flush_mode_src flush_before_result_src script in
  logs_of pre_ = emits script /\ frags_of Out pre_ = written Out script /\ frags_of Err pre_ = written Err script /\ post = [].
Proof. exact worker_exactly_once. Qed.
Print Assumptions C19_worker_exactly_once.

(* Caller side, for every interleaving of record puts, result hand-overs and the two halves of each wait() in which no
   task puts a record after its result (which the worker theorem provides): once the loop has exited, the records
   handled are exactly the records put — each once, in order — whichever task finished last. *)
Theorem C19_caller_exactly_once : forall tasks tl, wf_tl tasks [] tl = true ->
  stopped (parent consume_after_results_src tasks tl) = true ->
  delivered (parent consume_after_results_src tasks tl) = puts tl.
Proof. exact run_exactly_once. Qed.
Print Assumptions C19_caller_exactly_once.

(* each of the three ingredients is needed *)
Theorem C19_refuted_without : 
  (exists script, frags_of Out (fst (worker FlushKeeps true script)) <> written Out script) /\
  (exists script, snd (worker FlushClears false script) <> []) /\
  (exists tasks tl, wf_tl tasks [] tl = true /\ stopped (parent false tasks tl) = true /\
                    delivered (parent false tasks tl) <> puts tl).
Proof. exact (conj flush_keeps_refuted (conj no_flush_before_result_refuted no_consume_after_refuted)). Qed.
Print Assumptions C19_refuted_without.

(* ---- the kind of log queue (read from ProcessRunner.__init__).  What the caller's side sees are arrivals; with the synchronous
   queue the source uses a put *is* an arrival, so the theorem above applies to the timeline of puts: *)
Require Import LT.Proofs.LogQueue.
Theorem C19_caller_exactly_once_for_this_queue : forall late tasks tl, wf_tl tasks [] tl = true ->
  stopped (parent consume_after_results_src tasks (seen_timeline log_queue_src late tl)) = true ->
  delivered (parent consume_after_results_src tasks (seen_timeline log_queue_src late tl)) = puts tl.
Proof. exact (sync_queue_exactly_once consume_after_results_src eq_refl). Qed.
Print Assumptions C19_caller_exactly_once_for_this_queue.

(* with a queue whose puts are asynchronous (a plain multiprocessing.Queue) a record put before the last finisher's result may
   arrive after the loop has exited, and is never handled. *)
Theorem C19_async_queue_refuted : exists late tasks tl, wf_tl tasks [] tl = true /\
  stopped (parent true tasks (seen_timeline LogQueueAsync late tl)) = true /\
  delivered (parent true tasks (seen_timeline LogQueueAsync late tl)) <> puts tl.
Proof. exact async_queue_refuted. Qed.
Print Assumptions C19_async_queue_refuted.
