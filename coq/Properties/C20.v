(* C20 — the task diagram shows every reachable type and relationship. *)
Require Import LT.Model.Values LT.Model.Diagram LT.Proofs.DiagramProofs.

(* For any list of tasks: there is exactly one class block for every task type reachable through parameters at
   any nesting depth (and none for any other type). *)
Theorem C20_types : forall tasks,
  NoDup (map fst (build tasks)) /\
  forall A, In A (map fst (build tasks)) <-> exists t, ReachD tasks t /\ task_type t = A.
Proof. exact build_types. Qed.
Print Assumptions C20_types.

(* There is an arrow (A, p, B) exactly when some reachable task of type A has a task of type B inside parameter p
   (at any depth of tuples/dicts), each arrow exactly once per block; it is marked "many" exactly when in at least
   one such task the value of p is not itself a task. *)
Theorem C20_arrows_and_many : forall tasks A p B,
  (sem (build tasks) A (p, B) <> None <->
   exists t v sub, ReachD tasks t /\ task_type t = A /\ In (p, v) (task_fields t) /\ In sub (find_tasks v) /\ task_type sub = B) /\
  (sem (build tasks) A (p, B) = Some true <->
   exists t v sub, ReachD tasks t /\ task_type t = A /\ In (p, v) (task_fields t) /\ In sub (find_tasks v) /\ task_type sub = B
                   /\ is_task_value v = false) /\
  (forall r, alookup (build tasks) A = Some r -> NoDup (map fst r)).
Proof. exact build_arrows. Qed.
Print Assumptions C20_arrows_and_many.

(* Determinism: [build] is a function of its input list (it is a Gallina function); the work list it processes is
   exactly the reachable tasks. *)
Theorem C20_worklist : forall tasks x, In x (trav (total_size tasks) tasks) <-> ReachD tasks x.
Proof. exact (fun tasks => trav_spec (total_size tasks) tasks (le_n _)). Qed.
Print Assumptions C20_worklist.

(* ---- the text itself (diagram_task_structure and its helpers, Model/DiagramText.v; the model's lines are compared
   character for character with what build_task_diagram returns) *)
Require Import LT.Model.DiagramText LT.Proofs.DiagramTextProofs.

(* For any list of tasks and whatever typing says about the types: the class lines of the text are the reachable task
   types, each exactly once; each block carries its run line and one line per parameter; the arrow lines are, one to one,
   the (dependent type, parameter, dependency type) combinations of C20_arrows_and_many, each exactly once, marked "many"
   as the structure says. *)
Theorem C20_text : forall info dir tasks,
  let ts := build tasks in
  let arrows := flat_map (fun e => map (fun r => (fst e, fst r, snd r)) (snd e)) ts in
  pick class_of (render info dir ts) = map (fun A => ti_name (info A)) (map fst ts) /\
  NoDup (map fst ts) /\ (forall A, In A (map fst ts) <-> exists t, ReachD tasks t /\ task_type t = A) /\
  (forall A, In A (map fst ts) -> In (LRun (ti_name (info A)) (ti_run (info A))) (render info dir ts) /\
     forall f, In f (ti_fields (info A)) -> In (LField (ti_name (info A)) (fst f) (snd f)) (render info dir ts)) /\
  pick arrow_of (render info dir ts) =
    map (fun a => (ti_name (info (fst (fst a))), snd a, ti_name (info (snd (snd (fst a)))), fst (snd (fst a)))) arrows /\
  NoDup (map fst arrows) /\
  (forall A p B m, In (A, (p, B), m) arrows <-> sem ts A (p, B) = Some m).
Proof. exact text_of_build. Qed.
Print Assumptions C20_text.
