(* C20 — the task diagram shows every reachable type and relationship. *)
Require Import LT.Model.Values LT.Model.Diagram LT.Proofs.DiagramProofs.

(* For any list of tasks: there is exactly one class block for every task type reachable through parameters at
   any nesting depth (and none for any other type). *)
Theorem C20_types : forall tasks,
  NoDup (map fst (build tasks)) /\
  forall A, In A (map fst (build tasks)) <-> exists t, ReachD tasks t /\ task_type t = A.
Proof. exact build_types. Qed.
Print Assumptions C20_types.

(* There is an arrow (A, p, B) exactly when some reachable task of type A has a task of type B inside parameter p
   (at any depth of tuples/dicts), each arrow exactly once per block; it is marked "many" exactly when in at least
   one such task the value of p is not itself a task. *)
Theorem C20_arrows_and_many : forall tasks A p B,
  (sem (build tasks) A (p, B) <> None <->
   exists t v sub, ReachD tasks t /\ task_type t = A /\ In (p, v) (task_fields t) /\ In sub (find_tasks v) /\ task_type sub = B) /\
  (sem (build tasks) A (p, B) = Some true <->
   exists t v sub, ReachD tasks t /\ task_type t = A /\ In (p, v) (task_fields t) /\ In sub (find_tasks v) /\ task_type sub = B
                   /\ is_task_value v = false) /\
  (forall r, alookup (build tasks) A = Some r -> NoDup (map fst r)).
Proof. exact build_arrows. Qed.
Print Assumptions C20_arrows_and_many.

(* Determinism: [build] is a function of its input list (it is a Gallina function); the work list it processes is
   exactly the reachable tasks. *)
Theorem C20_worklist : forall tasks x, In x (trav (total_size tasks) tasks) <-> ReachD tasks x.
Proof. exact (fun tasks => trav_spec (total_size tasks) tasks (le_n _)). Qed.
Print Assumptions C20_worklist.
