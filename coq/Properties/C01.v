(* C01 — run_tasks returns exactly each requested task's own computed result. *)
Require Import LT.Model.Base LT.Model.Sched LT.Proofs.PlanProofs LT.Proofs.SchedRef LT.Proofs.SchedLimits
  LT.Proofs.SchedThms LT.Proofs.SchedExamples LT.Gen.SrcParams.

(* Keys are exactly the requested tasks in request order (first occurrences) and every value is the one a
   plain sequential dependency-first evaluation gives — for every graph, oracle (completion order and batch
   composition), limits, cache pre-state (if sound), bust/continue flags. *)
Theorem C01_returns_reference : forall c o r,
  wfb c = true -> store_sound c -> (forall t, In t (req c) -> pure c t <> None) ->
  fst (run sched_params c o) = Returned r ->
  map (fun kv => (fst kv, Some (snd kv))) r = map (fun t => (t, pure c t)) (dedup (req c)).
Proof. exact (returns_reference sched_params eq_refl eq_refl). Qed.
Print Assumptions C01_returns_reference.

(* The returned value does not depend on anything but the graph: not on the schedule, worker/limit
   configuration, task types, the (sound) cache pre-state, bust_cache or continue_on_failure. *)
Theorem C01_independent : forall c1 c2 o1 o2 r1 r2,
  wfb c1 = true -> wfb c2 = true -> store_sound c1 -> store_sound c2 ->
  reads c1 = reads c2 -> behs c1 = behs c2 -> req c1 = req c2 ->
  (forall t, In t (req c1) -> pure c1 t <> None) ->
  fst (run sched_params c1 o1) = Returned r1 -> fst (run sched_params c2 o2) = Returned r2 -> r1 = r2.
Proof. exact (returns_independent sched_params eq_refl eq_refl). Qed.
Print Assumptions C01_independent.

(* With a productive oracle the run does return (it is never Stuck, never out of oracle) — see C11 — so the
   statements above are not vacuous: *)
Theorem C01_not_stuck : forall c o, wfb c = true -> (forall y, maxpar_of c y <> Some 0) ->
  fst (run sched_params c o) <> Stuck.
Proof. exact (fun c o Hw Hc => never_stuck sched_params c eq_refl (wfb_wf c Hw) eq_refl Hc o). Qed.
Print Assumptions C01_not_stuck.

(* ---- the serial backend without any completion oracle: SerialRunner completes the oldest submitted task, alone, in every
   polling round (Model/Serial.v; compared with real serial runs by Serial.check_serial).  Its run is a run of the abstract
   runner (refinement), so every statement proved for all oracles holds for it; it always ends within |plan| rounds, is never
   stuck, and returns the reference values. *)
Require Import LT.Model.Serial LT.Proofs.SerialProofs.
Theorem C01_serial_refines : forall c rels, exists o, run sched_params c o = serial_run sched_params c rels.
Proof. exact (serial_run_is_a_run sched_params). Qed.
Print Assumptions C01_serial_refines.

Theorem C01_serial_returns_reference : forall c rels r,
  wfb c = true -> store_sound c -> (forall t, In t (req c) -> pure c t <> None) ->
  fst (serial_run sched_params c rels) = Returned r ->
  map (fun kv => (fst kv, Some (snd kv))) r = map (fun t => (t, pure c t)) (dedup (req c)).
Proof. exact (serial_returns_reference sched_params eq_refl eq_refl). Qed.
Print Assumptions C01_serial_returns_reference.

(* the serial run always ends on its own: within |plan| polling rounds, never stuck, never on a completion it was not given *)
Theorem C01_serial_ends : forall c rels, wfb c = true -> (forall y, maxpar_of c y <> Some 0) ->
  (fst (serial_run sched_params c rels) <> OutOfOracle) /\ (fst (serial_run sched_params c rels) <> Stuck) /\
  (fst (serial_run sched_params c rels) <> BadOracle).
Proof. exact (serial_ends sched_params eq_refl eq_refl). Qed.
Print Assumptions C01_serial_ends.

(* ---- the process backends: the detailed model of the coordinator over ProcessRunner / ProcessExecutor (Model/Intr.v: the
   executor's queue and worker slots, workers finishing between polls, the generator protocol of wait(), future bookkeeping;
   tied to the real code by the tick-level runs of C14) refines the abstract scheduler model whenever no interrupt arrives:
   every run of it is a run of Sched under some completion oracle, with the same returned dict (or the same LabError) and the
   same final coordinator state, history included.  So every statement of this file — and of C02-C05, C10, C11, C17 — proved
   for all oracles holds for the process-runner model as well. *)
Require Import LT.Model.Intr LT.Proofs.IntrRefine.
Definition proc_params_src : iparams :=
  {| ip := sched_params; ip_gen := gen_mode_src; ip_drain_swallows := drain_swallows_src;
     ip_stop_swallows := stop_swallows_src; ip_stop_cancels := stop_cancels_src |}.
Theorem C01_process_runner_refines : forall c maxw o, wf c -> (forall y, maxpar_of c y <> Some 0) ->
  match run_intr proc_params_src c maxw o None None with
  | (IReturned r, w) => exists o', run sched_params c o' = (Returned r, ws w)
  | (IRaised (LabErr t), w) => exists o', run sched_params c o' = (RaisedLabError t, ws w)
  | (IOutOfOracle, _) => True
  | (IRaised _, _) => False
  end.
Proof. exact (fun c maxw o Hw Hc => intr_refines_sched proc_params_src c Hw eq_refl eq_refl eq_refl Hc eq_refl maxw o). Qed.
Print Assumptions C01_process_runner_refines.

Theorem C01_process_runner_returns_reference : forall c maxw o r w,
  wfb c = true -> store_sound c -> (forall t, In t (req c) -> pure c t <> None) -> (forall y, maxpar_of c y <> Some 0) ->
  run_intr proc_params_src c maxw o None None = (IReturned r, w) ->
  map (fun kv => (fst kv, Some (snd kv))) r = map (fun t => (t, pure c t)) (dedup (req c)).
Proof. exact (process_runner_returns_reference proc_params_src eq_refl eq_refl eq_refl eq_refl). Qed.
Print Assumptions C01_process_runner_returns_reference.

(* ---- workers that finish while the executor is inside wait() *)
Require Import LT.Model.Exec LT.Proofs.ExecProofs LT.Proofs.ExecLate.

(* With the liveness snapshot where the current source takes it (before the result queue is drained), worker processes that
   deliver their result and exit — or are killed — after the drain of one wait() leave that call exactly as it would have
   been without them and are seen by the next one: nothing is lost, nobody who delivered a result is declared dead.  (This is
   also why the harness may book such a worker as having finished before the next wait.) *)
Theorem C01_worker_finishing_during_wait : forall late e,
  (forall s, In s late -> ~ In (env_id s) (pendq (consume e))) ->
  wait_fine start_policy_src snapshot_src late e = fold_left env late (wait start_policy_src wait_policy_src e).
Proof. exact (fun late e => wait_late_commutes StartUpToMax late e ltac:(discriminate)). Qed.
Print Assumptions C01_worker_finishing_during_wait.

(* ... which fails for a snapshot taken after the drain: the future of a worker that delivered a result fails as "died". *)
Theorem C01_snapshot_after_drain_refuted : exists e late i,
  ExInv e /\ late = [EnvPut i true; EnvExit i] /\
  fut_of (wait_fine StartUpToMax SnapAfter late e) i = FFinished false /\
  fut_of (wait StartUpToMax WaitAlwaysStarts (wait_fine StartUpToMax SnapBefore late e)) i = FFinished true.
Proof. exact snapshot_after_drain_refuted. Qed.
Print Assumptions C01_snapshot_after_drain_refuted.
