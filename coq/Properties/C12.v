(* C12 — a save that fails leaves no entry that looks cached. *)
Require Import LT.Model.Base LT.Model.Cache LT.Proofs.CacheProofs LT.Gen.SrcParams.

(* For every fault point of the save (number of storage effects completed), every number of write calls, flush
   behaviour, first save or overwrite, with the failure handling read from the current BaseCache.save: afterwards
   the task is not reported as cached — so it is never "cached but unloadable" — and no other key changed. *)
Theorem C12_failed_save_safe : forall order fl st k m d wm wd n,
  is_cached (failed_save save_cleanup_src order fl st k m d wm wd n) k = false /\
  consistent (failed_save save_cleanup_src order fl st k m d wm wd n) k = true /\
  forall k', k' <> k -> get (failed_save save_cleanup_src order fl st k m d wm wd n) k' = get st k'.
Proof. exact failed_save_safe. Qed.
Print Assumptions C12_failed_save_safe.

(* Without that handling the statement is false. *)
Theorem C12_no_cleanup_refuted :
  exists order fl st k m d wm wd n, consistent (failed_save NoCleanup order fl st k m d wm wd n) k = false.
Proof. exact failed_save_no_cleanup_refuted. Qed.
Print Assumptions C12_no_cleanup_refuted.
