(* C18 — local storage never reads, writes or deletes outside its directory. *)
Require Import LT.Model.Values LT.Model.Paths LT.Proofs.PathsProofs LT.Gen.SrcParams.

(* For every key, filename and mode string, every result of pathlib's resolve (the oracles rs / rroot — symlinks,
   dot segments, absolute operands, loops are all inside them) and the guards read from the current source:
   every filesystem effect of exists / file_handle / delete acts on root'/c (stat, mkdir, rmtree) or on root'/c/f
   (open) for one component c per call, where root' is the resolved storage directory. *)
Theorem C18_exists_confined : forall rs rroot root key r, r <> [] -> rroot root = Ok r ->
  confined r (fst (op_exists storage_guards_src rs rroot root key)).
Proof. exact (exists_confined storage_guards_src eq_refl). Qed.
Print Assumptions C18_exists_confined.

Theorem C18_file_handle_confined : forall rs rroot root key filename mode r, r <> [] -> rroot root = Ok r ->
  confined r (fst (op_file_handle storage_guards_src rs rroot root key filename mode)).
Proof. exact (file_handle_confined storage_guards_src eq_refl eq_refl). Qed.
Print Assumptions C18_file_handle_confined.

Theorem C18_delete_confined : forall rs rroot ex root key r, r <> [] -> rroot root = Ok r ->
  confined r (fst (op_delete storage_guards_src rs rroot ex root key)).
Proof. exact (delete_confined storage_guards_src eq_refl eq_refl). Qed.
Print Assumptions C18_delete_confined.

(* Empty keys and keys containing one of the forbidden characters are rejected before any filesystem access. *)
Theorem C18_key_chars : forall rs rroot root key,
  (key = [] \/ exists ch, In ch key /\ In ch (g_chars storage_guards_src)) ->
  key_to_path storage_guards_src rs rroot root key = Err StorageErr.
Proof. exact (fun rs rroot root key => bad_key_rejected storage_guards_src rs rroot root key eq_refl). Qed.
Print Assumptions C18_key_chars.

(* The filename guard is what confines file_handle: without it an absolute filename escapes. *)
Theorem C18_file_guard_needed : exists g rs rroot root key filename mode r,
  g_key_parent g = true /\ g_file_parent g = false /\ r <> [] /\ rroot root = Ok r /\
  ~ confined r (fst (op_file_handle g rs rroot root key filename mode)).
Proof. exact file_guard_needed. Qed.
Print Assumptions C18_file_guard_needed.
