(* C17 — intermediate results live exactly as long as a dependent needs them. *)
Require Import LT.Model.Base LT.Model.Sched LT.Proofs.PlanProofs LT.Proofs.SchedInv LT.Proofs.SchedThms
  LT.Gen.SrcParams.

(* At every instant of every run, for every finished task d:
   - while some needed task that depends on d has not finished, d's result (if d succeeded) is in the runner's map;
   - once none is left, d's result is not in the map — whatever the iteration order of the release batch;
   - a requested task's value has been captured as soon as it has finished. *)
Theorem C17_retained_released_captured : forall c s, wf c -> Reach sched_params c s ->
  (forall d, In d (finished s) -> ~ In d (failed s) ->
             pdependents c (plan c) (finished s) d <> [] -> lookup (rmap s) d <> None) /\
  (forall d, In d (finished s) -> pdependents c (plan c) (finished s) d = [] -> lookup (rmap s) d = None) /\
  (forall t, In t (finished s) -> In t (req c) -> lookup (results s) t = ref c t).
Proof.
  exact (fun c s Hw Hr =>
    let I := Reach_Inv sched_params c Hw eq_refl s Hr in
    conj (I_retained c s I) (conj (Reach_Rel sched_params c Hw eq_refl eq_refl s Hr) (I_results2 c s I))).
Qed.
Print Assumptions C17_retained_released_captured.

(* When run_tasks returns normally the runner holds no results at all — also when tasks failed. *)
Theorem C17_empty_at_return : forall c o r, wf c ->
  fst (run sched_params c o) = Returned r -> rmap (snd (run sched_params c o)) = [].
Proof. exact (fun c o r Hw => run_returned_rmap_empty sched_params c Hw eq_refl eq_refl o r). Qed.
Print Assumptions C17_empty_at_return.
