(* C15 — tasks are immutable values with consistent equality, hashing and copying (value-grammar level). *)
Require Import LT.Model.Values LT.Proofs.ValuesProofs LT.Gen.SrcParams.

(* Normalisation is idempotent on its own output; the output type has no list/dict constructor at any depth. *)
Theorem C15_normalize_idempotent : forall v, normalize (embed v) = Some v.
Proof. exact normalize_embed. Qed.
Print Assumptions C15_normalize_idempotent.

(* The constructor rejects (TaskError) exactly the parameter trees that contain, at any depth, an unsupported
   object or a non-string dict key. *)
Theorem C15_rejects_exactly : forall r, normalize r = None <-> badb r = true.
Proof. exact normalize_rejects_iff. Qed.
Print Assumptions C15_rejects_exactly.

(* == is reflexive on every value whose scalars are self-equal (no NaN) and whose dict keys are unique, and
   tasks of different classes are never equal. *)
Theorem C15_eq_refl : forall seq v, scalars_refl seq v = true -> veq seq v v = true.
Proof. exact veq_refl. Qed.
Print Assumptions C15_eq_refl.
Theorem C15_other_class_unequal : forall seq c d xs ys, c <> d -> veq seq (VTask c xs) (VTask d ys) = false.
Proof. exact veq_other_class. Qed.
Print Assumptions C15_other_class_unequal.

(* == is symmetric and transitive on normalised values (tuples position-wise, frozendicts order-insensitively, tasks by class
   and fields), whenever scalar == is; frozendict keys are pairwise distinct, as in any Python dict. *)
Require Import LT.Proofs.EqProofs.
Theorem C15_eq_sym : forall seq, (forall x y, seq x y = true -> seq y x = true) ->
  forall a b, dict_keys_ok a = true -> dict_keys_ok b = true -> veq seq a b = true -> veq seq b a = true.
Proof. exact (fun seq H a => veq_sym seq H a). Qed.
Print Assumptions C15_eq_sym.
Theorem C15_eq_trans : forall seq, (forall x y z, seq x y = true -> seq y z = true -> seq x z = true) ->
  forall a b d, veq seq a b = true -> veq seq b d = true -> veq seq a d = true.
Proof. exact (fun seq H a => veq_trans seq H a). Qed.
Print Assumptions C15_eq_trans.

(* A pickled copy is the freshly constructed task again: same fields, same key, what post_init derives, and no
   results map / result / context — for the __setstate__ behaviour read from the current source. *)
Theorem C15_pickle_copy : forall post_init keyf c fs,
  setstate post_init setstate_mode_src (getstate (construct post_init keyf (VTask c fs)))
  = Some (construct post_init keyf (VTask c fs)).
Proof. exact pickle_copy. Qed.
Print Assumptions C15_pickle_copy.

Theorem C15_copy_carries_nothing : forall post_init m o o',
  setstate post_init m (getstate o) = Some o' ->
  o_results_map o' = None /\ o_context o' = None /\ o_result o' = None /\ o_result_meta o' = None /\ o_key o' = o_key o.
Proof. exact pickle_copy_carries_nothing. Qed.
Print Assumptions C15_copy_carries_nothing.
