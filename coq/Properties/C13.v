(* C13 — killing a task mid-save cannot poison the cache.  REFUTED for the current design (known finding D4'):
   existence of the key directory is the only commit criterion and it is created first. *)
Require Import LT.Model.Base LT.Model.Cache LT.Proofs.CacheProofs LT.Gen.SrcParams.

(* the full statement is false: *)
Theorem C13_crash_safe_refuted : exists fl st k m d wm wd n,
  consistent (crashed_save save_order_src fl st k m d wm wd n) k = false.
Proof. exact crash_unsafe_refuted. Qed.
Print Assumptions C13_crash_safe_refuted.

(* what does hold: a kill after the last effect of the save is safe and the new value loads; *)
Theorem C13_partial_after_save : forall fl st k m d wm wd n,
  List.length (save_ops save_order_src k m d wm wd) <= n ->
  load (crashed_save save_order_src fl st k m d wm wd n) k = Some (d, m) /\
  consistent (crashed_save save_order_src fl st k m d wm wd n) k = true.
Proof. exact crash_after_save_safe. Qed.
Print Assumptions C13_partial_after_save.

(* a kill at any point never affects the entry of another task. *)
Theorem C13_partial_frame : forall order fl st k m d wm wd n k', k' <> k ->
  get (crashed_save order fl st k m d wm wd n) k' = get st k'.
Proof. exact crash_frame. Qed.
Print Assumptions C13_partial_frame.

(* the exact unsafe kill points for one and two data writes (the classes listed in known_findings.json) *)
Theorem C13_unsafe_points :
  unsafe_points MetaThenData false false 1 2 = [1; 2; 3; 4; 5; 6; 7; 8] /\
  unsafe_points MetaThenData true false 1 2 = [1; 2; 3; 4; 5; 6; 7] /\
  unsafe_points MetaThenData false true 1 2 = [2; 3; 6; 7; 8].
Proof. exact (conj crash_points_first_save_lost (conj crash_points_first_save_flushed crash_points_overwrite_lost)). Qed.
Print Assumptions C13_unsafe_points.

(* Termination that reaches the worker as an exception (the second interrupt's SIGTERM in an application whose handler raises
   SystemExit, inherited by the forked worker): the save is then ended by an exception inside the worker, at any effect
   boundary, and with the failure handling read from the current BaseCache.save the entry is not reported as cached
   afterwards, first save or overwrite, and no other key changed.  (For this class the full statement holds; it is the
   instant-death classes above that are unsafe.) *)
Theorem C13_terminated_by_exception_safe : forall order fl st k m d wm wd n,
  is_cached (failed_save save_cleanup_src order fl st k m d wm wd n) k = false /\
  consistent (failed_save save_cleanup_src order fl st k m d wm wd n) k = true /\
  forall k', k' <> k -> get (failed_save save_cleanup_src order fl st k m d wm wd n) k' = get st k'.
Proof. exact failed_save_safe. Qed.
Print Assumptions C13_terminated_by_exception_safe.
