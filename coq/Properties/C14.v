(* C14 — one Ctrl-C drains the run gracefully; a second one stops it at once (first theorems; see Proofs/IntrProofs). *)
Require Import LT.Model.Base LT.Model.Sched LT.Model.Intr LT.Gen.SrcParams.
