(* C14 — one Ctrl-C drains the run gracefully; a second one stops it at once. *)
Require Import LT.Model.Base LT.Model.Sched LT.Model.Intr LT.Proofs.PlanProofs LT.Proofs.IntrProofs LT.Gen.SrcParams.

Definition intr_params_src : iparams :=
  {| ip := sched_params; ip_gen := gen_mode_src; ip_drain_swallows := drain_swallows_src;
     ip_stop_swallows := stop_swallows_src; ip_stop_cancels := stop_cancels_src |}.

(* For every graph, worker count, oracle (which workers finish during which wait) and every position of one or two
   interrupts among the ticks (entries/exits of start_task, submit_task, executor.submit, wait, Future.result,
   complete_task, remove_results, cancel, stop): once an interrupt has been delivered the run ends with
   KeyboardInterrupt — never with a normal return, a LabError, or the KeyError of a re-yielded task.  (IOutOfOracle only
   says that the supplied oracle was too short.)  Holds for the wait()/drain/stop code read from the current source. *)
Theorem C14_interrupt_raises_KeyboardInterrupt : forall c maxw o k1 k2, NoDup (plan c) ->
  let '(out, w) := run_intr intr_params_src c maxw o k1 k2 in
  1 <= fired w -> out = IRaised KI \/ out = IOutOfOracle.
Proof. exact (fun c maxw o k1 k2 => interrupted_run_raises_KI intr_params_src c maxw o k1 k2 eq_refl eq_refl eq_refl). Qed.
Print Assumptions C14_interrupt_raises_KeyboardInterrupt.

(* the planner's output is duplicate-free for every well-formed configuration, so the premise is met *)
Theorem C14_premise : forall c, wf c -> NoDup (plan c).
Proof. exact (fun c H => proj1 (plan_spec c H)). Qed.
Print Assumptions C14_premise.

(* each of the three code features the theorem rests on is necessary *)
Theorem C14_refuted_without :
  (exists c maxw o k1,
     let '(out, w) := run_intr {| ip := good_sched; ip_gen := PruneAfter; ip_drain_swallows := true; ip_stop_swallows := true;
                                  ip_stop_cancels := true |} c maxw o (Some k1) None in
     1 <= fired w /\ out = IRaised KeyErr) /\
  (exists c maxw o k1 t,
     let '(out, w) := run_intr {| ip := good_sched; ip_gen := PopFirst; ip_drain_swallows := false; ip_stop_swallows := true;
                                  ip_stop_cancels := true |} c maxw o (Some k1) None in
     1 <= fired w /\ out = IRaised (LabErr t)) /\
  (exists c maxw o k1 k2 t,
     let '(out, w) := run_intr {| ip := good_sched; ip_gen := PopFirst; ip_drain_swallows := true; ip_stop_swallows := false;
                                  ip_stop_cancels := true |} c maxw o (Some k1) (Some k2) in
     2 <= fired w /\ out = IRaised (LabErr t)).
Proof. exact (conj prune_after_refuted (conj drain_not_swallowing_refuted stop_not_swallowing_refuted)). Qed.
Print Assumptions C14_refuted_without.

(* The cache is left consistent when the interrupt lands inside a save running in the caller (serial backend): the
   failure handling of BaseCache.save read from the source covers every exception class (BaseException), so the
   statement of C12 applies to KeyboardInterrupt as to any other fault point. *)
Require Import LT.Model.Cache LT.Proofs.CacheProofs.
Theorem C14_interrupted_save_consistent : forall order fl st k m d wm wd n,
  consistent (failed_save save_cleanup_src order fl st k m d wm wd n) k = true.
Proof. exact (fun order fl st k m d wm wd n => proj1 (proj2 (failed_save_safe order fl st k m d wm wd n))). Qed.
Print Assumptions C14_interrupted_save_consistent.

(* "No task is started after the interrupt": from whatever state the first KeyboardInterrupt leaves the coordinator and the
   executor in, the except-branch of TaskCoordinator.run (cancel queued tasks, drain; on a second interrupt cancel again,
   stop, collect once) starts no worker process (nstarts counts queued -> running transitions, compared with the number of
   processes really started in every correspondence run) and records no submission, however it ends — for the handler read
   from the current source (the second handler cancels before it stops). *)
Require Import LT.Proofs.IntrStarts.
Theorem C14_handler_starts_nothing : forall c fuel w1,
  let w2 := snd (on_interrupt intr_params_src c fuel w1) in nstarts w2 = nstarts w1 /\ nsub w2 = nsub w1.
Proof. exact (fun c fuel w1 => handler_starts_nothing intr_params_src c fuel w1 eq_refl). Qed.
Print Assumptions C14_handler_starts_nothing.

(* false for a second handler that stops without cancelling first: stop() frees a slot and the final collection starts a
   task that was still queued *)
Theorem C14_no_second_cancel_refuted : exists P c fuel w1,
  ip_stop_cancels P = false /\ nstarts w1 < nstarts (snd (on_interrupt P c fuel w1)).
Proof. exact no_second_cancel_refuted. Qed.
Print Assumptions C14_no_second_cancel_refuted.

(* "Tasks already executing are allowed to finish": with a single interrupt — whatever the graph, worker count, oracle and
   the tick it lands on — no worker process is ever terminated: stop(), the only place where workers are terminated, is out
   of reach unless a second KeyboardInterrupt arrives (and then what it terminates is compared with the real runs by
   Intr.check_icase). *)
Require Import LT.Proofs.IntrKeep.
Theorem C14_single_interrupt_terminates_no_worker : forall c maxw o k1,
  terminated (snd (run_intr intr_params_src c maxw o k1 None)) = [].
Proof. exact (single_interrupt_terminates_no_worker intr_params_src). Qed.
Print Assumptions C14_single_interrupt_terminates_no_worker.

(* ... and run_tasks waits for them: after a single interrupt KeyboardInterrupt leaves run_tasks only once every future the
   runner had registered has been consumed — the workers that were executing have delivered their outcome (none was
   terminated, above; each saves its own result before it reports), the queued ones were cancelled.  Nothing registered is
   left behind, whatever the graph, worker count, oracle and interrupt tick. *)
Require Import LT.Proofs.IntrDrain.
Theorem C14_single_interrupt_waits_for_registered : forall c maxw o k1 w,
  run_intr intr_params_src c maxw o k1 None = (IRaised KI, w) -> existsb registered (f2t w) = false.
Proof. exact (single_interrupt_waits_for_registered intr_params_src). Qed.
Print Assumptions C14_single_interrupt_waits_for_registered.

(* non-vacuity: a run of the example graph (two workers) interrupted once at its 15th tick ends with KeyboardInterrupt
   after two worker starts *)
Require Import LT.Proofs.SchedExamples.
Example single_interrupt_run_exists :
  let P0 := {| ip := good_params; ip_gen := PopFirst; ip_drain_swallows := true; ip_stop_swallows := true; ip_stop_cancels := true |} in
  let r := run_intr P0 ex_cfg 2 [[0]; [4]; [1]; [2]; [3]; []; []] (Some 14) None in
  fst r = IRaised KI /\ nstarts (snd r) = 2.
Proof. vm_compute. split; reflexivity. Qed.

(* ---- below the granularity of the tick model: the statements of _start_processes that launch one worker (Model/Launch.v).
   With the statement order read from the current source, an interrupt landing before any of them finds the future in the
   pending table or in the running table — so cancel() or stop()/the liveness check will reach it, the draining loop cannot
   wait for a future nobody will ever complete — and never finds a started worker the executor does not know.  (Defect D13:
   the original order removed the future first.) *)
Require Import LT.Model.Launch LT.Proofs.LaunchProofs.
Theorem C14_launch_never_loses_future : forall i t k, mem i (t_pending t) = true ->
  tracked i (interrupted_at launch_order_src i t k) = true.
Proof. exact launch_tracked. Qed.
Print Assumptions C14_launch_never_loses_future.

Theorem C14_launch_no_orphan_worker : forall i t k, mem i (t_started t) = false ->
  no_orphan i (interrupted_at launch_order_src i t k) = true.
Proof. exact launch_no_orphan. Qed.
Print Assumptions C14_launch_no_orphan_worker.

Theorem C14_remove_first_refuted : exists i t k,
  mem i (t_pending t) = true /\ tracked i (interrupted_at RemoveThenRegister i t k) = false.
Proof. exact remove_first_refuted. Qed.
Print Assumptions C14_remove_first_refuted.
