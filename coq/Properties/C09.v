(* C09 — cached_tasks reconstructs every cached task faithfully (value-grammar level). *)
Require Import LT.Model.Values LT.Proofs.ValuesProofs LT.Gen.SrcParams.

(* Deserialising the serialised form gives back the very same task, however its parameters nest scalars, enums,
   tuples, dicts and other tasks — for the deserialize_value of the current source. *)
Theorem C09_roundtrip : forall e v, wf_env e v = true -> no_reserved v = true ->
  deser deser_mode_src e (ser v) = Some v.
Proof. exact deser_ser. Qed.
Print Assumptions C09_roundtrip.

(* ... which is false for a deserialize_value that does not recurse into lists and dicts. *)
Theorem C09_shallow_refuted : exists e v, wf_env e v = true /\ no_reserved v = true /\ deser DShallow e (ser v) <> Some v.
Proof. exact deser_shallow_refuted. Qed.
Print Assumptions C09_shallow_refuted.
