(* C09 — cached_tasks reconstructs every cached task faithfully (value-grammar level). *)
Require Import LT.Model.Values LT.Proofs.ValuesProofs LT.Gen.SrcParams.

(* Deserialising the serialised form gives back the very same task, however its parameters nest scalars, enums,
   tuples, dicts and other tasks — for the deserialize_value of the current source. *)
Theorem C09_roundtrip : forall e v, wf_env e v = true -> no_reserved v = true ->
  deser deser_mode_src e (ser_of ser_mode_src v) = Some v.
Proof. exact deser_ser. Qed.
Print Assumptions C09_roundtrip.

(* The same with the side condition moved to the class environment: every well-formed value round-trips as soon as no task
   class declares a parameter called _is_task or __class__ (no dataclass can). *)
Theorem C09_roundtrip_all_values : forall e v, env_ok e = true -> wf_env e v = true ->
  deser deser_mode_src e (ser_of ser_mode_src v) = Some v.
Proof. exact deser_ser_env. Qed.
Print Assumptions C09_roundtrip_all_values.

(* ... which is false for a deserialize_value that does not recurse into lists and dicts. *)
Theorem C09_shallow_refuted : exists e v, wf_env e v = true /\ no_reserved v = true /\ deser DShallow e (ser v) <> Some v.
Proof. exact deser_shallow_refuted. Qed.
Print Assumptions C09_shallow_refuted.

(* ---- the listing itself (Lab.cached_tasks over BaseCache.load_task / load_metadata, Model/Listing.v) *)
Require Import LT.Model.Listing LT.Proofs.ListingProofs.

(* Over a storage that holds what save wrote for any collection of tasks of any mix of types and cache formats (names
   that are prefixes of each other, the same qualified name under different KEY_PREFIXes, ...), cached_tasks(types)
   returns exactly the stored tasks whose class is one of the requested types: in storage order, each exactly once
   (however often a type is repeated in the request), the task structurally identical to the one stored, with the
   stored result_meta; it never raises.  Hypotheses: the stored tasks are well-formed values (whatever keys their dict
   parameters use), and a class has one cache configuration. *)
Theorem C09_listing_exact : forall e dumps H tys (items : list item),
  (forall it, In it items -> wf_item e it) ->
  (forall ty it, In ty tys -> In it items -> tt_cls ty = tt_cls (it_ty it) -> ty = it_ty it) ->
  cached_tasks deser_mode_src e tys (map (fun it => save_entry dumps H (it_ty it) (it_task it) (it_meta it)) items) =
  Some (map (fun it => (it_task it, it_meta it)) (filter (wanted tys) items)).
Proof. exact listing_exact. Qed.
Print Assumptions C09_listing_exact.

(* ... and the listed task has the cache_key of the entry it was read from (the key is a function of the task). *)
Theorem C09_listed_key : forall dumps H (it : item), (exists fs, it_task it = VTask (tt_cls (it_ty it)) fs) ->
  en_key (save_entry dumps H (it_ty it) (it_task it) (it_meta it)) = cache_key dumps H (tt_prefix (it_ty it)) (it_task it).
Proof. exact listed_key. Qed.
Print Assumptions C09_listed_key.

(* Whatever else the storage holds: an entry written by another cache class is never listed, every listed task is an
   instance of a requested type rebuilt from an entry of that type's cache class whose key starts with prefix+qualname,
   and an entry contributes at most one task. *)
Theorem C09_other_format_not_listed : forall mode e ty en t m,
  en_cache en <> Some (tt_cache ty) -> load_task mode e ty en <> Found t m.
Proof. exact other_format_not_listed. Qed.
Print Assumptions C09_other_format_not_listed.

Theorem C09_listing_at_most_once : forall mode e tys store l, cached_tasks mode e tys store = Some l ->
  exists picks : list bool, length picks = length store /\ length l = length (filter (fun b => b) picks) /\
    forall t m, In (t, m) l -> exists en ty, In en store /\ In ty tys /\ load_task mode e ty en = Found t m.
Proof. exact listing_at_most_once. Qed.
Print Assumptions C09_listing_at_most_once.

(* non-vacuity: types V, VV (V's name is a prefix of VV's) and VJ (another cache class, another prefix) in one storage *)
Require Import String.
Open Scope string_scope.
Example listing_prefix_names :
  let e := {| task_classes := [(s2l "m.V", [s2l "x"]); (s2l "m.VV", [s2l "x"]); (s2l "m.VJ", [s2l "x"])]; enum_classes := [] |} in
  let tV := {| tt_cls := s2l "m.V"; tt_prefix := []; tt_cache := s2l "PickleCache" |} in
  let tVV := {| tt_cls := s2l "m.VV"; tt_prefix := []; tt_cache := s2l "PickleCache" |} in
  let tVJ := {| tt_cls := s2l "m.VJ"; tt_prefix := s2l "json__"; tt_cache := s2l "JsonCache" |} in
  let mk := fun c (n : Z) => VTask (s2l c) [(s2l "x", VScal (SInt n))] in
  let items : list item := [(tVV, mk "m.VV" 1%Z, 10); (tV, mk "m.V" 2%Z, 11); (tVJ, mk "m.VJ" 3%Z, 12); (tV, mk "m.V" 4%Z, 13)] in
  let store := map (fun it => save_entry (fun _ => []) (fun s => s) (it_ty it) (it_task it) (it_meta it)) items in
  cached_tasks deser_mode_src e [tV; tV] store = Some [(mk "m.V" 2%Z, 11); (mk "m.V" 4%Z, 13)] /\
  cached_tasks deser_mode_src e [tVV; tVJ] store = Some [(mk "m.VV" 1%Z, 10); (mk "m.VJ" 3%Z, 12)] /\
  (forall it, In it items -> wf_item e it).
Proof.
  cbv zeta. split; [vm_compute; reflexivity|]. split; [vm_compute; reflexivity|].
  intros it [<-|[<-|[<-|[<-|[]]]]]; (split; [eexists; reflexivity|split; vm_compute; reflexivity]).
Qed.
