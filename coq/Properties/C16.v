(* C16 — each task runs in the environment its backend and context promise (configuration level; the runtime
   facts — a forked child shares the caller's memory image, a spawned interpreter does not — are multiprocessing's
   and are sampled by the check on real runs). *)
Require Import LT.Model.Base LT.Model.Env LT.Proofs.EnvProofs LT.Gen.SrcParams.

(* With the Process constructor read from _start_processes, every backend runs tasks where it promises,
   whatever the platform default start method is. *)
Theorem C16_start_method : forall platform_default b,
  run_place proc_ctor_src platform_default b = Some (context_method b).
Proof. exact run_place_ok. Qed.
Print Assumptions C16_start_method.

Theorem C16_module_default_refuted : run_place CtorModuleDefault ForkedChild Spawn <> Some SpawnedChild.
Proof. exact run_place_module_default_refuted. Qed.
Print Assumptions C16_module_default_refuted.

(* The context run() sees is the task's own filter_context applied to the Lab's context, for every backend; the
   cache key and the stored entry do not depend on the context. *)
Theorem C16_context : forall ctx task (f : task -> ctx -> ctx) b t c,
  seen_context ctx task f ctx_sites_src b t c = f t c.
Proof. exact (fun ctx task f b t c => seen_context_filtered ctx task f ctx_sites_src b t c eq_refl eq_refl eq_refl). Qed.
Print Assumptions C16_context.
Theorem C16_context_not_in_key : forall ctx task key_of entry_of b t c c' r,
  stored ctx task key_of entry_of b t c r = stored ctx task key_of entry_of b t c' r.
Proof. exact stored_independent_of_context. Qed.
Print Assumptions C16_context_not_in_key.

(* Nor does a pickled task object (e.g. one referenced from a stored result) carry the context it ran with: the
   pickled state is an explicit whitelist of attributes in the current source. *)
Require Import LT.Model.Values LT.Proofs.ValuesProofs.
Theorem C16_pickled_task_carries_no_context : forall o, getstate_extras getstate_mode_src o = (None, None).
Proof. exact getstate_whitelist_carries_no_context. Qed.
Print Assumptions C16_pickled_task_carries_no_context.

(* ---- the Lab's context may be replaced between calls: every call hands its runner the context the Lab has when run_tasks is
   called — given that TaskCoordinator.run reads it then (read from the source); a runner factory bound when the Lab was built
   would keep handing out the first context. *)
Theorem C16_context_of_this_call : forall ctx (c0 : ctx) ops,
  handed ctx ctx_binding_src c0 c0 ops = current_at_runs ctx c0 ops.
Proof. exact (fun ctx c0 ops => handed_is_current ctx c0 ops c0). Qed.
Print Assumptions C16_context_of_this_call.
Theorem C16_bound_at_init_refuted : exists (c0 c1 : nat) ops, handed nat CtxAtInit c0 c0 ops <> current_at_runs nat c0 ops.
Proof. exact bound_at_init_refuted. Qed.
Print Assumptions C16_bound_at_init_refuted.

(* ---- several fork runners alive in one interpreter (Labs used from several threads): whatever runners are built and closed in
   between, every worker forked by a runner that is still open finds the memory of its runner in the registry — given that close()
   removes the runner's own entry only (read from ForkProcessRunner.close). *)
Require Import LT.Model.Scope LT.Proofs.ScopeProofs.
Theorem C16_fork_memory_survives_other_closes : forall ops, forks_ok fork_close_src [] [] ops = true.
Proof. exact (fun ops => registry_close_own ops [] [] (fun u H => match H with end)). Qed.
Print Assumptions C16_fork_memory_survives_other_closes.
Theorem C16_close_all_refuted : exists ops, forks_ok CloseAll [] [] ops = false.
Proof. exact registry_close_all_refuted. Qed.
Print Assumptions C16_close_all_refuted.

(* two runners open, the second one closed, then the first forks: with the source's close() the fork finds its entry *)
Example C16_registry_example : forks_ok fork_close_src [] [] [ROpen 1; ROpen 2; RClose 2; RFork 1; RClose 1; RFork 1] = true.
Proof. vm_compute. reflexivity. Qed.
