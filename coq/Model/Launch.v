(* Launch.v — the line-level shape of ProcessExecutor._start_processes for one future (runners/process.py): the statements
   between which a KeyboardInterrupt may land, and the two executor tables.  Definitions only. *)
Require Import LT.Model.Base.
Require Export LT.Model.ParamTypes.

Inductive lstep := LCreate | LRegister | LRemove | LStart.      (* build the Process object; running[id] = ..; del pending[..]; start() *)
Record tables := { t_pending : list nat; t_running : list nat; t_started : list nat }.

Definition steps_of (o : launch_order) : list lstep :=
  match o with
  | RegisterThenRemove => [LCreate; LRegister; LRemove; LStart]
  | RemoveThenRegister => [LRemove; LCreate; LRegister; LStart]
  | LaunchUnknown => []
  end.

Definition lexec (i : nat) (t : tables) (s : lstep) : tables :=
  match s with
  | LCreate => t
  | LRegister => {| t_pending := t_pending t; t_running := t_running t ++ [i]; t_started := t_started t |}
  | LRemove => {| t_pending := remove1 i (t_pending t); t_running := t_running t; t_started := t_started t |}
  | LStart => {| t_pending := t_pending t; t_running := t_running t; t_started := t_started t ++ [i] |}
  end.

(* the state an interrupt finds when it lands before the k-th statement (k = number of statements already executed) *)
Definition interrupted_at (o : launch_order) (i : nat) (t : tables) (k : nat) : tables :=
  fold_left (lexec i) (firstn k (steps_of o)) t.

(* cancel() reaches the pending futures, stop() and the liveness check reach the running ones: a future in neither table is never
   cancelled, completed or failed *)
Definition tracked (i : nat) (t : tables) : bool := mem i (t_pending t) || mem i (t_running t).
(* a worker process exists only for futures the executor knows as running *)
Definition no_orphan (i : nat) (t : tables) : bool := negb (mem i (t_started t)) || mem i (t_running t).
