From Coq Require Import NArith List.
(* ParamTypes.v — types of the parameters that harness/srcparams.py reads from the current source. *)
Inductive cmp := CmpGe | CmpGt | CmpUnknown.              (* count <op> max_parallel  => skip *)
Inductive missing_mode := MContinue | MReturn | MUnknownMode.   (* remove_results on a task without a result *)
Inductive final_mode := FFilter | FIndex | FUnknownFinal.  (* final dict: filtered on membership, or results[task] *)
Record params := {
  p_cmp : cmp;
  p_dep_guard : bool;        (* get_ready_tasks skips tasks with pending dependencies *)
  p_missing : missing_mode;
  p_final : final_mode;
}.

(* serialization.Serializer.deserialize_value: recurses into lists/dicts (DRecursive) or not (DShallow) *)
Inductive deser_mode := DRecursive | DShallow | DUnknown.
(* tasks._task__setstate__: re-creates context/result_meta and re-runs post_init (SSReinit) or not (SSPlain) *)
Inductive setstate_mode := SSReinit | SSPlain | SSUnknown.

(* storage.validate_file_path_key / LocalStorage guards *)
Record storage_guards := {
  g_empty : bool;         (* "if not key: raise" present *)
  g_chars : list N;       (* disallowed_key_chars (single characters, code points) *)
  g_key_parent : bool;    (* key_path.parent != storage_path.resolve() -> raise *)
  g_file_parent : bool;   (* file_path.parent != key_path -> raise *)
  g_delete_validates : bool;   (* LocalStorage.delete goes through _key_to_path *)
}.

(* cache.BaseCache.save: which file is written first; what happens when the save raises part-way *)
Inductive save_order := MetaThenData | DataThenMeta | UnknownOrder.
Inductive save_cleanup := CleanupDelete | NoCleanup | UnknownCleanup.

(* process.ProcessExecutor._start_processes: how many pending futures are started; which Process constructor is used *)
Inductive start_policy := StartUpToMax | StartAllPending | StartUnknown.
(* ProcessExecutor.wait: are queued futures started on every poll, or only when a result was received? *)
Inductive wait_policy := WaitAlwaysStarts | WaitStartsIfReceived | WaitUnknown.
Inductive proc_ctor := CtorMpContext | CtorModuleDefault | CtorUnknown.

(* does each runner pass task.filter_context(<lab context>) as the context run() sees? *)
Record ctx_sites := { cf_serial : bool; cf_fork : bool; cf_spawn : bool }.

(* utils.LoggerFileProxy.flush: are the buffered fragments cleared once emitted? *)
Inductive flush_mode := FlushClears | FlushKeeps | FlushUnknown.

(* ProcessRunner.wait: is a done future removed from future_to_task before it is yielded, with KeyboardInterrupt let
   through (GenPopFirst), or are all done futures pruned only after the loop over them (GenPruneAfter)? *)
Inductive gen_mode := PopFirst | PruneAfter | GenUnknown.

(* tasks._task__getstate__: an explicit whitelist of attributes (fields, _lt, _is_task, cache_key, _results_map=None),
   or a copy of the instance dict *)
Inductive getstate_mode := GSWhitelist | GSVars | GSUnknown.

(* tasks._task_post_init: is the cache_key (re)computed after the user's post_init has run, or only before it? *)
Inductive key_mode := KeyAfterPostInit | KeyBeforePostInit | KeyUnknown.

(* ProcessExecutor._consume_result_queue: is the liveness of the worker processes sampled before the result queue is drained
   (a worker that delivers its result and exits during the drain is then simply seen at the next call), or after it? *)
Inductive snap_pos := SnapBefore | SnapAfter | SnapUnknown.

(* ProcessExecutor._start_processes, launching one future: is it registered in the running table before it is removed from the
   pending table (at every line boundary it is in at least one of them), or removed first? *)
Inductive launch_order := RegisterThenRemove | RemoveThenRegister | LaunchUnknown.

(* serialization.Serializer.serialize_value: is a parameter dict that would read back as a task / enum member (a marker key with
   a truthy value) wrapped as {"_is_dict": true, "items": ..}, or written as it is? *)
Inductive ser_mode := SerWrapsDicts | SerPlainDicts | SerUnknown.

(* runners: is the dict object that holds the in-memory results only ever mutated in place (the object registered for forked
   workers when the runner is built stays the one wait() fills), or is the attribute re-bound to a new dict at some point? *)
Inductive view_mode := ViewInPlace | ViewRebinds | ViewUnknown.
(* process runners: does every runner build an executor of its own (its tables start empty, its max_workers is the one the runner
   was given), or is an executor, or one of its tables, shared between the runners of one interpreter? *)
Inductive exec_scope := ExecPerRunner | ExecShared | ExecScopeUnknown.

(* lab.TaskState.complete_task / tasks._task_set_result_meta: is the result_meta of a completed task assigned to every instance
   unconditionally (MarkAlways), or only to instances that carry none yet (MarkIfUnset)? *)
Inductive mark_mode := MarkAlways | MarkIfUnset | MarkUnknown.

(* ProcessRunner.__init__: is the queue that carries the workers' log records to the caller a Manager queue (a put returns once the
   record is in the queue: what a task put before handing back its result is there before the result is) or a plain
   multiprocessing.Queue (a put only fills a buffer that a feeder thread writes out later)? *)
Inductive log_queue_kind := LogQueueSync | LogQueueAsync | LogQueueUnknown.

(* lab.TaskCoordinator.run: is the runner of a call built from the Lab's context as it is when run_tasks is called (CtxAtRun), or
   from something bound when the Lab was constructed (CtxAtInit)? *)
Inductive ctx_binding := CtxAtRun | CtxAtInit | CtxBindUnknown.

(* lab.TaskCoordinator.run / process_completed_tasks: which outcomes handed back by runner.wait() count as a failed task —
   every BaseException instance (what the runners catch and hand back), or Exception instances only? *)
Inductive fail_test := FailBaseException | FailException | FailTestUnknown.

(* ForkProcessRunner.close: does closing a runner remove its own entry of the fork-memory registry only, or empty the registry? *)
Inductive close_mode := CloseOwn | CloseAll | CloseUnknown.

(* Lab.is_cached: the answer of the task type's cache class for the Lab's storage, asked every time (IsCachedAsksCache); the bare
   existence of the key in the storage (IsCachedAsksStorage); or an answer the Lab object may have remembered (IsCachedMemoises). *)
Inductive is_cached_mode := IsCachedAsksCache | IsCachedAsksStorage | IsCachedMemoises | IsCachedUnknown.
