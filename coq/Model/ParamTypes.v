(* ParamTypes.v — types of the parameters that harness/srcparams.py reads from the current source. *)
Inductive cmp := CmpGe | CmpGt | CmpUnknown.              (* count <op> max_parallel  => skip *)
Inductive missing_mode := MContinue | MReturn | MUnknownMode.   (* remove_results on a task without a result *)
Inductive final_mode := FFilter | FIndex | FUnknownFinal.  (* final dict: filtered on membership, or results[task] *)
Record params := {
  p_cmp : cmp;
  p_dep_guard : bool;        (* get_ready_tasks skips tasks with pending dependencies *)
  p_missing : missing_mode;
  p_final : final_mode;
}.
