(* Listing.v — Lab.cached_tasks (lab.py) over BaseCache.load_task / load_metadata (cache.py): which entries of a storage
   are listed for which task types.  An entry is what load_metadata reads: its key, the 'cache' field and the 'task'
   field of metadata.json, and the stored result_meta (an opaque token).  Task types are given by the class name
   (module.qualname, as the serialiser writes it), the KEY_PREFIX and the class name of their cache. *)
Require Import LT.Model.Values LT.Model.ParamTypes LT.Model.ValuesCheck.

Record ttype := { tt_cls : str; tt_prefix : str; tt_cache : str }.
Record entry := { en_key : str; en_cache : option str; en_task : json; en_meta : nat }.

Fixpoint prefix_of (p s : str) : bool :=                     (* s.startswith(p) *)
  match p, s with
  | [], _ => true
  | a :: p', b :: s' => N.eqb a b && prefix_of p' s'
  | _ :: _, [] => false
  end.

Definition task_cls (t : value) : str := match t with VTask c _ => c | _ => [] end.

Inductive lres := Found (t : value) (m : nat) | NotFound | Crash.

Section Listing.
  Variable mode : deser_mode.
  Variable e : env.

  (* load_task: TaskNotFound unless the key starts with prefix+qualname, the entry was written by this cache class and the
     stored task is an instance of the type; a stored task that cannot be rebuilt raises something else (Crash) *)
  Definition load_task (ty : ttype) (en : entry) : lres :=
    if prefix_of (tt_prefix ty ++ qualname_of (tt_cls ty)) (en_key en) then
      match en_cache en with
      | Some c =>
        if str_eqb c (tt_cache ty) then
          match deser mode e (en_task en) with
          | Some (VTask c' fs) => if str_eqb c' (tt_cls ty) then Found (VTask c' fs) (en_meta en) else NotFound
          | Some _ => Crash
          | None => Crash
          end
        else NotFound
      | None => NotFound
      end
    else NotFound.

  (* for key in keys: for task_type in task_types: try load_task .. except TaskNotFound: pass  else: append; break *)
  Fixpoint first_load (tys : list ttype) (en : entry) : lres :=
    match tys with
    | [] => NotFound
    | ty :: r => match load_task ty en with
                 | NotFound => first_load r en
                 | res => res
                 end
    end.

  Fixpoint cached_tasks (tys : list ttype) (store : list entry) : option (list (value * nat)) :=
    match store with
    | [] => Some []
    | en :: r =>
      match first_load tys en with
      | Crash => None
      | NotFound => cached_tasks tys r
      | Found t m => option_map (cons (t, m)) (cached_tasks tys r)
      end
    end.
End Listing.

(* what BaseCache.save writes for task t of type ty with result_meta token m *)
Section Save.
  Variable dumps : json -> str.
  Variable H : str -> str.
  Definition save_entry (ty : ttype) (t : value) (m : nat) : entry :=
    {| en_key := cache_key dumps H (tt_prefix ty) t; en_cache := Some (tt_cache ty); en_task := ser t; en_meta := m |}.
End Save.

(* ---- correspondence case: a real storage directory as read by the harness, a query, and what Lab.cached_tasks gave *)
Record lcase := {
  lc_types : list ttype;
  lc_store : list entry;                         (* in find_keys order *)
  lc_got : option (list (value * nat));          (* None: cached_tasks raised *)
}.
Definition vm_eqb (a b : value * nat) : bool := value_eqb (fst a) (fst b) && Nat.eqb (snd a) (snd b).
Definition check_lcase (m : deser_mode) (e : env) (k : lcase) : bool :=
  opt_eqb (list_eqb vm_eqb) (cached_tasks m e (lc_types k) (lc_store k)) (lc_got k).
