(* Cache.v — one cache entry as files in a key directory, a save as a sequence of storage effects, faults and
   crashes during a save.  Mirrors cache.py BaseCache.save 66-86, PickleCache.save_result/load_result 170-178,
   BaseCache.is_cached 63-64 / load_result_with_meta 119-125 / delete, storage.py LocalStorage.file_handle 86-96.
   Keys are numbers (their injectivity is C07); file contents are numbers (pickle/json round trips are assumed). *)
Require Import LT.Model.Base.
Require Export LT.Model.ParamTypes.

Inductive fstate := FAbsent | FPartial | FComplete (content : nat).
Record entry := { e_meta : fstate; e_data : fstate }.
Definition fstore := list (nat * entry).          (* key present <=> the key directory exists *)

Inductive which := Meta | Data.
Inductive fsop :=
| Mkdir (k : nat)
| OpenW (k : nat) (f : which)                      (* truncating open *)
| Write (k : nat) (f : which) (last : bool) (content : nat)
| Close (k : nat) (f : which) (content : nat).

Definition get (st : fstore) (k : nat) : option entry := lookup st k.
Definition put (st : fstore) (k : nat) (e : entry) : fstore := (k, e) :: del k st.
Definition set_file (e : entry) (f : which) (x : fstate) : entry :=
  match f with Meta => {| e_meta := x; e_data := e_data e |} | Data => {| e_meta := e_meta e; e_data := x |} end.

(* [flushed]: whether bytes handed to write() have reached the disk when the writer stops *)
Definition apply_op (flushed : bool) (st : fstore) (op : fsop) : fstore :=
  match op with
  | Mkdir k => match get st k with Some _ => st | None => put st k {| e_meta := FAbsent; e_data := FAbsent |} end
  | OpenW k f => match get st k with Some e => put st k (set_file e f FPartial) | None => st end
  | Write k f last c =>
    match get st k with
    | Some e => put st k (set_file e f (if last && flushed then FComplete c else FPartial))
    | None => st
    end
  | Close k f c => match get st k with Some e => put st k (set_file e f (FComplete c)) | None => st end
  end.

Fixpoint writes (k : nat) (f : which) (n : nat) (c : nat) : list fsop :=
  match n with
  | 0 => []
  | 1 => [Write k f true c]
  | S n' => Write k f false c :: writes k f n' c
  end.

(* the order in which BaseCache.save touches the storage: metadata first or data first (SrcParams) *)
Definition save_ops (order : save_order) (k m d wm wd : nat) : list fsop :=
  let meta := OpenW k Meta :: writes k Meta wm m ++ [Close k Meta m] in
  let data := OpenW k Data :: writes k Data wd d ++ [Close k Data d] in
  match order with
  | MetaThenData => Mkdir k :: meta ++ Mkdir k :: data
  | DataThenMeta => Mkdir k :: data ++ Mkdir k :: meta
  | UnknownOrder => []
  end.

Definition apply_ops (flushed : bool) (st : fstore) (ops : list fsop) : fstore := fold_left (apply_op flushed) ops st.

Definition is_cached (st : fstore) (k : nat) : bool := has st k.
Definition load (st : fstore) (k : nat) : option (nat * nat) :=     (* (data, meta) *)
  match get st k with
  | Some {| e_meta := FComplete m; e_data := FComplete d |} => Some (d, m)
  | _ => None
  end.
Definition delete (st : fstore) (k : nat) : fstore := del k st.

(* a save that is interrupted after [n] storage effects by an exception; the code then runs its handler *)
Definition failed_save (cleanup : save_cleanup) (order : save_order) (flushed : bool) (st : fstore)
           (k m d wm wd n : nat) : fstore :=
  let st' := apply_ops flushed st (firstn n (save_ops order k m d wm wd)) in
  match cleanup with
  | CleanupDelete => delete st' k
  | _ => st'
  end.
(* the writer vanishes after [n] storage effects: no handler runs *)
Definition crashed_save (order : save_order) (flushed : bool) (st : fstore) (k m d wm wd n : nat) : fstore :=
  apply_ops flushed st (firstn n (save_ops order k m d wm wd)).

(* an entry never looks cached while being unloadable *)
Definition consistent (st : fstore) (k : nat) : bool :=
  negb (is_cached st k) || match load st k with Some _ => true | None => false end.

(* ---- correspondence case for fault injection *)
Record fcase := {
  fc_overwrite : bool;             (* an older complete entry (content 1/1) exists *)
  fc_wm : nat; fc_wd : nat;        (* number of write() calls for metadata / data *)
  fc_n : nat;                      (* storage effects completed before the fault *)
  fc_crash : bool;                 (* process killed (no handler) instead of an exception *)
  fc_flushed : bool;
  fc_cached : bool;                (* observed afterwards: is_cached *)
  fc_loaded : option nat;          (* observed afterwards: which value loads (1 = old, 2 = new), None = load fails *)
}.
Definition check_fcase (cl : save_cleanup) (order : save_order) (k : fcase) : bool :=
  let st0 := if fc_overwrite k then [(7, {| e_meta := FComplete 1; e_data := FComplete 1 |})] else [] in
  let st := if fc_crash k then crashed_save order (fc_flushed k) st0 7 2 2 (fc_wm k) (fc_wd k) (fc_n k)
            else failed_save cl order (fc_flushed k) st0 7 2 2 (fc_wm k) (fc_wd k) (fc_n k) in
  Bool.eqb (is_cached st 7) (fc_cached k)
  && opt_eqb Nat.eqb (option_map fst (load st 7)) (fc_loaded k).
