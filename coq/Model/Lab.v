(* Lab.v — histories of Lab operations over the persisted store.  Mirrors lab.py Lab.run_tasks / uncache_tasks /
   is_cached / cached_tasks 390-515 at the level of task identities; run_tasks is Sched.run started from the
   current store. *)
Require Import LT.Model.Base LT.Model.Sched.

Inductive labop :=
| LRun (rq : list nat) (bst cnt : bool) (fails : list nat) (o : list batch)   (* fails: tasks whose run() raises in this call *)
| LUncache (ts : list nat)
| LIsCached (t : nat)
| LCached (tys : list nat).

Inductive labout :=
| ORun (out : outcome)
| OUnit
| OBool (b : bool)
| OList (l : list nat).       (* sorted, duplicate-free *)

Definition with_run (c : cfg) (st : list (nat * val)) (rq : list nat) (bst cnt : bool) (fails : list nat) : cfg :=
  {| ntasks := ntasks c; deps := deps c; reads := reads c;
     behs := map (fun t => if mem t fails then BRaise else beh_of c t) (seq 0 (ntasks c));
     ty := ty c; maxpar := maxpar c;
     cacheable := cacheable c; req := rq; pre := st; bust := bst; cont := cnt |}.

Definition lab_step (p : params) (c : cfg) (st : list (nat * val)) (op : labop) : list (nat * val) * labout :=
  match op with
  | LRun rq b k fl o => let '(out, s) := run p (with_run c st rq b k fl) o in (store s, ORun out)
  | LUncache ts => (del_all ts st, OUnit)
  | LIsCached t => (st, OBool (has st t))
  | LCached tys => (st, OList (sort_nat (dedup (filter (fun t => mem (ty_of c t) tys) (keys st)))))
  end.

Fixpoint lab_run (p : params) (c : cfg) (st : list (nat * val)) (ops : list labop) : list (nat * val) * list labout :=
  match ops with
  | [] => (st, [])
  | op :: ops' => let '(st1, out) := lab_step p c st op in
                  let '(st2, outs) := lab_run p c st1 ops' in (st2, out :: outs)
  end.

(* ---- correspondence case: a history and what the implementation answered *)
Definition labout_eqb (a b : labout) : bool :=
  match a, b with
  | ORun x, ORun y => outcome_eqb x y
  | OUnit, OUnit => true
  | OBool x, OBool y => Bool.eqb x y
  | OList x, OList y => list_eqb Nat.eqb x y
  | _, _ => false
  end.
Record hcase := {
  h_cfg : cfg;
  h_ops : list labop;
  h_outs : list labout;          (* observed *)
  h_final : list nat;            (* observed: tasks reported cached at the end, sorted *)
}.
Definition check_hcase (p : params) (k : hcase) : bool :=
  let '(st, outs) := lab_run p (h_cfg k) [] (h_ops k) in
  list_eqb labout_eqb outs (h_outs k)
  && list_eqb Nat.eqb (sort_nat (dedup (keys st))) (h_final k).

(* ---- what Lab.is_cached answers, given what the task type's cache class says about the current store, whether the key directory
   exists in the storage, and what this Lab object answered for the task earlier *)
Definition lab_is_cached (m : is_cached_mode) (cache_says storage_has answered_true_before : bool) : bool :=
  match m with
  | IsCachedAsksCache => cache_says
  | IsCachedAsksStorage => storage_has
  | _ => answered_true_before || cache_says
  end.
