(* Env.v — where and with what a task's run() executes under each backend.  Mirrors
     runners/serial.py SerialRunner.wait 29-59, runners/process.py ProcessExecutor._start_processes 130-147,
     SpawnProcessRunner._get_mp_context/_submit_task 436-463, ForkProcessRunner 493-541, runners/base.py 62-99,
     cache.py BaseCache.cache_key/save (no context argument). *)
Require Import LT.Model.Base.
Require Export LT.Model.ParamTypes.

Inductive backend := Serial | Fork | Spawn.
Inductive place :=
| InCaller                  (* the caller's process and thread *)
| ForkedChild               (* own child process created by fork: inherits the caller's memory *)
| SpawnedChild.             (* own freshly started interpreter *)

(* the start method of the multiprocessing context each process runner asks for *)
Definition context_method (b : backend) : place :=
  match b with Serial => InCaller | Fork => ForkedChild | Spawn => SpawnedChild end.

(* where run() executes, given which Process constructor _start_processes calls and the platform's default *)
Definition run_place (ctor : proc_ctor) (platform_default : place) (b : backend) : option place :=
  match b with
  | Serial => Some InCaller
  | _ => match ctor with
         | CtorMpContext => Some (context_method b)
         | CtorModuleDefault => Some platform_default
         | CtorUnknown => None
         end
  end.

(* the context a task sees: every backend applies the task's own filter_context to the Lab's context
   (serial: in wait(); fork: inside the child; spawn: in the parent before the hand-over) *)
Section Ctx.
  Variable ctx task : Type.
  Variable filter_context : task -> ctx -> ctx.
  Variable sites : ctx_sites.
  Definition seen_context (b : backend) (t : task) (lab_context : ctx) : ctx :=
    if (match b with Serial => cf_serial sites | Fork => cf_fork sites | Spawn => cf_spawn sites end)
    then filter_context t lab_context else lab_context.
  (* cache_key and save take the task (and its result) only *)
  Variable key_of : task -> nat.
  Variable entry_of : task -> nat -> nat.
  Definition stored (b : backend) (t : task) (lab_context : ctx) (result : nat) : nat * nat :=
    (key_of t, entry_of t result).
End Ctx.

(* ---- the Lab's context over the life of a Lab object: it may be given another context object between calls; each call hands a
   context to the runner it builds (which then applies the per-task filter above). *)
Section LabCtx.
  Variable ctx : Type.
  Inductive lab_op := LSetContext (c : ctx) | LRun.
  Fixpoint handed (b : ctx_binding) (initial current : ctx) (ops : list lab_op) : list ctx :=
    match ops with
    | [] => []
    | LSetContext c :: ops' => handed b initial c ops'
    | LRun :: ops' => (match b with CtxAtRun => current | _ => initial end) :: handed b initial current ops'
    end.
  (* the Lab's context at the moment of each call *)
  Fixpoint current_at_runs (current : ctx) (ops : list lab_op) : list ctx :=
    match ops with
    | [] => []
    | LSetContext c :: ops' => current_at_runs c ops'
    | LRun :: ops' => current :: current_at_runs current ops'
    end.
End LabCtx.
