(* Exec.v — ProcessExecutor (runners/process.py 120-227) as a state machine, with the worker processes as an
   environment that can finish (put a result, exit) or be killed.  Definitions only. *)
Require Import LT.Model.Base.
Require Export LT.Model.ParamTypes.

Inductive fut := FPending | FCancelled | FFinished (ok : bool).     (* ok=false: an exception (incl. TaskDiedError) *)
Record proc := { p_alive : bool }.

Record ex := {
  maxw : nat;
  pendq : list nat;                  (* _pending_future_to_thunk, insertion order (future ids) *)
  running : list (nat * proc);       (* _running_id_to_future_and_process, insertion order *)
  rqueue : list (nat * bool);        (* result queue, oldest first: (future id, result is not an exception) *)
  futs : list (nat * fut);           (* every future created so far *)
  next : nat;
}.

Definition fut_of (e : ex) (i : nat) : fut := match lookup (futs e) i with Some f => f | None => FPending end.
Definition done (f : fut) : bool := match f with FPending => false | _ => true end.
Definition set_fut (e : ex) (i : nat) (f : fut) : list (nat * fut) := (i, f) :: del i (futs e).

(* _start_processes: start_count = max(0, max_workers - len(running)); the oldest pending futures are started.
   [sp] says how the source computes the number to start (SrcParams). *)
Definition start_count (sp : start_policy) (e : ex) : nat :=
  match sp with
  | StartUpToMax => maxw e - List.length (running e)        (* truncated subtraction = max 0 (..) *)
  | StartAllPending => List.length (pendq e)
  | StartUnknown => 0
  end.
Definition start_processes (sp : start_policy) (e : ex) : ex :=
  let n := start_count sp e in
  {| maxw := maxw e; pendq := skipn n (pendq e);
     running := running e ++ map (fun i => (i, {| p_alive := true |})) (firstn n (pendq e));
     rqueue := rqueue e; futs := futs e; next := next e |}.

Definition submit (sp : start_policy) (e : ex) : ex :=
  start_processes sp
    {| maxw := maxw e; pendq := pendq e ++ [next e]; running := running e; rqueue := rqueue e;
       futs := (next e, FPending) :: futs e; next := S (next e) |}.

Definition cancel (e : ex) : ex :=
  {| maxw := maxw e; pendq := []; running := running e; rqueue := rqueue e;
     futs := fold_left (fun fs i => (i, FCancelled) :: del i fs) (pendq e) (futs e); next := next e |}.

Definition stop (e : ex) : ex :=
  {| maxw := maxw e; pendq := pendq e; running := []; rqueue := rqueue e;
     futs := fold_left (fun fs ip => (fst ip, FCancelled) :: del (fst ip) fs) (running e) (futs e); next := next e |}.

(* the environment: a worker puts its result, exits, or is killed *)
Inductive envstep := EnvPut (i : nat) (ok : bool) | EnvExit (i : nat) | EnvKill (i : nat).
Definition set_dead (i : nat) (r : list (nat * proc)) : list (nat * proc) :=
  map (fun ip => if Nat.eqb (fst ip) i then (fst ip, {| p_alive := false |}) else ip) r.
Definition env (e : ex) (s : envstep) : ex :=
  match s with
  | EnvPut i ok => {| maxw := maxw e; pendq := pendq e; running := running e; rqueue := rqueue e ++ [(i, ok)];
                     futs := futs e; next := next e |}
  | EnvExit i | EnvKill i =>
    {| maxw := maxw e; pendq := pendq e; running := set_dead i (running e); rqueue := rqueue e;
       futs := futs e; next := next e |}
  end.

(* _consume_result_queue: liveness is sampled first, then the queue is drained (a result whose future is no longer
   registered as running makes the consumer thread die: the rest of the queue stays for the next call), then the
   sampled-dead futures that are still not done fail with TaskDiedError *)
Definition apply_result (e : ex) (i : nat) (ok : bool) : ex :=
  {| maxw := maxw e; pendq := pendq e; running := del i (running e); rqueue := rqueue e;
     futs := if done (fut_of e i) then futs e else set_fut e i (FFinished ok); next := next e |}.
Fixpoint drain (q : list (nat * bool)) (e : ex) : ex :=
  match q with
  | [] => {| maxw := maxw e; pendq := pendq e; running := running e; rqueue := []; futs := futs e; next := next e |}
  | (i, ok) :: q' =>
    if has (running e) i then drain q' (apply_result e i ok)
    else {| maxw := maxw e; pendq := pendq e; running := running e; rqueue := q'; futs := futs e; next := next e |}
  end.
Definition fail_dead (e : ex) (i : nat) : ex :=
  if done (fut_of e i) then e
  else {| maxw := maxw e; pendq := pendq e; running := del i (running e); rqueue := rqueue e;
          futs := set_fut e i (FFinished false); next := next e |}.
Definition dead_ids (e : ex) : list nat := map fst (filter (fun ip => negb (p_alive (snd ip))) (running e)).
Definition consume (e : ex) : ex := fold_left fail_dead (dead_ids e) (drain (rqueue e) e).

Definition wait (sp : start_policy) (wp : wait_policy) (e : ex) : ex :=
  match wp with
  | WaitAlwaysStarts => start_processes sp (consume e)
  | WaitStartsIfReceived => match rqueue e with [] => consume e | _ :: _ => start_processes sp (consume e) end
  | WaitUnknown => consume e
  end.

Inductive exop := XSubmit | XWait (envs : list envstep) | XCancel | XStop.
Definition exstep (sp : start_policy) (wp : wait_policy) (e : ex) (o : exop) : ex :=
  match o with
  | XSubmit => submit sp e
  | XWait envs => wait sp wp (fold_left env envs e)
  | XCancel => cancel e
  | XStop => stop e
  end.
(* every state the executor passes through between calls *)
Fixpoint states (sp : start_policy) (wp : wait_policy) (e : ex) (ops : list exop) : list ex :=
  match ops with
  | [] => [e]
  | o :: ops' => e :: states sp wp (exstep sp wp e o) ops'
  end.
Definition init_ex (w : nat) : ex := {| maxw := w; pendq := []; running := []; rqueue := []; futs := []; next := 0 |}.

(* ---- correspondence case: the executor calls of one run and the state observed after each *)
Record xobs := { xo_running : list nat; xo_pendq : list nat; xo_done : list (nat * nat) }.   (* status: 0 cancelled 1 ok 2 exception *)
Record xcase := { xc_maxw : nat; xc_ops : list exop; xc_obs : list xobs }.
Definition status (f : fut) : option nat :=
  match f with FPending => None | FCancelled => Some 0 | FFinished true => Some 1 | FFinished false => Some 2 end.
Definition obs_of (e : ex) : xobs :=
  {| xo_running := map fst (running e); xo_pendq := pendq e;
     xo_done := flat_map (fun i => match status (fut_of e i) with Some s => [(i, s)] | None => [] end) (seq 0 (next e)) |}.
Definition pair_eqb (a b : nat * nat) : bool := Nat.eqb (fst a) (fst b) && Nat.eqb (snd a) (snd b).
Definition xobs_eqb (a b : xobs) : bool :=
  list_eqb Nat.eqb (xo_running a) (xo_running b) && list_eqb Nat.eqb (xo_pendq a) (xo_pendq b)
  && list_eqb pair_eqb (xo_done a) (xo_done b).
Fixpoint run_ex (sp : start_policy) (wp : wait_policy) (e : ex) (ops : list exop) : list xobs :=
  match ops with
  | [] => []
  | o :: ops' => let e' := exstep sp wp e o in obs_of e' :: run_ex sp wp e' ops'
  end.
Definition check_xcase (sp : start_policy) (wp : wait_policy) (k : xcase) : bool :=
  list_eqb xobs_eqb (run_ex sp wp (init_ex (xc_maxw k)) (xc_ops k)) (xc_obs k).

(* ---- a finer view of one wait(): workers may finish while it runs.  [late] are the environment steps that happen after the
   drain of the result queue and before the executor looks at anything else; [sn] says where the liveness snapshot is taken. *)
Definition consume_fine (sn : snap_pos) (late : list envstep) (e : ex) : ex :=
  let e2 := fold_left env late (drain (rqueue e) e) in
  match sn with
  | SnapBefore => fold_left fail_dead (dead_ids e) e2
  | SnapAfter => fold_left fail_dead (dead_ids e2) e2
  | SnapUnknown => e2
  end.
Definition wait_fine (sp : start_policy) (sn : snap_pos) (late : list envstep) (e : ex) : ex :=
  start_processes sp (consume_fine sn late e).
Definition env_id (s : envstep) : nat := match s with EnvPut i _ | EnvExit i | EnvKill i => i end.
