(* Paths.v — LocalStorage's path validation and the filesystem operations it issues.  Mirrors
     storage.py validate_file_path_key 15-27, LocalStorage._key_to_path/exists/file_handle/delete 72-101.
   pathlib's Path.resolve() is the runtime's: it enters as the oracle functions [rs] (resolve of base/name) and
   [rroot] (resolve of the storage path); the harness records the real results and feeds them to the model. *)
Require Import LT.Model.Values.       (* str, str_eqb *)

Definition path := list str.          (* absolute, canonical: components below "/" *)
Inductive perr := StorageErr | ValueErr | RuntimeErr | OSErr.
Inductive res (A : Type) := Ok (a : A) | Err (e : perr).
Arguments Ok {A} a. Arguments Err {A} e.

Fixpoint path_eqb (a b : path) : bool :=
  match a, b with
  | [], [] => true
  | x :: a', y :: b' => str_eqb x y && path_eqb a' b'
  | _, _ => false
  end.
Definition parent (p : path) : path := removelast p.

Inductive effect :=
| StatE (p : path)
| MkdirE (p : path)
| OpenE (p : path) (mode : str)
| RmtreeE (p : path).
Definition effect_path (e : effect) : path :=
  match e with StatE p | MkdirE p | OpenE p _ | RmtreeE p => p end.

Section Ops.
  Variable g : storage_guards.
  Variable rs : path -> str -> res path.     (* (base / name).resolve() *)
  Variable rroot : path -> res path.         (* base.resolve() *)
  Variable ex : path -> bool.                (* Path.exists() *)

  Definition key_chars_ok (key : str) : bool :=
    negb (existsb (fun ch => existsb (N.eqb ch) (g_chars g)) key).

  (* validate_file_path_key followed by the second resolve of _key_to_path *)
  Definition key_to_path (root : path) (key : str) : res path :=
    if g_empty g && match key with [] => true | _ => false end then Err StorageErr
    else if negb (key_chars_ok key) then Err StorageErr
    else match rs root key with
         | Err e => Err e
         | Ok kp =>
           match rroot root with
           | Err e => Err e
           | Ok r => if g_key_parent g && negb (path_eqb (parent kp) r) then Err StorageErr else Ok kp
           end
         end.

  (* each operation: the effects issued (in order) and how the call ends *)
  Definition op_exists (root : path) (key : str) : list effect * res unit :=
    match key_to_path root key with
    | Err e => ([], Err e)
    | Ok kp => ([StatE kp], Ok tt)
    end.

  Definition op_file_handle (root : path) (key filename mode : str) : list effect * res unit :=
    match key_to_path root key with
    | Err e => ([], Err e)
    | Ok kp =>
      match rs kp filename with
      | Err e => ([MkdirE kp], Err e)
      | Ok fp =>
        if g_file_parent g && negb (path_eqb (parent fp) kp) then ([MkdirE kp], Err StorageErr)
        else ([MkdirE kp; OpenE fp mode], Ok tt)
      end
    end.

  Definition op_delete (root : path) (key : str) : list effect * res unit :=
    match (if g_delete_validates g then key_to_path root key else rs root key) with
    | Err e => ([], Err e)
    | Ok kp => (StatE kp :: (if ex kp then [RmtreeE kp] else []), Ok tt)
    end.
End Ops.

(* ---- correspondence case: one operation on one sandbox layout *)
Inductive opkind := OpExists | OpFile (filename mode : str) | OpDelete.
Record pcase := {
  pc_root : path;
  pc_key : str;
  pc_op : opkind;
  pc_rs_key : res path;              (* observed (root/key).resolve() *)
  pc_rroot : res path;               (* observed root.resolve() *)
  pc_rs_file : res path;             (* observed (key_path/filename).resolve(), if it gets that far *)
  pc_exists : bool;                  (* observed key_path.exists() *)
  pc_outcome : option perr;          (* observed: None = returned normally (or an OS error from the final mkdir/open/rmtree) *)
  pc_touched : list path;            (* observed: paths created, modified or removed *)
}.
Definition perr_eqb (a b : perr) : bool :=
  match a, b with StorageErr, StorageErr | ValueErr, ValueErr | RuntimeErr, RuntimeErr | OSErr, OSErr => true | _, _ => false end.

Definition is_prefix (a b : path) : bool :=
  (fix go (a b : path) : bool := match a, b with [] , _ => true | x :: a', y :: b' => str_eqb x y && go a' b' | _, _ => false end) a b.

(* what an effect may touch *)
Definition may_touch (e : effect) (p : path) : bool :=
  match e with
  | StatE _ => false
  | MkdirE q => path_eqb p q
  | OpenE q _ => path_eqb p q
  | RmtreeE q => is_prefix q p
  end.

Definition run_pcase (g : storage_guards) (k : pcase) : list effect * res unit :=
  let rs := fun base name => if path_eqb base (pc_root k) then pc_rs_key k else pc_rs_file k in
  let rroot := fun _ => pc_rroot k in
  let ex := fun _ => pc_exists k in
  match pc_op k with
  | OpExists => op_exists g rs rroot (pc_root k) (pc_key k)
  | OpFile f m => op_file_handle g rs rroot (pc_root k) (pc_key k) f m
  | OpDelete => op_delete g rs rroot ex (pc_root k) (pc_key k)
  end.

Definition check_pcase (g : storage_guards) (k : pcase) : bool :=
  let '(effs, out) := run_pcase g k in
  match out, pc_outcome k with
  | Err e, Some e' => perr_eqb e e'
  | Ok _, None => true
  | Ok _, Some OSErr => true           (* the final mkdir/open/rmtree itself may fail in the OS *)
  | _, _ => false
  end
  && forallb (fun p => existsb (fun e => may_touch e p) effs) (pc_touched k).
