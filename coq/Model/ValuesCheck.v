(* ValuesCheck.v — decidable equalities and the correspondence-case checkers for Model/Values.v. *)
Require Import LT.Model.Values.
From Coq Require Import String.

Definition scalar_eqb (a b : scalar) : bool :=
  match a, b with
  | SNone, SNone => true
  | SBool x, SBool y => Bool.eqb x y
  | SInt x, SInt y => Z.eqb x y
  | SFloat x, SFloat y => N.eqb x y
  | SStr x, SStr y => str_eqb x y
  | SEnum c m, SEnum c' m' => str_eqb c c' && str_eqb m m'
  | _, _ => false
  end.

Fixpoint value_eqb (a b : value) {struct a} : bool :=
  match a, b with
  | VScal x, VScal y => scalar_eqb x y
  | VTuple xs, VTuple ys =>
    (fix go (xs ys : list value) {struct xs} : bool :=
       match xs, ys with
       | [], [] => true
       | x :: xs', y :: ys' => value_eqb x y && go xs' ys'
       | _, _ => false
       end) xs ys
  | VDict xs, VDict ys =>
    (fix go (xs ys : list (str * value)) {struct xs} : bool :=
       match xs, ys with
       | [], [] => true
       | (k, x) :: xs', (k', y) :: ys' => str_eqb k k' && value_eqb x y && go xs' ys'
       | _, _ => false
       end) xs ys
  | VTask c xs, VTask d ys =>
    str_eqb c d &&
    (fix go (xs ys : list (str * value)) {struct xs} : bool :=
       match xs, ys with
       | [], [] => true
       | (k, x) :: xs', (k', y) :: ys' => str_eqb k k' && value_eqb x y && go xs' ys'
       | _, _ => false
       end) xs ys
  | _, _ => false
  end.

Fixpoint json_eqb (a b : json) {struct a} : bool :=
  match a, b with
  | JNull, JNull => true
  | JBool x, JBool y => Bool.eqb x y
  | JInt x, JInt y => Z.eqb x y
  | JFloat x, JFloat y => N.eqb x y
  | JStr x, JStr y => str_eqb x y
  | JArr xs, JArr ys =>
    (fix go (xs ys : list json) {struct xs} : bool :=
       match xs, ys with
       | [], [] => true
       | x :: xs', y :: ys' => json_eqb x y && go xs' ys'
       | _, _ => false
       end) xs ys
  | JObj xs, JObj ys =>
    (fix go (xs ys : list (str * json)) {struct xs} : bool :=
       match xs, ys with
       | [], [] => true
       | (k, x) :: xs', (k', y) :: ys' => str_eqb k k' && json_eqb x y && go xs' ys'
       | _, _ => false
       end) xs ys
  | _, _ => false
  end.

Definition opt_eqb {A} (eqb : A -> A -> bool) (a b : option A) : bool :=
  match a, b with Some x, Some y => eqb x y | None, None => true | _, _ => false end.
Definition list_eqb {A} (eqb : A -> A -> bool) : list A -> list A -> bool :=
  fix go (xs ys : list A) : bool :=
    match xs, ys with
    | [], [] => true
    | x :: xs', y :: ys' => eqb x y && go xs' ys'
    | _, _ => false
    end.

(* Python's == on the scalars the generator uses: bool/int are numerically equal, +0.0 == -0.0, NaN differs
   from everything (including itself); enum members, strings, None compare structurally. *)
Definition canon_nan : N := 9221120237041090560.
(* the integral floats the generator uses: +-0.0, 1.0, 2.0 (as IEEE bit patterns) *)
Definition float_int (x : N) : option Z :=
  if N.eqb x 0 || N.eqb x 9223372036854775808 then Some 0%Z
  else if N.eqb x 4607182418800017408 then Some 1%Z
  else if N.eqb x 4611686018427387904 then Some 2%Z
  else None.
Definition seq_py (a b : scalar) : bool :=
  match a, b with
  | SBool x, SInt y | SInt y, SBool x => Z.eqb (if x then 1 else 0) y
  | SFloat x, SFloat y =>
    if N.eqb x canon_nan then false
    else N.eqb x y || ((N.eqb x 0 || N.eqb x 9223372036854775808) && (N.eqb y 0 || N.eqb y 9223372036854775808))
  | SFloat x, SInt y | SInt y, SFloat x => match float_int x with Some z => Z.eqb z y | None => false end
  | SFloat x, SBool y | SBool y, SFloat x => match float_int x with Some z => Z.eqb z (if y then 1 else 0) | None => false end
  | _, _ => scalar_eqb a b
  end.

Record vcase := {
  vc_raw : raw;
  vc_norm : option value;          (* observed: the normalised parameter, None = TaskError *)
  vc_found : list value;           (* observed: find_tasks_in_param of it *)
  vc_ser : json;                   (* observed: serialize_task of V2(x=it) *)
  vc_deser : option value;         (* observed: deserialize_task(json round trip), None = raised *)
}.
Definition v2 : str := Eval compute in s2l "lv_universe.V2"%string.
Definition kx : str := Eval compute in s2l "x"%string.
Definition wrap (v : value) : value := VTask v2 [(kx, v)].

Definition check_vcase (m : deser_mode) (e : env) (k : vcase) : bool :=
  opt_eqb value_eqb (normalize (vc_raw k)) (vc_norm k) &&
  match vc_norm k with
  | None => true
  | Some v =>
    list_eqb value_eqb (find_tasks v) (vc_found k)
    && json_eqb (ser (wrap v)) (vc_ser k)
    && opt_eqb value_eqb (deser m e (ser (wrap v))) (vc_deser k)
  end.

Definition check_norm (k : vcase) : bool := opt_eqb value_eqb (normalize (vc_raw k)) (vc_norm k).
Definition check_find (k : vcase) : bool :=
  match vc_norm k with None => true | Some v => list_eqb value_eqb (find_tasks v) (vc_found k) end.
Definition check_ser (k : vcase) : bool :=
  match vc_norm k with None => true | Some v => json_eqb (ser (wrap v)) (vc_ser k) end.
Definition check_deser (m : deser_mode) (e : env) (k : vcase) : bool :=
  match vc_norm k with None => true | Some v => opt_eqb value_eqb (deser m e (ser (wrap v))) (vc_deser k) end.

Record eqcase := { ec_a : value; ec_b : value; ec_eq : bool }.
Definition check_eqcase (k : eqcase) : bool := Bool.eqb (veq seq_py (ec_a k) (ec_b k)) (ec_eq k).

Fixpoint failing_from {A} (f : A -> bool) (i : nat) (l : list A) : list nat :=
  match l with
  | [] => []
  | x :: l' => if f x then failing_from f (S i) l' else i :: failing_from f (S i) l'
  end.
Definition failing {A} (f : A -> bool) (l : list A) : list nat := failing_from f 0 l.
