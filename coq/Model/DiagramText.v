(* DiagramText.v — diagram.py diagram_task_type / diagram_task_relationship / diagram_task_structure: the lines of the Mermaid
   text build_task_diagram returns for a task structure.  What Python's typing machinery contributes (how a parameter's type
   hint and the return hint of run() are spelt, the unqualified class name) is an input: [tinfo]. *)
Require Import LT.Model.Values LT.Model.Diagram.

Inductive line :=
| LHeader                                   (* classDiagram *)
| LDirection (d : str)                      (*     direction BT *)
| LBlank
| LClass (A : str)                          (*     class A *)
| LField (A ty nm : str)                    (*     A : ty nm *)
| LRun (A ret : str)                        (*     A : run() ret *)
| LArrow (A : str) (many : bool) (B p : str).   (*     A <-- "many" B: p *)

Record tinfo := { ti_name : str;                        (* format_type(task_type): the class's __name__ *)
                  ti_fields : list (str * str);         (* (formatted type hint, parameter name), in field order *)
                  ti_run : str }.                       (* "" or " <formatted return hint>" *)

Section Render.
  Variable info : str -> tinfo.                         (* by qualified class name *)

  Definition class_block (A : str) : list line :=
    LClass (ti_name (info A)) :: map (fun f => LField (ti_name (info A)) (fst f) (snd f)) (ti_fields (info A))
    ++ [LRun (ti_name (info A)) (ti_run (info A))].

  Definition arrows_of (e : str * rels) : list line :=
    map (fun r => LArrow (ti_name (info (fst e))) (snd r) (ti_name (info (snd (fst r)))) (fst (fst r))) (snd e).

  (* '\n\n'.join(blocks), as lines: the empty join is one empty line *)
  Fixpoint join_blocks (bs : list (list line)) : list line :=
    match bs with
    | [] => [LBlank]
    | [b] => b
    | b :: r => b ++ LBlank :: join_blocks r
    end.

  Definition has_rels (e : str * rels) : bool := match snd e with [] => false | _ => true end.

  Definition render (dir : str) (ts : tstruct) : list line :=
    LHeader :: LDirection dir :: LBlank ::
    join_blocks (map class_block (map fst ts)) ++ [LBlank; LBlank] ++ join_blocks (map arrows_of (filter has_rels ts)).
End Render.

(* the characters *)
From Coq Require Import String.
Local Open Scope string_scope.
Definition indent4 : str := Eval compute in s2l "    ".
Definition show (l : line) : str :=
  match l with
  | LHeader => s2l "classDiagram"
  | LDirection d => (indent4 ++ s2l "direction " ++ d)%list
  | LBlank => []
  | LClass A => (indent4 ++ s2l "class " ++ A)%list
  | LField A ty nm => (indent4 ++ A ++ s2l " : " ++ ty ++ s2l " " ++ nm)%list
  | LRun A ret => (indent4 ++ A ++ s2l " : run()" ++ ret)%list
  | LArrow A many B p => (indent4 ++ A ++ s2l " <-- " ++ (if many then s2l """many"" " else []) ++ B ++ s2l ": " ++ p)%list
  end.

(* ---- correspondence case: the tasks, what typing says about each type, and the text build_task_diagram returned, split at
   newlines *)
Local Close Scope string_scope.
Require Import LT.Model.ValuesCheck.
Record tcase := {
  tc_tasks : list value;
  tc_dir : str;
  tc_info : list (str * tinfo);
  tc_text : list str;
}.
Definition no_info : tinfo := {| ti_name := []; ti_fields := []; ti_run := [] |}.
Definition info_of (l : list (str * tinfo)) (A : str) : tinfo := match alookup l A with Some i => i | None => no_info end.
Definition check_tcase (k : tcase) : bool :=
  list_eqb str_eqb (map show (render (info_of (tc_info k)) (tc_dir k) (build (tc_tasks k)))) (tc_text k).
