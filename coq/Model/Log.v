(* Log.v — how what a task emits reaches the caller's logger.  Mirrors
     utils.py LoggerFileProxy 89-106 (write / flush),
     runners/process.py ProcessRunner._subprocess_func 320-355 (QueueHandler, stdout/stderr proxies),
     _consume_log_queue 310-318, ProcessRunner.wait 368-386, and the exit-time stream flush that
     multiprocessing's BaseProcess._bootstrap performs after the target returned (i.e. after the result was queued).
   Definitions only. *)
Require Import LT.Model.Base.
Require Export LT.Model.ParamTypes.

Inductive stream := Out | Err.
Inductive wact :=                         (* what run() does *)
| WEmit (m : nat)                         (* labtech.logger.<level>(m) *)
| WWrite (s : stream) (frag : nat) (blank : bool)   (* sys.std*.write(fragment); blank = whitespace only *)
| WFlush (s : stream).

Inductive record :=
| RLog (m : nat)
| RCaptured (s : stream) (frags : list nat).

Record wstate := { b_out : list nat; b_err : list nat; put : list record }.   (* put: newest last *)
Definition bufs (w : wstate) (s : stream) := match s with Out => b_out w | Err => b_err w end.
Definition set_bufs (w : wstate) (s : stream) (l : list nat) : wstate :=
  match s with
  | Out => {| b_out := l; b_err := b_err w; put := put w |}
  | Err => {| b_out := b_out w; b_err := l; put := put w |}
  end.
Definition emit (w : wstate) (r : record) : wstate := {| b_out := b_out w; b_err := b_err w; put := put w ++ [r] |}.

Definition flush (fm : flush_mode) (w : wstate) (s : stream) : wstate :=
  match bufs w s with
  | [] => w
  | l => let w' := emit w (RCaptured s l) in
         match fm with FlushClears => set_bufs w' s [] | _ => w' end
  end.

Definition wstep (fm : flush_mode) (w : wstate) (a : wact) : wstate :=
  match a with
  | WEmit m => emit w (RLog m)
  | WWrite s f blank => if blank then w else set_bufs w s (bufs w s ++ [f])
  | WFlush s => flush fm w s
  end.

(* records a worker puts on the log queue before it queues its result, and after (exit-time flush) *)
Definition worker (fm : flush_mode) (fb : bool (* streams flushed before the result is returned *)) (script : list wact)
  : list record * list record :=
  let w0 := {| b_out := []; b_err := []; put := [] |} in
  let w1 := fold_left (wstep fm) script w0 in
  let w2 := if fb then flush fm (flush fm w1 Out) Err else w1 in
  let w3 := flush fm (flush fm {| b_out := b_out w2; b_err := b_err w2; put := [] |} Out) Err in
  (put w2, put w3).

(* ---- the caller's side: a timeline of worker events and of the two halves of each runner.wait() call *)
Inductive ev :=
| EvPut (t : nat) (r : record)            (* task t's process puts a record on the log queue *)
| EvResult (t : nat)                      (* task t's process puts its result on the result queue *)
| EvWaitBegin                             (* wait(): the log queue is consumed, then the executor blocks for results *)
| EvWaitEnd.                              (* wait(): the results that arrived are collected and yielded *)

Record pstate := { lq : list record; rq : list nat; got : list nat; delivered : list record; stopped : bool }.

(* [ca]: does wait() consume the log queue again once the results are in (current source)? *)
Definition pstep (ca : bool) (tasks : list nat) (p : pstate) (e : ev) : pstate :=
  if stopped p then p else
  match e with
  | EvPut _ r => {| lq := lq p ++ [r]; rq := rq p; got := got p; delivered := delivered p; stopped := false |}
  | EvResult t => {| lq := lq p; rq := rq p ++ [t]; got := got p; delivered := delivered p; stopped := false |}
  | EvWaitBegin => {| lq := []; rq := rq p; got := got p; delivered := delivered p ++ lq p; stopped := false |}
  | EvWaitEnd =>
    let got' := got p ++ rq p in
    {| lq := if ca then [] else lq p; rq := []; got := got';
       delivered := if ca then delivered p ++ lq p else delivered p;
       stopped := forallb (fun t => mem t got') tasks |}      (* every task has completed: the loop exits *)
  end.
Definition pinit : pstate := {| lq := []; rq := []; got := []; delivered := []; stopped := false |}.
Definition parent (ca : bool) (tasks : list nat) (tl : list ev) : pstate := fold_left (pstep ca tasks) tl pinit.

Definition puts (tl : list ev) : list record := flat_map (fun e => match e with EvPut _ r => [r] | _ => [] end) tl.

(* ---- the kind of queue: with an asynchronous queue the moment a record *arrives* is not the moment it was put; the caller's side sees
   arrivals.  [arrive_late n tl]: the n-th put of the timeline arrives after everything else. *)
Fixpoint arrive_late (n : nat) (tl : list ev) : list ev :=
  match tl with
  | [] => []
  | EvPut t r :: tl' => match n with O => tl' ++ [EvPut t r] | S n' => EvPut t r :: arrive_late n' tl' end
  | e :: tl' => e :: arrive_late n tl'
  end.
Definition seen_timeline (k : log_queue_kind) (late : option nat) (tl : list ev) : list ev :=
  match k, late with
  | LogQueueSync, _ => tl                  (* a put is an arrival *)
  | _, Some n => arrive_late n tl
  | _, None => tl
  end.

(* ---- correspondence case for the proxy: a script and the logger_func calls observed *)
Definition record_eqb (a b : record) : bool :=
  match a, b with
  | RLog m, RLog m' => Nat.eqb m m'
  | RCaptured Out l, RCaptured Out l' | RCaptured Err l, RCaptured Err l' => list_eqb Nat.eqb l l'
  | _, _ => false
  end.
Record lcase := { lc_script : list wact; lc_pre : list record }.   (* observed: records in order *)
Definition check_lcase (fm : flush_mode) (k : lcase) : bool :=
  list_eqb record_eqb (fst (worker fm true (lc_script k))) (lc_pre k).
