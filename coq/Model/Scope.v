(* Scope.v — objects of a runner that must be neither re-bound nor shared (runners/process.py ForkProcessRunner.__init__ /
   _fork_subprocess_func / remove_results, ProcessRunner.__init__): the dict of in-memory results a forked worker reads, and the
   executor of a run.  Definitions only. *)
Require Import LT.Model.Base LT.Model.Exec.
Require Export LT.Model.ParamTypes.

(* ---- the results map as an object: dict objects are numbered; [v_registered] is the object put into the fork memory when the
   runner was built (what every later forked worker hands to the task's dependencies), [v_current] the object the runner's
   attribute points to (what wait() fills and remove_results empties). *)
Record vstate := { v_heap : list (nat * list (nat * nat)); v_registered : nat; v_current : nat; v_fresh : nat }.
Inductive vop :=
| VPut (t v : nat)          (* wait(): results_map[t] = v *)
| VRemove (ts : list nat)   (* remove_results(ts) *)
| VFork.                    (* a worker is forked for some task: it reads the registered object *)

Definition obj (s : vstate) (o : nat) : list (nat * nat) := match lookup (v_heap s) o with Some c => c | None => [] end.
Definition set_obj (s : vstate) (o : nat) (c : list (nat * nat)) : list (nat * list (nat * nat)) := (o, c) :: del o (v_heap s).
Definition v_init : vstate := {| v_heap := [(0, [])]; v_registered := 0; v_current := 0; v_fresh := 1 |}.

Definition with_current (s : vstate) (c : list (nat * nat)) : vstate :=
  {| v_heap := set_obj s (v_current s) c; v_registered := v_registered s; v_current := v_current s; v_fresh := v_fresh s |}.
(* the attribute is pointed at a new, empty dict *)
Definition rebind (s : vstate) : vstate :=
  {| v_heap := (v_fresh s, []) :: v_heap s; v_registered := v_registered s; v_current := v_fresh s; v_fresh := S (v_fresh s) |}.

Definition vstep (m : view_mode) (s : vstate) (op : vop) : vstate :=
  match op with
  | VPut t v => with_current s ((t, v) :: del t (obj s (v_current s)))
  | VRemove ts =>
    let s' := with_current s (del_all ts (obj s (v_current s))) in
    match m, obj s' (v_current s') with
    | ViewInPlace, _ => s'
    | _, [] => rebind s'          (* "release the emptied table" *)
    | _, _ => s'
    end
  | VFork => s
  end.

(* for every fork of the run: (what the worker is handed, what the runner holds at that moment) *)
Fixpoint vrun (m : view_mode) (s : vstate) (ops : list vop) : list (list (nat * nat) * list (nat * nat)) :=
  match ops with
  | [] => []
  | VFork :: ops' => (obj s (v_registered s), obj s (v_current s)) :: vrun m s ops'
  | op :: ops' => vrun m (vstep m s op) ops'
  end.

(* ---- the executor of a run: what the second of two runs in one interpreter starts from *)
Definition second_run_start (sc : exec_scope) (left_by_first : ex) (w2 : nat) : ex :=
  match sc with
  | ExecPerRunner => init_ex w2
  | _ => left_by_first            (* tables and max_workers of the executor the first run used *)
  end.

(* ---- the fork-memory registry (_RUNNER_FORK_MEMORY): one entry per fork runner, keyed by the runner's uuid, put there when the runner
   is built and looked up by every worker it forks.  Several runners may be alive in one interpreter (Labs used from several
   threads, a run started while another is being drained). *)
Inductive rop := ROpen (u : nat) | RClose (u : nat) | RFork (u : nat).
Definition rstep (m : close_mode) (reg : list nat) (o : rop) : list nat :=
  match o with
  | ROpen u => u :: remove1 u reg
  | RClose u => match m with CloseOwn => remove1 u reg | _ => [] end
  | RFork _ => reg
  end.
(* did every forked worker find the entry of its runner?  (judged for forks of runners that are open at that moment) *)
Fixpoint forks_ok (m : close_mode) (reg opened : list nat) (ops : list rop) : bool :=
  match ops with
  | [] => true
  | RFork u :: ops' => (negb (mem u opened) || mem u reg) && forks_ok m reg opened ops'
  | ROpen u :: ops' => forks_ok m (rstep m reg (ROpen u)) (u :: remove1 u opened) ops'
  | RClose u :: ops' => forks_ok m (rstep m reg (RClose u)) (remove1 u opened) ops'
  end.
