(* Values.v — the value grammar of task parameters and the functions over it.  Mirrors:
     normalize        tasks.py immutable_param_value 33-45, utils.py ensure_dict_key_str
     find_tasks       tasks.py find_tasks_in_param 239-269;  direct_deps: get_direct_dependencies 272-280
     ser / deser      serialization.py Serializer 19-114
     cache_key        cache.py BaseCache.cache_key 55-61
     getstate/setstate tasks.py _task__getstate__/_task__setstate__/_task_post_init 48-59, 88-104
   Strings are lists of code points (N); floats are their binary64 bit pattern (N).  Definitions only. *)
From Coq Require Export List Bool NArith ZArith.
From Coq Require Import String Ascii.
Require Export LT.Model.ParamTypes.
Export ListNotations.

Definition str := list N.
Fixpoint s2l (s : string) : str :=
  match s with
  | EmptyString => []
  | String a s' => N_of_ascii a :: s2l s'
  end.

Fixpoint str_eqb (a b : str) : bool :=
  match a, b with
  | [], [] => true
  | x :: a', y :: b' => N.eqb x y && str_eqb a' b'
  | _, _ => false
  end.

Inductive scalar :=
| SNone | SBool (b : bool) | SInt (z : Z) | SFloat (bits : N) | SStr (s : str)
| SEnum (cls : str) (member : str).

(* normalised (immutable) parameter values; a task is its class name and its fields in class order *)
Inductive value :=
| VScal (s : scalar)
| VTuple (l : list value)
| VDict (kvs : list (str * value))
| VTask (cls : str) (fields : list (str * value)).

(* what a caller may pass to a task constructor *)
Inductive rkey := KStr (s : str) | KOther.
Inductive raw :=
| RScal (s : scalar)
| RList (l : list raw)
| RTuple (l : list raw)
| RDict (frozen : bool) (kvs : list (rkey * raw))
| RTask (cls : str) (fields : list (str * value))     (* an already constructed task object *)
| RBad (tyname : str).                               (* any unsupported object *)

Inductive json :=
| JNull | JBool (b : bool) | JInt (z : Z) | JFloat (bits : N) | JStr (s : str)
| JArr (l : list json)
| JObj (kvs : list (str * json)).

Fixpoint opt_all {A} (l : list (option A)) : option (list A) :=
  match l with
  | [] => Some []
  | Some v :: l' => option_map (cons v) (opt_all l')
  | None :: _ => None
  end.

(* ---- immutable_param_value: None = TaskError *)
Fixpoint normalize (r : raw) : option value :=
  match r with
  | RScal s => Some (VScal s)
  | RList l | RTuple l => option_map VTuple (opt_all (map normalize l))
  | RDict _ kvs =>
    option_map VDict
      (opt_all (map (fun kv => match fst kv with
                               | KStr k => option_map (pair k) (normalize (snd kv))
                               | KOther => None
                               end) kvs))
  | RTask c fs => Some (VTask c fs)
  | RBad _ => None
  end.

Fixpoint embed (v : value) : raw :=
  match v with
  | VScal s => RScal s
  | VTuple l => RTuple (map embed l)
  | VDict kvs => RDict true (map (fun kv => (KStr (fst kv), embed (snd kv))) kvs)
  | VTask c fs => RTask c fs
  end.

(* ---- find_tasks_in_param (does not descend into tasks) *)
Fixpoint find_tasks (v : value) : list value :=
  match v with
  | VScal _ => []
  | VTuple l => flat_map find_tasks l
  | VDict kvs => flat_map (fun kv => find_tasks (snd kv)) kvs
  | VTask _ _ => [v]
  end.
Definition task_fields (t : value) : list (str * value) :=
  match t with VTask _ fs => fs | _ => [] end.
(* every task object found in the fields of t, in field order, duplicates kept *)
Definition dep_instances (t : value) : list value := flat_map (fun kv => find_tasks (snd kv)) (task_fields t).

(* ---- Serializer *)
Definition k_is_task : str := Eval compute in s2l "_is_task".
Definition k_is_enum : str := Eval compute in s2l "_is_enum".
Definition k_class : str := Eval compute in s2l "__class__".
Definition k_name : str := Eval compute in s2l "name".
Definition k_is_dict : str := Eval compute in s2l "_is_dict".
Definition k_items : str := Eval compute in s2l "items".

Fixpoint alookup {V} (m : list (str * V)) (k : str) : option V :=
  match m with
  | [] => None
  | (k', v) :: m' => if str_eqb k k' then Some v else alookup m' k
  end.
Definition smem (k : str) (l : list str) : bool := existsb (str_eqb k) l.

(* bool(x) for decoded JSON *)
Definition truthy (j : json) : bool :=
  match j with
  | JNull => false
  | JBool b => b
  | JInt z => negb (Z.eqb z 0)
  | JFloat f => negb (N.eqb f 0) && negb (N.eqb f 9223372036854775808)   (* +0.0 / -0.0 *)
  | JStr s => match s with [] => false | _ => true end
  | JArr l => match l with [] => false | _ => true end
  | JObj l => match l with [] => false | _ => true end
  end.
Definition flag (kvs : list (str * json)) (k : str) : bool :=
  match alookup kvs k with Some j => truthy j | None => false end.




Definition ser_scalar (s : scalar) : json :=
  match s with
  | SNone => JNull
  | SBool b => JBool b
  | SInt z => JInt z
  | SFloat f => JFloat f
  | SStr s => JStr s
  | SEnum c m => JObj [(k_is_enum, JBool true); (k_class, JStr c); (k_name, JStr m)]
  end.

(* a serialised dict that would read back as a task, an enum member or a wrapped dict (one of the marker keys is present with a
   truthy value) is wrapped: {"_is_dict": true, "items": {...}} *)
Definition marked (kvs : list (str * json)) : bool := flag kvs k_is_task || flag kvs k_is_enum || flag kvs k_is_dict.
Definition wrap_dict (kvs : list (str * json)) : json :=
  if marked kvs then JObj [(k_is_dict, JBool true); (k_items, JObj kvs)] else JObj kvs.

Fixpoint ser (v : value) : json :=
  match v with
  | VScal s => ser_scalar s
  | VTuple l => JArr (map ser l)
  | VDict kvs => wrap_dict (map (fun kv => (fst kv, ser (snd kv))) kvs)
  | VTask c fs => JObj ((k_is_task, JBool true) :: (k_class, JStr c) :: map (fun kv => (fst kv, ser (snd kv))) fs)
  end.

(* the serialiser before defect D9 was repaired: dicts are never wrapped *)
Fixpoint ser_plain (v : value) : json :=
  match v with
  | VScal s => ser_scalar s
  | VTuple l => JArr (map ser_plain l)
  | VDict kvs => JObj (map (fun kv => (fst kv, ser_plain (snd kv))) kvs)
  | VTask c fs => JObj ((k_is_task, JBool true) :: (k_class, JStr c) :: map (fun kv => (fst kv, ser_plain (snd kv))) fs)
  end.

Definition ser_of (m : ser_mode) : value -> json :=
  match m with SerWrapsDicts => ser | SerPlainDicts => ser_plain | SerUnknown => fun _ => JNull end.

(* class environment: fields of each task class (class order), members of each enum class *)
Record env := { task_classes : list (str * list str); enum_classes : list (str * list str) }.
Section Deser.
  Variable mode : deser_mode.
  Variable e : env.

  (* json values that were not decoded to a labtech value stay "plain"; the task constructor then normalises
     lists to tuples and dicts to frozendicts, so a plain JSON tree becomes a value without tasks/enums *)
  Fixpoint plain (j : json) : option value :=
    match j with
    | JNull => Some (VScal SNone)
    | JBool b => Some (VScal (SBool b))
    | JInt z => Some (VScal (SInt z))
    | JFloat f => Some (VScal (SFloat f))
    | JStr s => Some (VScal (SStr s))
    | JArr l => option_map VTuple (opt_all (map plain l))
    | JObj kvs => option_map VDict (opt_all (map (fun kv => option_map (pair (fst kv)) (plain (snd kv))) kvs))
    end.

  (* [as_dict]: decode a JSON object as a plain dict whatever keys it has (the "items" of a wrapped dict) *)
  Fixpoint deser_gen (as_dict : bool) (j : json) {struct j} : option value :=
    match j with
    | JNull => Some (VScal SNone)
    | JBool b => Some (VScal (SBool b))
    | JInt z => Some (VScal (SInt z))
    | JFloat f => Some (VScal (SFloat f))
    | JStr s => Some (VScal (SStr s))
    | JArr l =>
      match mode with
      | DRecursive => option_map VTuple (opt_all (map (deser_gen false) l))
      | _ => plain j
      end
    | JObj kvs =>
      if as_dict then
        option_map VDict (opt_all (map (fun kv => option_map (pair (fst kv)) (deser_gen false (snd kv))) kvs))
      else if flag kvs k_is_task then
        match alookup kvs k_class with
        | Some (JStr c) =>
          match alookup (task_classes e) c with
          | None => None
          | Some fnames =>
            let decoded := map (fun kv => (fst kv, deser_gen false (snd kv))) kvs in
            let params := filter (fun kv => negb (str_eqb (fst kv) k_is_task) && negb (str_eqb (fst kv) k_class)) decoded in
            if forallb (fun kv => smem (fst kv) fnames) params then
              option_map (VTask c)
                (opt_all (map (fun f => match alookup params f with
                                        | Some (Some v) => Some (f, v)
                                        | _ => None
                                        end) fnames))
            else None
          end
        | _ => None
        end
      else if flag kvs k_is_enum then
        match alookup kvs k_class, alookup kvs k_name with
        | Some (JStr c), Some (JStr m) =>
          match alookup (enum_classes e) c with
          | Some members => if smem m members then Some (VScal (SEnum c m)) else None
          | None => None
          end
        | _, _ => None
        end
      else if flag kvs k_is_dict then
        match alookup (map (fun kv => (fst kv, deser_gen true (snd kv))) kvs) k_items with
        | Some (Some (VDict items)) => Some (VDict items)
        | _ => None
        end
      else
        match mode with
        | DRecursive => option_map VDict (opt_all (map (fun kv => option_map (pair (fst kv)) (deser_gen false (snd kv))) kvs))
        | _ => plain j
        end
    end.
  Definition deser : json -> option value := deser_gen false.
End Deser.

(* ---- guards *)
Definition has_key {V} (k : str) (kvs : list (str * V)) : bool := existsb (fun kv => str_eqb k (fst kv)) kvs.
(* no task has a parameter named like one of the two header keys of its serialised form (a dataclass field cannot be called
   _is_task, labtech reserves it; __class__ is not a legal field name either).  Dict keys are unrestricted: a dict that would read
   back as something else is wrapped. *)
Fixpoint no_reserved (v : value) : bool :=
  match v with
  | VScal _ => true
  | VTuple l => forallb no_reserved l
  | VDict kvs => forallb (fun kv => no_reserved (snd kv)) kvs
  | VTask _ fs => negb (has_key k_is_task fs) && negb (has_key k_class fs)
                  && forallb (fun kv => no_reserved (snd kv)) fs
  end.

Fixpoint nodup_str (l : list str) : bool :=
  match l with
  | [] => true
  | x :: l' => negb (smem x l') && nodup_str l'
  end.
Definition strs_eqb (a b : list str) : bool :=
  (fix go (a b : list str) : bool :=
     match a, b with
     | [], [] => true
     | x :: a', y :: b' => str_eqb x y && go a' b'
     | _, _ => false
     end) a b.
(* every task has exactly the fields of its class (in class order), every enum member exists *)
Fixpoint wf_env (e : env) (v : value) : bool :=
  match v with
  | VScal (SEnum c m) => match alookup (enum_classes e) c with Some ms => smem m ms | None => false end
  | VScal _ => true
  | VTuple l => forallb (wf_env e) l
  | VDict kvs => forallb (fun kv => wf_env e (snd kv)) kvs
  | VTask c fs =>
    match alookup (task_classes e) c with
    | Some fnames => strs_eqb (map fst fs) fnames && nodup_str fnames
    | None => false
    end && forallb (fun kv => wf_env e (snd kv)) fs
  end.

(* ---- cache key: prefix ++ qualname ++ "__" ++ H (dumps (ser t)); dumps, H are the runtime's *)
Section Key.
  Variable dumps : json -> str.
  Variable H : str -> str.
  Definition qualname_of (cls : str) : str :=       (* text after the last '.'; module-level classes only *)
    (fix go (acc s : str) : str :=
       match s with
       | [] => acc
       | ch :: s' => if N.eqb ch 46 then go [] s' else go (acc ++ [ch]) s'
       end) [] cls.
  Definition cache_key (prefix : str) (t : value) : str :=
    match t with
    | VTask c _ => prefix ++ qualname_of c ++ s2l "__" ++ H (dumps (ser t))
    | _ => []
    end.
End Key.

(* ---- task objects and pickling *)
Record tobj := {
  o_val : value;                         (* class + fields *)
  o_key : str;                           (* cache_key attribute *)
  o_results_map : option nat;            (* identity of the attached results map *)
  o_context : option nat;
  o_result_meta : option nat;
  o_result : option nat;                 (* a directly attached _result *)
  o_derived : option value;              (* what the class's post_init derives from the fields *)
  o_has_ctx_attrs : bool;                (* context / result_meta attributes exist *)
}.

Section Obj.
  Variable post_init : value -> option value.     (* the user's post_init, a function of the fields *)
  Variable keyf : value -> str.

  Definition construct (v : value) : tobj :=
    {| o_val := v; o_key := keyf v; o_results_map := None; o_context := None; o_result_meta := None;
       o_result := None; o_derived := post_init v; o_has_ctx_attrs := true |}.

  (* a post_init that also (re)assigns parameter fields: rw is what it makes of them.  Which values the key describes
     depends on where _task_post_init computes it. *)
  Definition construct_rw (km : key_mode) (rw : value -> value) (v : value) : tobj :=
    let v' := rw v in
    {| o_val := v'; o_key := match km with KeyAfterPostInit => keyf v' | _ => keyf v end;
       o_results_map := None; o_context := None; o_result_meta := None;
       o_result := None; o_derived := post_init v'; o_has_ctx_attrs := true |}.

  (* the pickled state: fields, _lt, _is_task, cache_key, _results_map=None *)
  Record pstate := { ps_val : value; ps_key : str }.
  Definition getstate (o : tobj) : pstate := {| ps_val := o_val o; ps_key := o_key o |}.
  (* what else travels in the pickled state: the context / result_meta the object carried when it was pickled *)
  Definition getstate_extras (g : getstate_mode) (o : tobj) : option nat * option nat :=
    match g with
    | GSWhitelist => (None, None)
    | _ => (o_context o, o_result_meta o)
    end.
  Definition renorm (v : value) : option value :=
    match v with
    | VTask c fs => option_map (VTask c)
                      (opt_all (map (fun kv => option_map (pair (fst kv)) (normalize (embed (snd kv)))) fs))
    | _ => None
    end.
  Definition setstate (m : setstate_mode) (st : pstate) : option tobj :=
    match renorm (ps_val st) with
    | None => None
    | Some v =>
      Some match m with
           | SSReinit => {| o_val := v; o_key := ps_key st; o_results_map := None; o_context := None;
                            o_result_meta := None; o_result := None; o_derived := post_init v;
                            o_has_ctx_attrs := true |}
           | _ => {| o_val := v; o_key := ps_key st; o_results_map := None; o_context := None;
                     o_result_meta := None; o_result := None; o_derived := None; o_has_ctx_attrs := false |}
           end
    end.
End Obj.

(* ---- Python-level equality of parameter values: == on tuples / frozendicts (order-insensitive) / tasks *)
Section Eq.
  Variable seq : scalar -> scalar -> bool.
  Fixpoint veq (a b : value) {struct a} : bool :=
    match a, b with
    | VScal x, VScal y => seq x y
    | VTuple xs, VTuple ys =>
      (fix go (xs ys : list value) {struct xs} : bool :=
         match xs, ys with
         | [], [] => true
         | x :: xs', y :: ys' => veq x y && go xs' ys'
         | _, _ => false
         end) xs ys
    | VDict xs, VDict ys =>
      Nat.eqb (List.length xs) (List.length ys) &&
      (fix go (xs : list (str * value)) {struct xs} : bool :=
         match xs with
         | [] => true
         | (k, x) :: xs' => match alookup ys k with Some y => veq x y | None => false end && go xs'
         end) xs
    | VTask c xs, VTask d ys =>
      str_eqb c d &&
      (fix go (xs ys : list (str * value)) {struct xs} : bool :=
         match xs, ys with
         | [], [] => true
         | (k, x) :: xs', (k', y) :: ys' => str_eqb k k' && veq x y && go xs' ys'
         | _, _ => false
         end) xs ys
    | _, _ => false
    end.
End Eq.
