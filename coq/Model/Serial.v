(* Serial.v — the serial runner as a deterministic strategy: runners/serial.py SerialRunner.submit_task appends to a FIFO,
   SerialRunner.wait pops the oldest submitted task, runs (or loads) it in the caller and yields exactly that one task.
   No completion oracle is left; the only remaining oracle is the iteration order of each release batch (a Python set).
   Definitions only. *)
Require Import LT.Model.Base LT.Model.Sched.

Fixpoint serial_loop (p : params) (c : cfg) (s : st) (rels : list (list nat)) (fuel : nat) : outcome * st :=
  if loop_done s then (final p c s, s) else
  match fuel with
  | 0 => (OutOfOracle, s)
  | S f =>
    let s1 := submit_phase p c s in
    match active s1 with
    | [] => (Stuck, s1)
    | t :: _ =>
      match complete p c s1 t (hd [] rels) with
      | SBad => (BadOracle, s1)
      | SRaise u s2 => (RaisedLabError u, s2)
      | SOk s2 => serial_loop p c s2 (tl rels) f
      end
    end
  end.
(* every polling round completes one task, so |plan| rounds always suffice *)
Definition serial_run (p : params) (c : cfg) (rels : list (list nat)) : outcome * st :=
  serial_loop p c (init c) rels (S (List.length (plan c))).

(* the oracle of the abstract runner that the serial strategy amounts to *)
Fixpoint serial_oracle (p : params) (c : cfg) (s : st) (rels : list (list nat)) (fuel : nat) : list batch :=
  if loop_done s then [] else
  match fuel with
  | 0 => []
  | S f =>
    let s1 := submit_phase p c s in
    match active s1 with
    | [] => [[]]
    | t :: _ =>
      [(t, hd [] rels)] ::
      match complete p c s1 t (hd [] rels) with
      | SOk s2 => serial_oracle p c s2 (tl rels) f
      | _ => []
      end
    end
  end.

(* correspondence: a real run under the serial backend, replayed with no completion oracle at all (only the observed release
   orders are taken from the run) *)
Definition rels_of (o : list batch) : list (list nat) := flat_map (fun b => map snd b) o.
Definition check_serial (p : params) (j : proj) (k : case) : bool :=
  let '(out, s) := serial_run p (k_cfg k) (rels_of (k_oracle k)) in
  wfb (k_cfg k)
  && (negb (pj_outcome j) || outcome_eqb out (k_outcome k))
  && list_eqb event_eqb (project j (rev (hist s))) (project j (k_trace k))
  && (negb (pj_rmap j) || list_eqb Nat.eqb (sort_nat (keys (rmap s))) (k_final_rmap k))
  && (negb (pj_store j) || list_eqb Nat.eqb (sort_nat (dedup (keys (store s)))) (k_final_store k)).
