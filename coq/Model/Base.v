(* Base.v — shared executable definitions (no proofs).  Stdlib only. *)
From Coq Require Export List Arith Bool Lia PeanoNat.
Export ListNotations.

(* Free-term results: a task's run() returns Node <its id> [<the results it read>]. *)
Inductive val := Node (t : nat) (args : list val).

Fixpoint val_eqb (a b : val) {struct a} : bool :=
  match a, b with
  | Node t xs, Node u ys =>
    Nat.eqb t u &&
    (fix go (xs ys : list val) {struct xs} : bool :=
       match xs, ys with
       | [], [] => true
       | x :: xs', y :: ys' => val_eqb x y && go xs' ys'
       | _, _ => false
       end) xs ys
  end.

Definition mem (x : nat) (l : list nat) : bool := existsb (Nat.eqb x) l.
Definition remove1 (x : nat) (l : list nat) : list nat := filter (fun y => negb (Nat.eqb x y)) l.

Fixpoint dedup (l : list nat) : list nat :=          (* keep first occurrences *)
  match l with
  | [] => []
  | x :: l' => x :: remove1 x (dedup l')
  end.

Section Maps.
  Context {V : Type}.
  Fixpoint lookup (m : list (nat * V)) (k : nat) : option V :=
    match m with
    | [] => None
    | (k', v) :: m' => if Nat.eqb k k' then Some v else lookup m' k
    end.
  Definition del (k : nat) (m : list (nat * V)) : list (nat * V) :=
    filter (fun kv => negb (Nat.eqb k (fst kv))) m.
  Definition del_all (ks : list nat) (m : list (nat * V)) : list (nat * V) :=
    fold_left (fun m k => del k m) ks m.
  Definition has (m : list (nat * V)) (k : nat) : bool :=
    match lookup m k with Some _ => true | None => false end.
  Definition keys (m : list (nat * V)) : list nat := map fst m.
End Maps.

Fixpoint opt_all {A} (l : list (option A)) : option (list A) :=
  match l with
  | [] => Some []
  | Some v :: l' => option_map (cons v) (opt_all l')
  | None :: _ => None
  end.

Definition list_eqb {A} (eqb : A -> A -> bool) : list A -> list A -> bool :=
  fix go (xs ys : list A) : bool :=
    match xs, ys with
    | [], [] => true
    | x :: xs', y :: ys' => eqb x y && go xs' ys'
    | _, _ => false
    end.

Definition opt_eqb {A} (eqb : A -> A -> bool) (a b : option A) : bool :=
  match a, b with
  | Some x, Some y => eqb x y
  | None, None => true
  | _, _ => false
  end.

(* insertion sort on nat, used only to canonicalise sets before comparison *)
Fixpoint insert_sorted (x : nat) (l : list nat) : list nat :=
  match l with
  | [] => [x]
  | y :: l' => if x <=? y then x :: l else y :: insert_sorted x l'
  end.
Definition sort_nat (l : list nat) : list nat := fold_right insert_sorted [] l.

(* indices of failing cases, for the correspondence files *)
Fixpoint failing_from {A} (f : A -> bool) (i : nat) (l : list A) : list nat :=
  match l with
  | [] => []
  | x :: l' => if f x then failing_from f (S i) l' else i :: failing_from f (S i) l'
  end.
Definition failing {A} (f : A -> bool) (l : list A) : list nat := failing_from f 0 l.
