(* Sched.v — executable model of labtech's planner and coordinator loop over an abstract runner.
   Mirrors (file:line of /repo/labtech):
     plan            lab.py TaskState.__init__/process_tasks/insert_task 41-84, TaskCoordinator.use_cache 179-180
     get_ready       lab.py TaskState.get_ready_tasks 111-124
     start/submit    lab.py TaskState.start_task 86-88, TaskCoordinator.run 243-254
     complete        lab.py TaskState.complete_task 90-109, process_completed_tasks 218-234, handle_failure 167-177
     remove_results  runners/serial.py 76-81, runners/process.py 403-408
     exec            runners/base.py run_or_load_task 62-99, tasks.py _task_result 78-85
     final           lab.py Lab.run_tasks 460-462
   Definitions only; proofs are in Proofs/. *)
Require Import LT.Model.Base.
Require Export LT.Model.ParamTypes.

Inductive beh := BOk | BRaise.

Record cfg := {
  ntasks : nat;
  deps : list (list nat);           (* direct dependencies per task, first-occurrence order *)
  reads : list (list nat);          (* the dependencies whose .result run() reads, in order *)
  behs : list beh;
  ty : list nat;
  maxpar : list (option nat);       (* per type *)
  cacheable : list bool;            (* per type: results are persisted (caching Cache and real Storage) *)
  req : list nat;                   (* requested tasks in request order, duplicates allowed *)
  pre : list (nat * val);           (* cache pre-state *)
  bust : bool;
  cont : bool;                      (* continue_on_failure *)
}.

Definition deps_of (c : cfg) t := nth t (deps c) [].
Definition reads_of (c : cfg) t := nth t (reads c) [].
Definition beh_of (c : cfg) t := nth t (behs c) BOk.
Definition ty_of (c : cfg) t := nth t (ty c) 0.
Definition maxpar_of (c : cfg) y := nth y (maxpar c) None.
Definition cacheable_of (c : cfg) y := nth y (cacheable c) false.

Definition use_cache_in (c : cfg) (store : list (nat * val)) t : bool := negb (bust c) && has store t.
(* dependencies the planner records for t: none when t is served from the cache *)
Definition pdeps_of (c : cfg) t : list nat := if use_cache_in c (pre c) t then [] else deps_of c t.

(* ---- planning: breadth-first waves, first-insertion order ---- *)
Fixpoint plan_loop (c : cfg) (fuel : nat) (wave visited : list nat) : list nat :=
  match fuel with
  | 0 => visited
  | S f =>
    let new := dedup (filter (fun t => negb (mem t visited)) wave) in
    match new with
    | [] => visited
    | _ :: _ => plan_loop c f (flat_map (pdeps_of c) new) (visited ++ new)
    end
  end.
Definition plan (c : cfg) : list nat := plan_loop c (S (ntasks c)) (req c) [].

Inductive event :=
| ESubmit (t : nat) (uc : bool)
| EFinish (t : nat) (r : option val)
| ECapture (t : nat)
| ERelease (ts : list nat).      (* sorted *)

Record st := {
  needed : list nat;              (* the plan; constant during a run *)
  pending : list nat;
  active : list nat;              (* submitted, not yet completed: the runner's in-flight tasks, submit order *)
  finished : list nat;            (* completed, successfully or not *)
  failed : list nat;
  rmap : list (nat * val);        (* runner.results_map *)
  results : list (nat * val);     (* task_results *)
  store : list (nat * val);       (* persisted cache entries *)
  hist : list event;              (* most recent first *)
}.

Definition count_ty (c : cfg) (y : nat) (l : list nat) : nat :=
  length (filter (fun t => Nat.eqb (ty_of c t) y) l).

Definition deps_done (c : cfg) (s : st) t : bool := forallb (fun d => mem d (finished s)) (pdeps_of c t).

Definition over_limit (p : params) (count m : nat) : bool :=
  match p_cmp p with
  | CmpGe => m <=? count
  | CmpGt => m <? count
  | CmpUnknown => false
  end.

Fixpoint ready_loop (p : params) (c : cfg) (s : st) (chosen l : list nat) : list nat :=
  match l with
  | [] => chosen
  | t :: l' =>
    if p_dep_guard p && negb (deps_done c s t) then ready_loop p c s chosen l'
    else match maxpar_of c (ty_of c t) with
         | Some m => if over_limit p (count_ty c (ty_of c t) (active s ++ chosen)) m
                     then ready_loop p c s chosen l'
                     else ready_loop p c s (chosen ++ [t]) l'
         | None => ready_loop p c s (chosen ++ [t]) l'
         end
  end.
Definition get_ready p c s := ready_loop p c s [] (pending s).

Definition start (c : cfg) (s : st) t : st :=
  {| needed := needed s; pending := remove1 t (pending s); active := active s ++ [t];
     finished := finished s; failed := failed s; rmap := rmap s; results := results s;
     store := store s; hist := ESubmit t (use_cache_in c (store s) t) :: hist s |}.
Definition submit_phase p c s := fold_left (start c) (get_ready p c s) s.

(* tasks that still wait for d: derived form of task_to_pending_dependents *)
Definition pdependents (c : cfg) (nd fin : list nat) (d : nat) : list nat :=
  filter (fun t => mem d (pdeps_of c t) && negb (mem t fin)) nd.

(* what executing/loading t yields, given the state at that moment *)
Definition exec (c : cfg) (s : st) t : option val :=
  if use_cache_in c (store s) t then lookup (store s) t
  else match beh_of c t with
       | BRaise => None
       | BOk => option_map (Node t) (opt_all (map (lookup (rmap s)) (reads_of c t)))
       end.

Definition removable (c : cfg) (s_needed fin' : list nat) t : list nat :=
  dedup (filter (fun d => match pdependents c s_needed fin' d with [] => true | _ => false end)
                (pdeps_of c t ++ [t])).

(* runner.remove_results(order) *)
Fixpoint remove_results (p : params) (order : list nat) (m : list (nat * val)) : list (nat * val) :=
  match order with
  | [] => m
  | d :: order' =>
    if has m d then remove_results p order' (del d m)
    else match p_missing p with
         | MReturn => m
         | _ => remove_results p order' m
         end
  end.

Inductive step_res := SOk (s : st) | SRaise (t : nat) (s : st) | SBad.

(* the release batch in the iteration order the oracle reports; whatever the oracle says, the result is a
   rearrangement of the computed batch [rem] *)
Definition norm_order (order rem : list nat) : list nat :=
  filter (fun d => mem d rem) (dedup order) ++ filter (fun d => negb (mem d order)) rem.

(* one (task, result) pair yielded by runner.wait(), processed by process_completed_tasks;
   [order] is the iteration order of the release batch (an oracle: Python set iteration) *)
Definition complete (p : params) (c : cfg) (s : st) (t : nat) (order : list nat) : step_res :=
  if negb (mem t (active s)) then SBad else
  let r := exec c s t in
  let fin' := t :: finished s in
  let rem := removable c (needed s) fin' t in
  let order := norm_order order rem in
  match r with
  | None =>
    let s' := {| needed := needed s; pending := pending s; active := remove1 t (active s);
                 finished := fin'; failed := t :: failed s; rmap := rmap s; results := results s;
                 store := store s; hist := EFinish t None :: hist s |} in
    if cont c then
      SOk {| needed := needed s'; pending := pending s'; active := active s'; finished := finished s';
             failed := failed s'; rmap := remove_results p order (rmap s'); results := results s';
             store := store s'; hist := ERelease (sort_nat rem) :: hist s' |}
    else SRaise t s'
  | Some v =>
    let uc := use_cache_in c (store s) t in
    let saved := negb uc && cacheable_of c (ty_of c t) in
    let cap := mem t (req c) in
    SOk {| needed := needed s; pending := pending s; active := remove1 t (active s);
           finished := fin'; failed := failed s;
           rmap := remove_results p order ((t, v) :: rmap s);
           results := if cap then (t, v) :: results s else results s;
           store := if saved then (t, v) :: store s else store s;
           hist := ERelease (sort_nat rem)
                   :: (if cap then [ECapture t] else []) ++ EFinish t (Some v) :: hist s |}
  end.

Definition batch := list (nat * list nat).

Fixpoint process_batch (p : params) (c : cfg) (s : st) (b : batch) : step_res :=
  match b with
  | [] => SOk s
  | (t, order) :: b' =>
    match complete p c s t order with
    | SOk s' => process_batch p c s' b'
    | other => other
    end
  end.

Inductive outcome :=
| Returned (r : list (nat * val))
| RaisedLabError (t : nat)
| RaisedKeyError
| Stuck
| OutOfOracle
| BadOracle.

Definition loop_done (s : st) : bool :=
  match pending s, active s with [], [] => true | _, _ => false end.

(* Lab.run_tasks: {task: results[task] for task in tasks} *)
Definition final (p : params) (c : cfg) (s : st) : outcome :=
  let ks := dedup (req c) in
  match p_final p with
  | FFilter =>
    Returned (flat_map (fun t => match lookup (results s) t with Some v => [(t, v)] | None => [] end) ks)
  | _ =>
    match opt_all (map (fun t => option_map (pair t) (lookup (results s) t)) ks) with
    | Some r => Returned r
    | None => RaisedKeyError
    end
  end.

Fixpoint loop (p : params) (c : cfg) (s : st) (o : list batch) : outcome * st :=
  if loop_done s then (final p c s, s) else
  match o with
  | [] => (OutOfOracle, s)
  | b :: o' =>
    let s1 := submit_phase p c s in
    match active s1 with
    | [] => (Stuck, s1)
    | _ =>
      match process_batch p c s1 b with
      | SBad => (BadOracle, s1)
      | SRaise t s2 => (RaisedLabError t, s2)
      | SOk s2 => loop p c s2 o'
      end
    end
  end.

Definition init (c : cfg) : st :=
  let pl := plan c in
  {| needed := pl; pending := pl; active := []; finished := []; failed := [];
     rmap := []; results := []; store := pre c; hist := [] |}.
Definition run p c o := loop p c (init c) o.

(* ---- reference: plain sequential dependency-first evaluation ---- *)
(* value of t, None when t or something it reads fails *)
Fixpoint ref_f (c : cfg) (fuel : nat) (t : nat) : option val :=
  match fuel with
  | 0 => None
  | S f =>
    if use_cache_in c (pre c) t then lookup (pre c) t
    else match beh_of c t with
         | BRaise => None
         | BOk => option_map (Node t) (opt_all (map (ref_f c f) (reads_of c t)))
         end
  end.
Definition ref (c : cfg) t : option val := ref_f c (S t) t.

(* ---- well-formedness, checked on every correspondence case ---- *)
Definition subset (a b : list nat) : bool := forallb (fun x => mem x b) a.
Definition wfb (c : cfg) : bool :=
  forallb (fun t => forallb (fun d => d <? t) (deps_of c t) && subset (reads_of c t) (deps_of c t))
          (seq 0 (ntasks c))
  && forallb (fun t => t <? ntasks c) (req c)
  && forallb (fun kv => fst kv <? ntasks c) (pre c)
  && (length (deps c) =? ntasks c) && (length (reads c) =? ntasks c).

(* ---- correspondence case ---- *)
Definition event_eqb (a b : event) : bool :=
  match a, b with
  | ESubmit t u, ESubmit t' u' => Nat.eqb t t' && Bool.eqb u u'
  | EFinish t r, EFinish t' r' => Nat.eqb t t' && opt_eqb val_eqb r r'
  | ECapture t, ECapture t' => Nat.eqb t t'
  | ERelease l, ERelease l' => list_eqb Nat.eqb l l'
  | _, _ => false
  end.
Definition kv_eqb (a b : nat * val) : bool := Nat.eqb (fst a) (fst b) && val_eqb (snd a) (snd b).
Definition outcome_eqb (a b : outcome) : bool :=
  match a, b with
  | Returned r, Returned r' => list_eqb kv_eqb r r'
  | RaisedLabError t, RaisedLabError t' => Nat.eqb t t'
  | RaisedKeyError, RaisedKeyError => true
  | Stuck, Stuck => true
  | _, _ => false
  end.

Record case := {
  k_cfg : cfg;
  k_oracle : list batch;
  k_outcome : outcome;            (* observed on the implementation *)
  k_trace : list event;           (* observed, oldest first *)
  k_final_rmap : list nat;        (* keys of runner.results_map at close(), sorted *)
  k_final_store : list nat;       (* tasks reported cached after the run, sorted *)
}.

Definition check_case (p : params) (k : case) : bool :=
  let '(out, s) := run p (k_cfg k) (k_oracle k) in
  wfb (k_cfg k)
  && outcome_eqb out (k_outcome k)
  && list_eqb event_eqb (rev (hist s)) (k_trace k)
  && list_eqb Nat.eqb (sort_nat (keys (rmap s))) (k_final_rmap k)
  && list_eqb Nat.eqb (sort_nat (dedup (keys (store s)))) (k_final_store k).

(* Property-scoped comparison: each property compares the projection of the trace it speaks about. *)
Record proj := {
  pj_outcome : bool; pj_submit : bool; pj_finish : bool; pj_values : bool;
  pj_capture : bool; pj_release : bool; pj_rmap : bool; pj_store : bool;
}.
Definition project (j : proj) (l : list event) : list event :=
  flat_map (fun e => match e with
                     | ESubmit _ _ => if pj_submit j then [e] else []
                     | EFinish t r => if pj_finish j
                                      then [if pj_values j then e
                                            else EFinish t (match r with Some _ => Some (Node 0 []) | None => None end)]
                                      else []
                     | ECapture _ => if pj_capture j then [e] else []
                     | ERelease _ => if pj_release j then [e] else []
                     end) l.
Definition check_proj (p : params) (j : proj) (k : case) : bool :=
  let '(out, s) := run p (k_cfg k) (k_oracle k) in
  wfb (k_cfg k)
  && (negb (pj_outcome j) || outcome_eqb out (k_outcome k))
  && list_eqb event_eqb (project j (rev (hist s))) (project j (k_trace k))
  && (negb (pj_rmap j) || list_eqb Nat.eqb (sort_nat (keys (rmap s))) (k_final_rmap k))
  && (negb (pj_store j) || list_eqb Nat.eqb (sort_nat (dedup (keys (store s)))) (k_final_store k)).

(* ---- what runner.wait() can hand back for a task, and how process_completed_tasks books it.  The runners catch BaseException
   around the task (KeyboardInterrupt excepted) and hand the exception object back: an ordinary exception, or one that is only a
   BaseException (SystemExit from sys.exit(), GeneratorExit). *)
Inductive handed := HResult | HException | HBaseOnly.
Inductive booked := BCompleted | BFailed | BUnexpected.     (* BUnexpected: LabError('Unexpected task res type') out of run_tasks *)
Definition book (m : fail_test) (h : handed) : booked :=
  match h, m with
  | HResult, _ => BCompleted
  | HException, (FailBaseException | FailException) => BFailed
  | HBaseOnly, FailBaseException => BFailed
  | _, _ => BUnexpected
  end.
