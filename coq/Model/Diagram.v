(* Diagram.v — TaskStructure.build and add_relationship (diagram.py 21-83): which class blocks and arrows a task
   diagram contains.  Types are class names, tasks are [value]s of Model/Values.v. *)
Require Import LT.Model.Values.

Definition relkey := (str * str)%type.                       (* (parameter name, dependency type) *)
Definition rels := list (relkey * bool).                     (* -> "many" flag, first-insertion order *)
Definition tstruct := list (str * rels).                     (* task type -> relationships, first-insertion order *)

Definition relkey_eqb (a b : relkey) : bool := str_eqb (fst a) (fst b) && str_eqb (snd a) (snd b).

Fixpoint add_rel (r : rels) (k : relkey) (multi : bool) : rels :=
  match r with
  | [] => [(k, multi)]
  | (k', m) :: r' => if relkey_eqb k k' then (k', m || multi) :: r' else (k', m) :: add_rel r' k multi
  end.

Fixpoint add_type (ts : tstruct) (ty : str) : tstruct :=      (* setdefault(ty, {}) *)
  match ts with
  | [] => [(ty, [])]
  | (ty', r) :: ts' => if str_eqb ty ty' then ts else (ty', r) :: add_type ts' ty
  end.

Fixpoint upd_type (ts : tstruct) (ty : str) (f : rels -> rels) : tstruct :=
  match ts with
  | [] => []
  | (ty', r) :: ts' => if str_eqb ty ty' then (ty', f r) :: ts' else (ty', r) :: upd_type ts' ty f
  end.

Definition task_type (t : value) : str := match t with VTask c _ => c | _ => [] end.
Definition is_task_value (v : value) : bool := match v with VTask _ _ => true | _ => false end.

(* the relationships one task contributes: for each field, for each task found in it *)
Definition task_rels (t : value) : list (relkey * bool) :=
  flat_map (fun kv => map (fun sub => ((fst kv, task_type sub), negb (is_task_value (snd kv))))
                          (find_tasks (snd kv)))
           (task_fields t).

Definition add_task (ts : tstruct) (t : value) : tstruct :=
  let ts1 := add_type ts (task_type t) in
  fold_left (fun acc kr => upd_type acc (task_type t) (fun r => add_rel r (fst kr) (snd kr))) (task_rels t) ts1.

(* the work list of build(): pop the first task, append the tasks found in its fields *)
Fixpoint trav (fuel : nat) (queue : list value) : list value :=
  match fuel, queue with
  | S f, t :: q => t :: trav f (q ++ dep_instances t)
  | _, _ => []
  end.

Fixpoint vsize (v : value) : nat :=
  match v with
  | VScal _ => 1
  | VTuple l => S (fold_right (fun x acc => vsize x + acc) 0 l)
  | VDict kvs => S (fold_right (fun kv acc => vsize (snd kv) + acc) 0 kvs)
  | VTask _ fs => S (fold_right (fun kv acc => vsize (snd kv) + acc) 0 fs)
  end.
Definition total_size (l : list value) : nat := fold_right (fun x acc => vsize x + acc) 0 l.

Definition build (tasks : list value) : tstruct :=
  fold_left add_task (trav (total_size tasks) tasks) [].

(* ---- correspondence case *)
Require Import LT.Model.ValuesCheck.
Record dcase := {
  dc_tasks : list value;
  dc_struct : tstruct;                  (* observed: parsed back from build_task_diagram / TaskStructure.build *)
}.
Definition rel_eqb (a b : relkey * bool) : bool := relkey_eqb (fst a) (fst b) && Bool.eqb (snd a) (snd b).
Definition tentry_eqb (a b : str * rels) : bool := str_eqb (fst a) (fst b) && list_eqb rel_eqb (snd a) (snd b).
Definition check_dcase (k : dcase) : bool := list_eqb tentry_eqb (build (dc_tasks k)) (dc_struct k).
