(* ObjPlan.v — the object layer of the planner: task *objects* (several distinct objects may be equal, i.e. denote the same
   task), as walked by lab.py TaskState.process_tasks / insert_task (processed_task_ids, task_to_instances) with
   tasks.py get_direct_dependency_instances, and marked by TaskState.complete_task (_set_result_meta on every instance).
   Sched.v works on tasks (equality classes); this file relates the two.  Definitions only. *)
Require Import LT.Model.Base LT.Model.Sched.

Record ograph := {
  nobj : nat;
  ocls : list nat;            (* object -> the task (equality class) it denotes *)
  okids : list (list nat);    (* object -> its direct dependency instances, every occurrence, in discovery order *)
  oreq : list nat;            (* the objects passed to run_tasks, in order *)
}.
Definition cls_of (g : ograph) o := nth o (ocls g) 0.
Definition kids_of (g : ograph) o := nth o (okids g) [].

(* The walk over objects is the same breadth-first walk as the one over tasks (Sched.plan), on the graph whose nodes are
   the objects: an object whose task is served from the cache contributes no dependency instances. *)
Definition obj_cfg (c : cfg) (g : ograph) : cfg :=
  {| ntasks := nobj g; deps := okids g; reads := okids g; behs := []; ty := []; maxpar := []; cacheable := [];
     req := oreq g;
     pre := map (fun o => (o, Node 0 [])) (filter (fun o => has (pre c) (cls_of g o)) (seq 0 (nobj g)));
     bust := bust c; cont := cont c |}.
Definition oplan (c : cfg) (g : ograph) : list nat := plan (obj_cfg c g).

(* task_to_instances[t] *)
Definition instances (c : cfg) (g : ograph) (t : nat) : list nat := filter (fun o => Nat.eqb (cls_of g o) t) (oplan c g).
(* the objects whose result_meta is set when the tasks in ok have completed successfully *)
Definition marked (c : cfg) (g : ograph) (ok : list nat) : list nat := filter (fun o => mem (cls_of g o) ok) (oplan c g).

(* the object graph denotes the task graph c *)
Definition denotes (c : cfg) (g : ograph) : bool :=
  list_eqb Nat.eqb (map (cls_of g) (oreq g)) (req c)
  && forallb (fun o => list_eqb Nat.eqb (dedup (map (cls_of g) (kids_of g o))) (deps_of c (cls_of g o))) (seq 0 (nobj g))
  && forallb (fun o => forallb (fun k => k <? o) (kids_of g o)) (seq 0 (nobj g))
  && forallb (fun o => o <? nobj g) (oreq g)
  && Nat.eqb (List.length (okids g)) (nobj g).

(* ---- marks with their values, on objects that live across several run_tasks calls.  Each object carries the result_meta it was
   last given (None: never completed).  One call completes the tasks in [ok] with the outcomes [meta_of] (for an executed task the
   start/duration of this execution, for a task served from the cache the stored ones). *)
Definition mark_obj (m : mark_mode) (old : option nat) (new : nat) : option nat :=
  match m, old with
  | MarkAlways, _ => Some new
  | _, Some x => Some x            (* "already carries its metadata" *)
  | _, None => Some new
  end.
Record orun := { r_cfg : cfg; r_ok : list nat; r_meta : nat -> nat }.
Definition apply_run (m : mark_mode) (g : ograph) (marks : list (option nat)) (r : orun) : list (option nat) :=
  map (fun o => if mem o (marked (r_cfg r) g (r_ok r)) then mark_obj m (nth o marks None) (r_meta r (cls_of g o)) else nth o marks None)
      (seq 0 (nobj g)).
Definition apply_runs (m : mark_mode) (g : ograph) (marks : list (option nat)) (rs : list orun) : list (option nat) :=
  fold_left (apply_run m g) rs marks.

(* ---- correspondence case: the objects built by the harness, the dependency instances labtech's own search returns for
   each, and which objects carried a result_meta after the run *)
Record ocase := { oc_cfg : cfg; oc_graph : ograph; oc_ok : list nat; oc_marked : list nat }.
Definition check_ocase (k : ocase) : bool :=
  denotes (oc_cfg k) (oc_graph k) && list_eqb Nat.eqb (sort_nat (marked (oc_cfg k) (oc_graph k) (oc_ok k))) (oc_marked k).
