(* Intr.v — the coordinator as an interruptible program.  Mirrors lab.py TaskCoordinator.run 239-283 with
   process_completed_tasks 218-237, runners/process.py ProcessRunner.submit_task/wait/cancel/stop 357-393 (the
   generator protocol of wait and the bookkeeping of future_to_task), ProcessExecutor cancel/stop.
   A KeyboardInterrupt may arrive at any *tick*; ticks stand at the entries/exits of the methods named below, which is
   also where the harness injects interrupts into the real code.  Definitions only. *)
Require Import LT.Model.Base LT.Model.Sched.
Require Export LT.Model.ParamTypes.

Inductive exn := KI | LabErr (t : nat) | KeyErr | Exhausted.   (* Exhausted: the oracle has no entry for a wait() *)
Inductive fstat := FQueued | FRunning | FDone (r : option val) | FCancelled.

Record world := {
  ws : st;                               (* coordinator + runner.results_map + history *)
  f2t : list (nat * fstat * bool);       (* every future handed to the executor, in order: task, future/worker state,
                                            and whether it is registered in future_to_task *)
  maxw_ : nat;
  budget : option nat;                   (* ticks left before the next KeyboardInterrupt *)
  second : option nat;                   (* distance from the first interrupt to the second, if any *)
  fired : nat;                           (* interrupts delivered so far *)
  oracle : list (list nat);              (* which running workers finish during each wait(), in order *)
  ticks : nat;
  terminated : list nat;
  nstarts : nat;                         (* ghost: worker processes started so far (queued -> running transitions) *)
}.

Definition M (A : Type) := world -> (A + exn) * world.
Definition ret {A} (a : A) : M A := fun w => (inl a, w).
Definition raise {A} (e : exn) : M A := fun w => (inr e, w).
Definition bind {A B} (m : M A) (f : A -> M B) : M B :=
  fun w => match m w with (inl a, w') => f a w' | (inr e, w') => (inr e, w') end.
Notation "x <- m ;; f" := (bind m (fun x => f)) (at level 61, m at next level, right associativity).
Notation "m ;;; f" := (bind m (fun _ => f)) (at level 61, right associativity).
Definition get : M world := fun w => (inl w, w).
Definition modify (f : world -> world) : M unit := fun w => (inl tt, f w).
Definition try_catch {A} (m : M A) (h : exn -> M A) : M A :=
  fun w => match m w with (inl a, w') => (inl a, w') | (inr e, w') => h e w' end.

Definition set_ws (w : world) (s : st) : world :=
  {| ws := s; f2t := f2t w; maxw_ := maxw_ w; budget := budget w; second := second w;
     fired := fired w; oracle := oracle w; ticks := ticks w; terminated := terminated w; nstarts := nstarts w |}.
Definition set_f2t (w : world) (l : list (nat * fstat * bool)) : world :=
  {| ws := ws w; f2t := l; maxw_ := maxw_ w; budget := budget w; second := second w;
     fired := fired w; oracle := oracle w; ticks := ticks w; terminated := terminated w; nstarts := nstarts w |}.

(* a point at which Ctrl-C may land *)
Definition tick : M unit := fun w =>
  let w1 := {| ws := ws w; f2t := f2t w; maxw_ := maxw_ w; budget := budget w; second := second w;
               fired := fired w; oracle := oracle w; ticks := S (ticks w); terminated := terminated w; nstarts := nstarts w |} in
  match budget w with
  | Some 0 =>
    (inr KI, {| ws := ws w1; f2t := f2t w1; maxw_ := maxw_ w1; budget := second w1; second := None;
                fired := S (fired w1); oracle := oracle w1; ticks := ticks w1; terminated := terminated w1; nstarts := nstarts w1 |})
  | Some (S k) =>
    (inl tt, {| ws := ws w1; f2t := f2t w1; maxw_ := maxw_ w1; budget := Some k; second := second w1;
                fired := fired w1; oracle := oracle w1; ticks := ticks w1; terminated := terminated w1; nstarts := nstarts w1 |})
  | None => (inl tt, w1)
  end.

Fixpoint for_each {A} (l : list A) (f : A -> M unit) : M unit :=
  match l with
  | [] => ret tt
  | x :: l' => f x ;;; for_each l' f
  end.

(* ---- the runner *)
Definition tid_of (p : nat * fstat * bool) : nat := fst (fst p).
Definition stat_of (p : nat * fstat * bool) : fstat := snd (fst p).
Definition registered (p : nat * fstat * bool) : bool := snd p.
Definition count_running (l : list (nat * fstat * bool)) : nat :=
  List.length (filter (fun p => match stat_of p with FRunning => true | _ => false end) l).
Fixpoint start_more (free : nat) (l : list (nat * fstat * bool)) : list (nat * fstat * bool) :=
  match l with
  | [] => []
  | (t, FQueued, r) :: l' => match free with 0 => (t, FQueued, r) :: l' | S k => (t, FRunning, r) :: start_more k l' end
  | x :: l' => x :: start_more free l'
  end.
Definition restart (w : world) : world :=
  let l' := start_more (maxw_ w - count_running (f2t w)) (f2t w) in
  {| ws := ws w; f2t := l'; maxw_ := maxw_ w; budget := budget w; second := second w; fired := fired w; oracle := oracle w;
     ticks := ticks w; terminated := terminated w; nstarts := nstarts w + (count_running l' - count_running (f2t w)) |}.


Record iparams := {
  ip : params;
  ip_gen : gen_mode;
  ip_drain_swallows : bool;      (* the draining loop swallows a LabError raised by a failing task *)
  ip_stop_swallows : bool;       (* so does the last process_completed_tasks() after the second interrupt *)
  ip_stop_cancels : bool;        (* the handler of the second interrupt cancels queued tasks before stopping *)
}.

Section Prog.
  Variable P : iparams.
  Variable c : cfg.

  Definition submit_one (t : nat) : M unit :=
    tick ;;;                                                             (* entry of TaskState.start_task *)
    modify (fun w => set_ws w (start c (ws w) t)) ;;;
    tick ;;;                                                             (* entry of runner.submit_task *)
    modify (fun w => restart (set_f2t w (f2t w ++ [(t, FQueued, false)]))) ;;;     (* executor.submit *)
    tick ;;;                                                             (* executor.submit returned *)
    modify (fun w => set_f2t w (map (fun p => if Nat.eqb (tid_of p) t then (tid_of p, stat_of p, true) else p) (f2t w))).

  (* the worker of task t finishes now: its outcome is what the task computes from the current results map *)
  Definition finish_worker (w : world) (t : nat) : world :=
    set_f2t w (map (fun p => if Nat.eqb (tid_of p) t
                             then match stat_of p with FRunning => (tid_of p, FDone (exec c (ws w) t), registered p) | _ => p end
                             else p) (f2t w)).

  Definition set_rmap (s : st) (m : list (nat * val)) : st :=
    {| needed := needed s; pending := pending s; active := active s; finished := finished s; failed := failed s;
       rmap := m; results := results s; store := store s; hist := hist s |}.

  (* consumer side of one yielded (task, result): process_completed_tasks body *)
  Definition consume_one (t : nat) (r : option val) : M unit :=
    (* capture happens right after the yield, before complete_task *)
    modify (fun w => let s := ws w in
                     match r with
                     | Some v => if mem t (req c)
                                 then set_ws w {| needed := needed s; pending := pending s; active := active s; finished := finished s;
                                                  failed := failed s; rmap := rmap s; results := (t, v) :: results s;
                                                  store := store s; hist := ECapture t :: hist s |}
                                 else w
                     | None => w
                     end) ;;;
    tick ;;;                                                             (* entry of TaskState.complete_task *)
    w <- get ;;
    (if mem t (active (ws w)) then ret tt else raise KeyErr) ;;;          (* type_to_active_tasks[..].remove(task) *)
    modify (fun w => let s := ws w in
                     set_ws w {| needed := needed s; pending := pending s; active := remove1 t (active s);
                                 finished := t :: finished s;
                                 failed := match r with None => t :: failed s | Some _ => failed s end;
                                 rmap := rmap s; results := results s;
                                 store := match r with
                                          | Some v => if negb (use_cache_in c (store s) t) && cacheable_of c (ty_of c t)
                                                      then (t, v) :: store s else store s
                                          | None => store s
                                          end;
                                 hist := hist s |}) ;;;
    match r with
    | None => if cont c then ret tt else raise (LabErr t)
    | Some _ => ret tt
    end ;;;
    tick ;;;                                                             (* entry of runner.remove_results *)
    modify (fun w => let s := ws w in
                     let rem := removable c (needed s) (finished s) t in
                     set_ws w {| needed := needed s; pending := pending s; active := active s; finished := finished s;
                                 failed := failed s; rmap := remove_results (ip P) rem (rmap s); results := results s;
                                 store := store s; hist := ERelease (sort_nat rem) :: hist s |}) ;;;
    tick.                                                                (* remove_results returned *)

  Definition next_batch : M (option (list nat)) := fun w =>
    match oracle w with
    | [] => (inl None, w)
    | b :: o' => (inl (Some b), {| ws := ws w; f2t := f2t w; maxw_ := maxw_ w; budget := budget w;
                                   second := second w; fired := fired w; oracle := o'; ticks := ticks w;
                                   terminated := terminated w; nstarts := nstarts w |})
    end.

  (* runner.wait as a generator driven by the for loop of process_completed_tasks *)
  Definition wait_and_process : M unit :=
    tick ;;;                                                             (* the generator body starts *)
    ob <- next_batch ;;
    completing <- match ob with Some b => ret b | None => raise Exhausted end ;;
    modify (fun w => restart (fold_left finish_worker completing w)) ;;;
    w <- get ;;
    let done_ := filter (fun p => registered p && match stat_of p with FDone _ | FCancelled => true | _ => false end) (f2t w) in
    for_each done_ (fun p =>
      let t := tid_of p in
      match ip_gen P with
      | PopFirst => modify (fun w => set_f2t w (filter (fun q => negb (Nat.eqb (tid_of q) t)) (f2t w)))
      | _ => ret tt
      end ;;;
      match stat_of p with
      | FCancelled => ret tt
      | FDone r =>
        tick ;;;                                                         (* entry of Future.result *)
        modify (fun w => let s := ws w in
                         set_ws w {| needed := needed s; pending := pending s; active := active s; finished := finished s;
                                     failed := failed s;
                                     rmap := match r with Some v => (t, v) :: rmap s | None => rmap s end;
                                     results := results s; store := store s; hist := EFinish t r :: hist s |}) ;;;
        consume_one t r
      | _ => ret tt
      end) ;;;
    match ip_gen P with
    | PruneAfter => modify (fun w => set_f2t w (filter (fun q => negb (existsb (fun p => Nat.eqb (tid_of p) (tid_of q)) done_)) (f2t w)))
    | _ => ret tt
    end.

  Definition do_cancel : M unit :=
    tick ;;;                                                             (* entry of runner.cancel *)
    modify (fun w => set_f2t w (map (fun p => match stat_of p with FQueued => (tid_of p, FCancelled, registered p) | _ => p end) (f2t w))).
  Definition do_stop : M unit :=
    tick ;;;                                                             (* entry of runner.stop *)
    modify (fun w => {| ws := ws w;
                        f2t := map (fun p => match stat_of p with FRunning => (tid_of p, FCancelled, registered p) | _ => p end) (f2t w);
                        maxw_ := maxw_ w; budget := budget w; second := second w; fired := fired w;
                        oracle := oracle w; ticks := ticks w;
                        terminated := terminated w ++ map tid_of (filter (fun p => match stat_of p with FRunning => true | _ => false end) (f2t w));
                        nstarts := nstarts w |}).

  Inductive ioutcome := IReturned (r : list (nat * val)) | IRaised (e : exn) | IOutOfOracle.

  Definition loop_cond (w : world) : bool :=
    negb (match pending (ws w) with [] => true | _ => false end) || existsb registered (f2t w).

  (* while pending or runner.pending_task_count(): submit ready tasks; process_completed_tasks() *)
  Fixpoint main_loop (fuel : nat) : M bool :=          (* true: the loop was left normally; false: oracle exhausted *)
    match fuel with
    | 0 => ret false
    | S f =>
      w <- get ;;
      if negb (loop_cond w) then ret true else
      for_each (get_ready (ip P) c (ws w)) submit_one ;;;
      wait_and_process ;;; main_loop f
    end.

  (* while runner.pending_task_count() > 0: process_completed_tasks() *)
  Fixpoint drain_loop (fuel : nat) : M bool :=
    match fuel with
    | 0 => ret false
    | S f =>
      w <- get ;;
      if negb (existsb registered (f2t w)) then ret true else
        try_catch wait_and_process
                  (fun e => match e with
                            | LabErr _ => if ip_drain_swallows P then ret tt else raise e
                            | _ => raise e
                            end) ;;;
        drain_loop f
    end.

  Definition final_of (w : world) : ioutcome :=
    match final (ip P) c (ws w) with
    | Returned r => IReturned r
    | _ => IRaised KeyErr
    end.

  (* the except KeyboardInterrupt branch: cancel queued tasks, drain; on a second interrupt cancel again, stop, collect *)
  Definition on_interrupt (fuel : nat) : M ioutcome :=
    try_catch
      (do_cancel ;;;
       ok <- drain_loop fuel ;;
       ret (if ok then IRaised KI else IOutOfOracle))
      (fun e2 =>
         match e2 with
         | KI =>
           try_catch ((if ip_stop_cancels P then do_cancel else ret tt) ;;;
                      do_stop ;;;
                      try_catch wait_and_process
                                (fun e3 => match e3 with
                                           | LabErr _ => if ip_stop_swallows P then ret tt else raise e3
                                           | _ => raise e3
                                           end) ;;;
                      ret (IRaised KI))
                     (fun e3 => ret (match e3 with Exhausted => IOutOfOracle | _ => IRaised e3 end))
         | Exhausted => ret IOutOfOracle
         | _ => ret (IRaised e2)
         end).

  (* TaskCoordinator.run's try / except KeyboardInterrupt / else, without the finally (runner.close etc.) *)
  Definition irun (fuel : nat) : M ioutcome :=
    try_catch
      (ok <- main_loop fuel ;;
       w <- get ;;
       ret (if ok then final_of w else IOutOfOracle))
      (fun e =>
         match e with
         | KI => on_interrupt fuel
         | Exhausted => ret IOutOfOracle
         | _ => ret (IRaised e)
         end).
End Prog.

Definition init_world (c : cfg) (maxw : nat) (o : list (list nat)) (k1 : option nat) (k2 : option nat) : world :=
  {| ws := init c; f2t := []; maxw_ := maxw; budget := k1; second := k2; fired := 0; oracle := o;
     ticks := 0; terminated := []; nstarts := 0 |}.

Definition run_intr (P : iparams) (c : cfg) (maxw : nat) (o : list (list nat)) (k1 k2 : option nat) : ioutcome * world :=
  match irun P c (S (S (List.length o))) (init_world c maxw o k1 k2) with
  | (inl out, w) => (out, w)
  | (inr e, w) => (IRaised e, w)
  end.

(* ---- correspondence case *)
Record icase := {
  ic_cfg : cfg; ic_maxw : nat; ic_oracle : list (list nat); ic_k1 : option nat; ic_k2 : option nat;
  ic_outcome : ioutcome;            (* observed *)
  ic_trace : list event;            (* observed, oldest first *)
  ic_terminated : list nat;         (* observed: workers terminated by stop(), sorted *)
  ic_nstarts : nat;                 (* observed: worker processes started during the whole run *)
}.
Definition exn_eqb (a b : exn) : bool :=
  match a, b with KI, KI | KeyErr, KeyErr | Exhausted, Exhausted => true | LabErr t, LabErr u => Nat.eqb t u | _, _ => false end.
Definition ioutcome_eqb (a b : ioutcome) : bool :=
  match a, b with
  | IReturned r, IReturned r' => list_eqb kv_eqb r r'
  | IRaised e, IRaised e' => exn_eqb e e'
  | _, _ => false
  end.
Definition check_icase (P : iparams) (k : icase) : bool :=
  let '(out, w) := run_intr P (ic_cfg k) (ic_maxw k) (ic_oracle k) (ic_k1 k) (ic_k2 k) in
  ioutcome_eqb out (ic_outcome k)
  && list_eqb event_eqb (rev (hist (ws w))) (ic_trace k)
  && list_eqb Nat.eqb (sort_nat (terminated w)) (ic_terminated k)
  && Nat.eqb (nstarts w) (ic_nstarts k).
