"""A third module: a namesake of the scheduler type TN1 (max_parallel=1, no cache) with the ordinary run().  The limits of
two task types that merely share a class name are independent (C04, C05)."""
import lv_universe as U

TN1 = U.make_type('TN1', cache=None, max_parallel=1, module=__name__)
