"""A second module defining task/enum types with the same names as lv_universe (C07: same-named types)."""
import enum
import lv_universe as U

V2 = U.make_vtype('V2', ['x'], module=__name__)


class Color(enum.Enum):
    RED = 1
    GREEN = 2


# Twins of the scheduler-universe types: same qualified name, same fields, another module, another run() (C06: a load
# must never return what was stored for a different task).
def _run_twin(self):
    return ('TWIN', self.label)


TWINS = {}
for _t in U.SCHED_TYPES:
    _cache = _t._lt.cache
    TWINS[_t.__qualname__] = U.make_type(_t.__qualname__, cache=(None if type(_cache).__name__ == 'NullCache' else (U.JsonCache() if isinstance(_cache, U.JsonCache) else 'default')),
                                         max_parallel=_t._lt.max_parallel, module=__name__, run=_run_twin)

