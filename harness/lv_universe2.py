"""A second module defining task/enum types with the same names as lv_universe (C07: same-named types)."""
import enum
import lv_universe as U

V2 = U.make_vtype('V2', ['x'], module=__name__)


class Color(enum.Enum):
    RED = 1
    GREEN = 2
