"""C20: TaskStructure.build / build_task_diagram on generated task graphs against Model/Diagram.v."""
import dataclasses
import json
import re
from collections import Counter

from labtech.diagram import build_task_diagram
try:
    from labtech.diagram import TaskStructure
except ImportError:
    TaskStructure = None
from labtech.tasks import find_tasks_in_param
from labtech.types import is_task

import lv_universe as U
import values_h as V
from common import coq_failing, rng_for, CoqError, g_list, g_bool

DTYPES = [('lv_universe', 'V1', ['a', 'b']), ('lv_universe', 'V2', ['x']), ('lv_universe', 'V', ['x']),
          ('lv_universe', 'VV', ['x']), ('lv_universe', 'VPost', ['x']), ('lv_universe', 'V0', []), ('lv_universe', 'VInh', ['a', 'b', 'c']),
          ('lv_universe', 'VUnder', ['_hidden', 'x_']), ('lv_universe', 'VNoneRet', ['x']),
          ('lv_universe', 'VInner', ['x'])]           # a task type defined inside a class: shown under its plain name


def gen_task(rng, depth=0):
    mod, name, fields = rng.choice(DTYPES)
    fs = []
    for f in fields:
        r = rng.random()
        if depth >= 3 or r < 0.3:
            v = rng.choice(V.SCALAR_POOL[:18])
        elif r < 0.55:
            v = gen_task(rng, depth + 1)                       # a single task parameter
        else:
            items = [gen_task(rng, depth + 1) if rng.random() < 0.6 else rng.choice(V.SCALAR_POOL[:14]) for _ in range(rng.randint(0, 3))]
            kind = rng.choice(['tuple', 'list', 'dict', 'nested'])
            if kind == 'dict':
                v = ['dict', False, [[['str', f'k{i}'], x] for i, x in enumerate(items)]]
            elif kind == 'nested':
                v = ['tuple', [['list', items], ['dict', True, [[['str', 'z'], gen_task(rng, depth + 1)]]]]] if depth < 2 else ['tuple', items]
            else:
                v = [kind, items]
        fs.append([f, v])
    return ['task', mod, name, fs]


def gen_chain(rng):
    """The same task type repeated over several consecutive nesting levels (so that whole levels add nothing new to the
    structure) with something new — another type, a collection-valued occurrence — only at the bottom."""
    mod, name, fields = rng.choice([d for d in DTYPES if d[2]])
    scalar = lambda: rng.choice(V.SCALAR_POOL[:14])
    bottom = rng.choice([lambda: gen_task(rng, 3), lambda: ['list', [gen_task(rng, 3), gen_task(rng, 3)]],
                         lambda: ['dict', False, [[['str', 'k'], gen_task(rng, 3)]]], scalar])()
    cur = bottom
    slot = rng.randrange(len(fields))
    for level in range(rng.randint(3, 9)):
        if level and rng.random() < 0.1:
            cur = ['tuple', [cur]]
        cur = ['task', mod, name, [[f, cur if i == slot else scalar()] for i, f in enumerate(fields)]]
    return cur


def fullname(cls):
    return f'{cls.__module__}.{cls.__qualname__}'


def observed_struct(tasks):
    """The structure labtech derives: read from TaskStructure when it has the layout this harness knows, and otherwise parsed
    back from the public build_task_diagram text (class blocks in order; arrows in order under their dependent type)."""
    try:
        ts = TaskStructure.build(tasks)
        out = []
        for ty, rels in ts.task_type_to_rels.items():
            out.append([fullname(ty), [[k.from_param_name, fullname(k.to_task_type), bool(i.multi_cardinality)] for k, i in rels.items()]])
        return out
    except (AttributeError, TypeError, ValueError):
        return struct_from_text(tasks, build_task_diagram(tasks))


def struct_from_text(tasks, text):
    names = {}
    for t in reachable(tasks):
        for nm in {type(t).__qualname__, type(t).__name__}:
            names.setdefault(nm, set()).add(fullname(type(t)))

    def full(nm):
        if len(names.get(nm, ())) != 1:
            raise ValueError(f'diagram names a type that is not a unique reachable task type: {nm}')
        return next(iter(names[nm]))
    out, index = [], {}
    for l in (l.strip() for l in text.splitlines()):
        if l.startswith('class ') and not l.startswith('classDiagram'):
            index[l[len('class '):]] = len(out)
            out.append([full(l[len('class '):]), []])
        m = re.match(r'^(\S+) <-- ("many" )?(\S+): (\w+)$', l)
        if m:
            out[index[m.group(1)]][1].append([m.group(4), full(m.group(3)), bool(m.group(2))])
    return out


def emit(tasks, struct):
    st = g_list([f'({V.g_s(ty)}, {g_list([f"(({V.g_s(p)}, {V.g_s(to)}), {g_bool(m)})" for p, to, m in rels])})' for ty, rels in struct])
    return '{| dc_tasks := %s; dc_struct := %s |}' % (g_list([V.g_value_py(t) for t in tasks]), st)


def reachable(tasks):
    seen, todo, out = set(), list(tasks), []
    while todo:
        t = todo.pop(0)
        out.append(t)
        for f in dataclasses.fields(t):
            todo += find_tasks_in_param(getattr(t, f.name))
    return out


def monitor(tasks, text, text2):
    if text != text2:
        return ('nondeterministic', 'two calls on the same input gave different diagrams')
    lines = [l.strip() for l in text.splitlines()]
    blocks = [l[len('class '):] for l in lines if l.startswith('class ') and not l.startswith('classDiagram')]
    arrows = []
    for l in lines:
        m = re.match(r'^(\w+) <-- ("many" )?(\w+): (\w+)$', l)
        if m:
            arrows.append((m.group(1), m.group(4), m.group(3), bool(m.group(2))))
    reach = reachable(tasks)
    want_types = []
    for t in reach:
        if type(t).__name__ not in want_types:
            want_types.append(type(t).__name__)
    if sorted(blocks) != sorted(want_types):
        return ('class-blocks', f'class blocks {blocks} but reachable task types are {want_types}')
    if len(blocks) != len(set(blocks)):
        return ('duplicate-block', f'a class block appears twice: {blocks}')
    want = {}
    for t in reach:
        for f in dataclasses.fields(t):
            val = getattr(t, f.name)
            for sub in find_tasks_in_param(val):
                key = (type(t).__name__, f.name, type(sub).__name__)
                want[key] = want.get(key, False) or (not is_task(val))
    got = {}
    for a, p, b, many in arrows:
        if (a, p, b) in got:
            return ('duplicate-arrow', f'arrow {(a, p, b)} appears twice')
        got[(a, p, b)] = many
    if got != want:
        return ('arrows', f'arrows {sorted(got.items())} but expected {sorted(want.items())}')
    for ty in set(type(t) for t in reach):
        for f in dataclasses.fields(ty):
            if not any(l.startswith(f'{ty.__name__} : ') and l.endswith(f' {f.name}') for l in lines):
                return ('missing-parameter', f'parameter {f.name} of {ty.__name__} is not listed')
        if not any(l.startswith(f'{ty.__name__} : run()') for l in lines):
            return ('missing-run', f'run signature of {ty.__name__} is not listed')
        # the run line says what run() is declared to return: nothing when it is not annotated, the hint otherwise
        import typing
        ret = typing.get_type_hints(ty.run).get('return')
        want_line = f'{ty.__name__} : run()' + ('' if ret is None else ' ' + _fmt(ret))
        run_lines = [l for l in lines if l.startswith(f'{ty.__name__} : run()')]
        if run_lines != [want_line.strip()]:
            return ('run-signature', f'run signature of {ty.__name__} is shown as {run_lines}, run() is declared as {want_line!r}')
    return None


FRESH = '''
import json, sys
sys.path.insert(0, %r)
import values_h as V
from labtech.diagram import build_task_diagram
print(json.dumps([build_task_diagram([V.build(s) for s in specs]) for specs in json.load(open(sys.argv[1]))]))
'''


def fresh_diagrams(inputs, hashseed):
    """The same diagrams rendered by a fresh interpreter with another hash seed."""
    import os
    import subprocess
    from common import subdir
    here = os.path.dirname(os.path.abspath(__file__))
    path = os.path.join(subdir('diagram'), f'specs_{hashseed}.json')
    with open(path, 'w') as f:
        json.dump(inputs, f)
    env = dict(os.environ, PYTHONHASHSEED=str(hashseed), PYTHONPATH=os.environ.get('LV_REPO', '/repo') + ':' + here)
    out = subprocess.run(['/venv/bin/python', '-c', FRESH % here, path], env=env, stdout=subprocess.PIPE, stderr=subprocess.PIPE, text=True, timeout=600)
    if out.returncode != 0:
        raise RuntimeError(out.stderr[-1500:])
    return json.loads(out.stdout.strip().splitlines()[-1])


IMPORTS = 'Require Import LT.Model.Values LT.Model.ValuesCheck LT.Model.Diagram.\n'
TEXT_IMPORTS = IMPORTS + 'Require Import LT.Model.DiagramText.\n'


def _fmt(t):
    """How the diagram spells a type hint: the unqualified name of a type (of the origin and the arguments of a generic one), the
    string form of anything else.  Computed here, not by labtech."""
    import typing
    if not isinstance(t, type):
        return str(t)
    origin = typing.get_origin(t)
    if origin is None:
        return t.__name__
    return f"{origin.__name__}[{', '.join(_fmt(a) for a in typing.get_args(t))}]"


def emit_text(tasks, direction, text):
    """A Model/DiagramText.v case: the tasks, what typing says about every reachable type, the text split at newlines."""
    import typing
    infos, seen = [], set()
    for t in reachable(tasks):
        ty = type(t)
        if ty in seen:
            continue
        seen.add(ty)
        ret = typing.get_type_hints(ty.run).get('return')
        fields = g_list([f'({V.g_s(_fmt(f.type))}, {V.g_s(f.name)})' for f in dataclasses.fields(ty)])
        infos.append('(%s, {| ti_name := %s; ti_fields := %s; ti_run := %s |})' % (
            V.g_s(fullname(ty)), V.g_s(_fmt(ty)), fields, V.g_s('' if ret is None else ' ' + _fmt(ret))))
    return '{| tc_tasks := %s; tc_dir := %s; tc_info := %s; tc_text := %s |}' % (
        g_list([V.g_value_py(t) for t in tasks]), V.g_s(direction), g_list(infos), g_list([V.g_s(l) for l in text.split('\n')]))

VOLUME = {'quick': 400, 'thorough': 8000}


def run(prop, report, tier, seed, replay=None):
    rng = rng_for(seed, prop, 'diagram')
    history = replay['input'].get('history', []) if replay else []
    for past in history:          # (an output that depends on the calls made before it in the same process)
        try:
            build_task_diagram([V.build(s) for s in past])
        except BaseException:   # noqa
            pass
    inputs = [replay['input']['tasks']] if replay else [[(gen_chain(rng) if rng.random() < 0.2 else gen_task(rng)) for _ in range(rng.randint(0, 3))] for _ in range(VOLUME[tier])]
    terms, kept, text_terms = [], [], []
    dist = Counter()
    distinct = set()
    for specs in inputs:
        tasks = [V.build(s) for s in specs]
        direction = rng.choice(['BT', 'BT', 'TB', 'LR', 'RL'])
        try:
            text = build_task_diagram(tasks)
        except BaseException as e:   # noqa
            report.violation('C20:diagram-raised', f'build_task_diagram raised {e!r} for a list of {len(tasks)} tasks', dict(tasks=specs))
            text_terms.append(None)
            continue
        try:
            text_terms.append(emit_text(tasks, direction, build_task_diagram(tasks, direction=direction)))
        except BaseException as e:   # noqa
            report.violation('C20:diagram-raised', f'build_task_diagram(direction={direction!r}) raised {e!r}', dict(tasks=specs))
            text_terms.append(None)
        text2 = build_task_diagram([V.build(s) for s in specs])
        v = monitor(tasks, text, text2)
        if v is not None:
            report.violation(f'C20:{v[0]}', v[1], dict(tasks=specs, history=[k for k in kept][-40:]))
        st = observed_struct(tasks)
        dist[f'types={len(st)}'] += 1
        dist[f'arrows={min(sum(len(r) for _, r in st), 6)}'] += 1
        if sum(len(r) for _, r in st) >= 2:
            distinct.add(json.dumps(specs))
        terms.append(emit(tasks, st))
        kept.append(specs)
    if replay is None or replay['input'].get('level') == 'fresh':
        # the same input gives the same text in every interpreter (whatever the hash seed)
        sample = [k for k in kept if sum(1 for _ in k) >= 1][:60 if tier == 'quick' else 600]
        here_texts = [build_task_diagram([V.build(s) for s in specs]) for specs in sample]
        for hs in ((1, 4242) if tier == 'quick' else (1, 2, 7, 4242)):
            there = fresh_diagrams(sample, hs)
            diff = [i for i in range(len(sample)) if there[i] != here_texts[i]]
            if diff:
                report.violation('C20:nondeterministic', f'a fresh interpreter with PYTHONHASHSEED={hs} renders a different diagram for the same tasks '
                                                         f'({len(diff)} of {len(sample)} inputs differ)', dict(tasks=sample[diff[0]], level='fresh'))
                break
        dist['fresh_interpreter_diagrams'] = len(sample)
    try:
        bad = coq_failing('corr_C20', IMPORTS, terms, 'check_dcase', shard=200)
    except CoqError as e:
        bad = []
        report.broke('correspondence Diagram.check_dcase could not be evaluated', str(e))
    if bad:
        report.broke(f'correspondence Model/Diagram.v vs TaskStructure.build: {len(bad)} of {len(terms)} cases differ',
                     first_case=dict(tasks=kept[bad[0]]))
    # the text, line by line
    idx = [i for i, t in enumerate(text_terms) if t is not None]
    try:
        tbad = coq_failing('corr_C20_text', TEXT_IMPORTS, [text_terms[i] for i in idx], 'check_tcase', shard=200)
    except CoqError as e:
        tbad = []
        report.broke('correspondence DiagramText.check_tcase could not be evaluated', str(e))
    if tbad:
        report.broke(f'correspondence Model/DiagramText.v vs build_task_diagram (text, line by line): {len(tbad)} of {len(idx)} cases differ',
                     first_case=dict(tasks=kept[idx[tbad[0]]]))
    dist['text_cases'] = len(idx)
    report.coverage.update(
        evaluations=len(inputs), distinct_nontrivial=len(distinct), traces_validated_against_impl=len(terms),
        correspondence_mismatches=len(bad),
        rule=('lists of 0-3 task trees over 5 task types whose parameters are scalars, single tasks, or tuples/lists/dicts '
              '(nested up to depth 3) of tasks and scalars; non-trivial = at least two arrows'),
        distribution=dict(sorted(dist.items())), samples=kept[:2])
