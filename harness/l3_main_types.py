"""Run as a script: task types defined in the started script itself (module __main__), one of them with a post_init, run under the
spawn backend (the workers re-import this file as __mp_main__) and under fork.  Prints one JSON line: for every task, its key in
this process, whether it is reported cached after the run, the keys of the entries in the storage, and what a second run executed."""
import json
import os
import sys

import labtech
from labtech.lab import Lab


def _note(self):
    d = os.environ.get('LV_MAIN_RECDIR')
    if d:
        open(os.path.join(d, f'{type(self).__name__}_{self.n}_{os.getpid()}_{len(os.listdir(d))}'), 'w').close()


@labtech.task
class MainPlain:
    n: int

    def run(self):
        _note(self)
        return ('plain', self.n)


@labtech.task
class MainPost:
    n: int

    def post_init(self):
        object.__setattr__(self, 'twice', self.n * 2)

    def run(self):
        _note(self)
        return ('post', self.twice)


@labtech.task
class MainTop:
    dep: MainPost
    n: int

    def run(self):
        _note(self)
        return ('top', self.dep.result, self.n)


def main():
    cfg = json.loads(sys.argv[1])
    import logging
    logging.getLogger('labtech').setLevel(logging.CRITICAL)
    os.environ['LV_MAIN_RECDIR'] = cfg['recdir']
    tasks = [MainPlain(n=1), MainPost(n=2), MainTop(dep=MainPost(n=3), n=4)]
    everything = tasks + [tasks[2].dep]
    lab = Lab(storage=cfg['storage'], runner_backend=cfg['backend'], max_workers=2, notebook=False)
    out = dict(keys={repr(t): t.cache_key for t in everything})
    res = lab.run_tasks(tasks, disable_progress=True, disable_top=True)
    out['values'] = {repr(t): repr(v) for t, v in res.items()}
    out['cached_after'] = {repr(t): bool(lab.is_cached(t)) for t in everything}
    out['stored_keys'] = sorted(k for k in os.listdir(cfg['storage']) if os.path.isdir(os.path.join(cfg['storage'], k)))
    first = len(os.listdir(cfg['recdir']))
    res2 = lab.run_tasks(tasks, disable_progress=True, disable_top=True)
    out['executed_again'] = len(os.listdir(cfg['recdir'])) - first
    out['values2'] = {repr(t): repr(v) for t, v in res2.items()}
    with open(cfg['result_file'], 'w') as f:
        json.dump(out, f)


if __name__ == '__main__':
    main()
