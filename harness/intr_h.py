"""Interrupt injection at method boundaries ("ticks") into the real coordinator + ProcessRunner over gated workers.
The same ticks exist in Model/Intr.v; an interrupt at tick k raises KeyboardInterrupt in the calling thread there."""
import logging
import random

import labtech.lab as L
import labtech.runners.process as P
from labtech.exceptions import LabError

import exec_h as X
import sched_h as S
from common import g_bool, g_list, g_nats, g_opt, g_pair

logging.getLogger('labtech').setLevel(logging.CRITICAL)


class Ticker:
    def __init__(self, k1, k2):
        self.n = 0
        self.targets = set()
        if k1 is not None:
            self.targets.add(k1)
            if k2 is not None:
                self.targets.add(k1 + 1 + k2)
        self.fired = 0
        self.pos_first = None
        self.running_at_first = []

    def tick(self):
        n = self.n
        self.n += 1
        if n in self.targets:
            self.fired += 1
            if self.fired == 1:
                if S.ACTIVE_REC is not None:
                    self.pos_first = len(S.ACTIVE_REC.ev)
                ex = getattr(X.SCRIPT, 'executor', None)
                if ex is not None:
                    self.running_at_first = [X.SCRIPT.submit_tids[f.id - X.SCRIPT.base] for f, p in ex._running_pairs()
                                             if X.SCRIPT.base is not None and f.id - X.SCRIPT.base < len(X.SCRIPT.submit_tids)]
            raise KeyboardInterrupt(f'injected at tick {n}')


TICKER = None


def _t():
    if TICKER is not None:
        TICKER.tick()


class instrumented:
    """Patch the tick points for the duration of one run."""

    def __enter__(self):
        self.saved = []

        def patch(obj, name, new):
            self.saved.append((obj, name, getattr(obj, name)))
            setattr(obj, name, new)
        o_start, o_complete = L.TaskState.start_task, L.TaskState.complete_task
        o_submit, o_wait, o_remove = P.ProcessRunner.submit_task, P.ProcessRunner.wait, P.ProcessRunner.remove_results
        o_cancel, o_stop, o_result = P.ProcessRunner.cancel, P.ProcessRunner.stop, P.Future.result
        o_exsubmit = X.ScriptedExecutor.submit

        def start_task(self, task):
            _t()
            return o_start(self, task)

        def complete_task(self, task, *, result_meta):
            _t()
            return o_complete(self, task, result_meta=result_meta)

        def submit_task(self, task, task_name, use_cache):
            _t()
            return o_submit(self, task, task_name, use_cache)

        def exsubmit(self, fn, /, *a, **kw):
            r = o_exsubmit(self, fn, *a, **kw)
            _t()
            return r

        def wait(self, *, timeout_seconds):
            _t()
            yield from o_wait(self, timeout_seconds=timeout_seconds)

        def remove_results(self, tasks):
            tasks = list(tasks)
            _t()
            r = o_remove(self, tasks)
            if S.ACTIVE_REC is not None:
                S.ACTIVE_REC.on_remove(tasks)
                S.ACTIVE_REC.on_map(self.results_map)
            _t()
            return r

        def cancel(self):
            _t()
            return o_cancel(self)

        def stop(self):
            _t()
            return o_stop(self)

        def result(self):
            _t()
            return o_result(self)
        self.saved_flag = S.EXTERNAL_REMOVE_RECORDING
        S.EXTERNAL_REMOVE_RECORDING = True
        patch(L.TaskState, 'start_task', start_task)
        patch(L.TaskState, 'complete_task', complete_task)
        patch(P.ProcessRunner, 'submit_task', submit_task)
        patch(P.ProcessRunner, 'wait', wait)
        patch(P.ProcessRunner, 'remove_results', remove_results)
        patch(P.ProcessRunner, 'cancel', cancel)
        patch(P.ProcessRunner, 'stop', stop)
        patch(P.Future, 'result', result)
        patch(X.ScriptedExecutor, 'submit', exsubmit)
        return self

    def __exit__(self, *a):
        for obj, name, old in reversed(self.saved):
            setattr(obj, name, old)
        S.EXTERNAL_REMOVE_RECORDING = self.saved_flag
        S.ACTIVE_REC = None


class _ReleaseLeftovers:
    """After run_tasks has ended: workers that labtech left running (it does not terminate them after a single
    interrupt) are allowed to finish, so that what they cache is observable; after a second interrupt they must be gone."""

    def __enter__(self):
        return self

    def __exit__(self, *a):
        alive = [p for p in X.GatedProcess.started if p.is_alive()]
        X.SCRIPT.nstarted = len(X.GatedProcess.started)
        if TICKER is not None and TICKER.fired >= 2:
            for p in alive:
                p.join(2.0)          # terminate() has been sent; give the signal time to land
            X.SCRIPT.leftover_alive = len([p for p in alive if p.is_alive()])
        else:
            # (after a single interrupt run_tasks gives control back only once the executing tasks have finished: nothing should be
            # alive here; what is, is counted, then allowed to finish)
            X.SCRIPT.alive_after_single = len(alive) if (TICKER is not None and TICKER.fired == 1) else 0
            for p in alive:
                p.release_and_join()
        return False


def run_interrupt(case, k1, k2, forced=None):
    """One run under the real fork ProcessRunner with scripted workers and interrupts at ticks k1 (and k1+1+k2)."""
    global TICKER
    X.SCRIPT = X.Script(random.Random(case['sched_seed']), p_kill=0.0, p_idle=0.15)
    X.SCRIPT.forced = forced
    TICKER = Ticker(k1, k2)
    obs = None
    try:
        with X.patched() as _px, instrumented():
            obs = S.run_case(dict(case, runner='l2'), backend_factory=lambda rec: S.SpyBackend(X.L2Backend(), rec), catch_ki=True,
                             around_run=_ReleaseLeftovers())
    finally:
        script, ticker = X.SCRIPT, TICKER
        X.SCRIPT = None
        TICKER = None
        script.leftover_alive = getattr(script, 'leftover_alive', 0)
        script.alive_after_single = getattr(script, 'alive_after_single', 0)
    subs = [e[1] for e in obs['events'] if e[0] == 'submit']
    # which workers finished during each executor wait, as task ids
    fid_to_tid = {}
    for i, f in enumerate(script.created):
        pass
    oracle = []
    # future ids are assigned in executor.submit order, which is the order of the spy's submit events that reached the executor
    reached = script.submit_tids
    for kind, envs, _ in script.ops:
        if kind == 'wait':
            oracle.append([reached[e[1]] for e in envs if e[0] == 'finish' and e[1] < len(reached)])
    stops = [o for o in script.ops if o[0] == 'stop']
    return obs, oracle, ticker, script


def emit_icase(case, obs, oracle, k1, k2, terminated, nstarted):
    out = obs['outcome']
    if out == 'returned':
        o = 'IReturned ' + g_list([g_pair(t, S.g_val_safe(v)) for t, v in obs['returned']])
    elif out == 'interrupt':
        o = 'IRaised KI'
    elif out == 'laberror':
        fails = [e[1] for e in obs['events'] if e[0] == 'finish' and e[2] is None]
        o = f'IRaised (LabErr {fails[-1]})' if fails else 'IOutOfOracle'
    elif out == 'keyerror':
        o = 'IRaised KeyErr'
    else:
        o = 'IOutOfOracle'
    return ('{| ic_cfg := %s; ic_maxw := %d; ic_oracle := %s; ic_k1 := %s; ic_k2 := %s; ic_outcome := %s; ic_trace := %s; '
            'ic_terminated := %s; ic_nstarts := %d |}' % (S.emit_cfg(case), case['max_workers'], g_list([g_nats(b) for b in oracle]),
                                        g_opt(k1), g_opt(k2), o, S.emit_events(obs), g_nats(sorted(terminated)), nstarted))


INTR_IMPORTS = 'Require Import LT.Model.Base LT.Model.Sched LT.Model.Intr LT.Gen.SrcParams.\n'
