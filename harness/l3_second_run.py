"""Run in a fresh interpreter (its own PYTHONHASHSEED): build a fixed family of tasks, run them under the given backend on the
given storage directory, and print one JSON line: which tasks were reported cached beforehand, what run_tasks returned, the
result_meta of every requested task and which tasks were executed (execution records)."""
import json
import os
import sys

sys.path.insert(0, os.path.dirname(os.path.abspath(__file__)))
import labtech  # noqa
from labtech.lab import Lab  # noqa

import lv_universe as U  # noqa


def build(n):
    """A chain / fan of multi-parameter tasks of three cached types (two cache formats), dict and tuple parameters included."""
    tasks = []
    for i in range(n):
        deps = ()
        if i >= 1:
            deps = {'prev': tasks[i - 1], 'pair': (tasks[max(0, i - 2)], tasks[i - 1])} if i % 2 else (tasks[i - 1],)
        ty = [U.Ta, U.Tab, U.TJ][i % 3]
        nfound = len(U.flat(deps))
        tasks.append(ty(label=i, deps=deps, beh='ok', reads=tuple(range(nfound)), talk=()))
    return tasks


def main():
    cfg = json.loads(sys.argv[1])
    import logging
    logging.getLogger('labtech').setLevel(logging.CRITICAL)
    os.environ['LV_RECDIR'] = cfg['recdir']
    tasks = build(cfg['n'])
    lab = Lab(storage=cfg['storage'], runner_backend=cfg['backend'], max_workers=2, notebook=False)
    out = dict(cached_before=[t.label for t in tasks if lab.is_cached(t)], keys=[t.cache_key for t in tasks])
    res = lab.run_tasks(tasks, disable_progress=True, disable_top=True)
    out['values'] = {str(t.label): repr(v) for t, v in res.items()}
    out['metas'] = {str(t.label): [t.result_meta.start.isoformat(), t.result_meta.duration.total_seconds()] for t in tasks if t.result_meta is not None}
    out['executed'] = sorted({json.load(open(os.path.join(cfg['recdir'], f)))['label'] for f in os.listdir(cfg['recdir']) if f.endswith('_start.json')})
    with open(cfg['result_file'], 'w') as f:
        json.dump(out, f)


if __name__ == '__main__':
    main()
