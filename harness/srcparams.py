"""Fail-closed extraction of the constants/operators the proofs hinge on, from the *current* /repo source.
Regenerates coq/Gen/SrcParams.v.  Anything not recognised becomes an Unknown constructor, under which the
dependent lemmas do not go through (a broken obligation, never a silent pass)."""
import ast
import os

from common import COQ, REPO


def _src(rel):
    with open(os.path.join(REPO, 'labtech', rel)) as f:
        return ast.parse(f.read())


def _find(tree, *path):
    """Find nested ClassDef/FunctionDef by name path."""
    node = tree
    for name in path:
        found = None
        for n in ast.walk(node) if node is tree else ast.iter_child_nodes(node):
            if isinstance(n, (ast.ClassDef, ast.FunctionDef)) and n.name == name:
                found = n
                break
        if found is None:
            return None
        node = found
    return node


def _dump(n):
    return ast.dump(n, annotate_fields=False)


# ------------------------------------------------------------------ lab.py

def sched_params():
    out = dict(p_cmp='CmpUnknown', p_dep_guard='false', p_missing='MUnknownMode', p_final='FUnknownFinal')
    lab = _src('lab.py')
    gr = _find(lab, 'TaskState', 'get_ready_tasks')
    if gr is not None:
        for n in ast.walk(gr):
            if isinstance(n, ast.If) and len(n.body) == 1 and isinstance(n.body[0], ast.Continue):
                t = n.test
                # (task._lt.max_parallel is not None) and (task_type_counts[type(task)] <op> task._lt.max_parallel)
                if (isinstance(t, ast.BoolOp) and isinstance(t.op, ast.And) and len(t.values) == 2
                        and isinstance(t.values[1], ast.Compare) and len(t.values[1].ops) == 1
                        and isinstance(t.values[0], ast.Compare) and isinstance(t.values[0].ops[0], ast.IsNot)
                        and 'max_parallel' in _dump(t.values[0])
                        and 'task_type_counts' in _dump(t.values[1].left)
                        and 'max_parallel' in _dump(t.values[1].comparators[0])):
                    op = t.values[1].ops[0]
                    out['p_cmp'] = {'GtE': 'CmpGe', 'Gt': 'CmpGt'}.get(type(op).__name__, 'CmpUnknown')
                # len(self.task_to_pending_dependencies.get(task, set())) > 0
                if (isinstance(t, ast.Compare) and len(t.ops) == 1 and isinstance(t.ops[0], ast.Gt)
                        and isinstance(t.comparators[0], ast.Constant) and t.comparators[0].value == 0
                        and 'task_to_pending_dependencies' in _dump(t.left) and 'len' in _dump(t.left)):
                    out['p_dep_guard'] = 'true'
    rt = _find(lab, 'Lab', 'run_tasks')
    if rt is not None:
        rets = [n for n in ast.walk(rt) if isinstance(n, ast.Return)]
        if len(rets) == 1 and isinstance(rets[0].value, ast.DictComp):
            dc = rets[0].value
            gen = dc.generators[0]
            if len(dc.generators) == 1 and isinstance(dc.value, ast.Subscript) and _dump(gen.iter) == _dump(ast.parse('tasks').body[0].value):
                if not gen.ifs:
                    out['p_final'] = 'FIndex'
                elif (len(gen.ifs) == 1 and isinstance(gen.ifs[0], ast.Compare)
                      and isinstance(gen.ifs[0].ops[0], ast.In)):
                    out['p_final'] = 'FFilter'
    modes = []
    for rel, cls in (('runners/serial.py', 'SerialRunner'), ('runners/process.py', 'ProcessRunner')):
        fn = _find(_src(rel), cls, 'remove_results')
        mode = 'MUnknownMode'
        if fn is not None:
            loops = [n for n in fn.body if isinstance(n, ast.For)]
            if len(loops) == 1:
                ifs = [n for n in loops[0].body if isinstance(n, ast.If)]
                dels = [n for n in loops[0].body if isinstance(n, ast.Delete)]
                if (len(ifs) == 1 and len(dels) == 1 and isinstance(ifs[0].test, ast.Compare)
                        and isinstance(ifs[0].test.ops[0], ast.NotIn) and 'results_map' in _dump(ifs[0].test)
                        and len(ifs[0].body) == 1 and not ifs[0].orelse):
                    b = ifs[0].body[0]
                    if isinstance(b, ast.Continue):
                        mode = 'MContinue'
                    elif isinstance(b, ast.Return) and b.value is None:
                        mode = 'MReturn'
        modes.append(mode)
    out['p_missing'] = modes[0] if modes[0] == modes[1] else 'MUnknownMode'
    return out


def values_params():
    out = dict(deser='DUnknown', setstate='SSUnknown')
    ser = _src('serialization.py')
    fn = _find(ser, 'Serializer', 'deserialize_value')
    if fn is not None:
        d = _dump(fn)
        calls_task = 'is_serialized_task' in d and 'deserialize_task' in d
        calls_enum = 'is_serialized_enum' in d and 'deserialize_enum' in d
        rec_list = any(isinstance(n, (ast.ListComp, ast.GeneratorExp)) and 'deserialize_value' in _dump(n) for n in ast.walk(fn))
        rec_dict = any(isinstance(n, ast.DictComp) and 'deserialize_value' in _dump(n.value) for n in ast.walk(fn))
        if calls_task and calls_enum:
            if rec_list and rec_dict:
                out['deser'] = 'DRecursive'
            elif not rec_list and not rec_dict and 'deserialize_value' not in _dump(ast.Module(body=fn.body, type_ignores=[])):
                out['deser'] = 'DShallow'
    tasks = _src('tasks.py')
    fn = _find(tasks, '_task__setstate__')
    if fn is not None:
        d = _dump(fn)
        sets = [n for n in ast.walk(fn) if isinstance(n, ast.Call) and _dump(n.func).endswith("'__setattr__', Load())")
                and len(n.args) == 3 and isinstance(n.args[1], ast.Constant)]
        names = {n.args[1].value for n in sets}
        if {'context', 'result_meta'} <= names and 'orig_post_init' in d:
            out['setstate'] = 'SSReinit'
        elif not names and 'orig_post_init' not in d:
            out['setstate'] = 'SSPlain'
    return out


def render():
    sp = sched_params()
    lines = [
        '(* GENERATED by harness/srcparams.py from the current /repo source — do not edit. *)',
        'Require Import LT.Model.ParamTypes.',
        'Definition sched_params : params :=',
        '  {| p_cmp := %(p_cmp)s; p_dep_guard := %(p_dep_guard)s; p_missing := %(p_missing)s; p_final := %(p_final)s |}.' % sp,
    ]
    vp = values_params()
    lines += ['Definition deser_mode_src : deser_mode := %(deser)s.' % vp,
              'Definition setstate_mode_src : setstate_mode := %(setstate)s.' % vp]
    for extra in EXTRA_RENDERERS:
        lines += extra()
    return '\n'.join(lines) + '\n'


EXTRA_RENDERERS = []


def regenerate():
    """Write coq/Gen/SrcParams.v if its content changed.  Returns True when it changed."""
    text = render()
    path = os.path.join(COQ, 'Gen', 'SrcParams.v')
    old = None
    if os.path.exists(path):
        old = open(path).read()
    if old != text:
        os.makedirs(os.path.dirname(path), exist_ok=True)
        with open(path, 'w') as f:
            f.write(text)
        return True
    return False


if __name__ == '__main__':
    print(render())
    regenerate()
