"""Fail-closed extraction of the constants/operators the proofs hinge on, from the *current* /repo source.
Regenerates coq/Gen/SrcParams.v.  Anything not recognised becomes an Unknown constructor, under which the
dependent lemmas do not go through (a broken obligation, never a silent pass)."""
import ast
import os

from common import COQ, REPO


def _src(rel):
    with open(os.path.join(REPO, 'labtech', rel)) as f:
        return ast.parse(f.read())


def _find(tree, *path):
    """Find nested ClassDef/FunctionDef by name path."""
    node = tree
    for name in path:
        found = None
        for n in ast.walk(node) if node is tree else ast.iter_child_nodes(node):
            if isinstance(n, (ast.ClassDef, ast.FunctionDef)) and n.name == name:
                found = n
                break
        if found is None:
            return None
        node = found
    return node


def _dump(n):
    return ast.dump(n, annotate_fields=False)


# ------------------------------------------------------------------ lab.py

def sched_params():
    out = dict(p_cmp='CmpUnknown', p_dep_guard='false', p_missing='MUnknownMode', p_final='FUnknownFinal', mark='MarkUnknown', failtest='FailTestUnknown')
    lab = _src('lab.py')
    # which outcomes of runner.wait() does the coordinator book as a failed task?
    crun = _find(lab, 'TaskCoordinator', 'run')
    if crun is not None:
        tests = [n for n in ast.walk(crun) if isinstance(n, ast.If) and isinstance(n.test, ast.Call) and ast.unparse(n.test.func) == 'isinstance'
                 and len(n.test.args) == 2 and ast.unparse(n.test.args[0]) == 'res' and 'handle_failure' in ast.unparse(ast.Module(body=n.body, type_ignores=[]))]
        if len(tests) == 1:
            out['failtest'] = {'BaseException': 'FailBaseException', 'Exception': 'FailException'}.get(ast.unparse(tests[0].test.args[1]), 'FailTestUnknown')
    # complete_task hands the result_meta to every instance, and the setter assigns it, unconditionally?
    ct = _find(lab, 'TaskState', 'complete_task')
    setter = [n for n in _src('tasks.py').body if isinstance(n, ast.FunctionDef) and n.name == '_task_set_result_meta']
    if ct is not None and len(setter) == 1:
        body = [n for n in setter[0].body if not (isinstance(n, ast.Expr) and isinstance(n.value, ast.Constant))]
        plain_setter = len(body) == 1 and ast.unparse(body[0]) == "object.__setattr__(self, 'result_meta', result_meta)"
        guarded_setter = any(isinstance(n, ast.If) and 'result_meta' in ast.unparse(n.test) for n in ast.walk(setter[0]))
        loops = [n for n in ast.walk(ct) if isinstance(n, ast.For) and '_set_result_meta' in ast.unparse(n)]
        if len(loops) == 1:
            plain_loop = len(loops[0].body) == 1 and isinstance(loops[0].body[0], ast.Expr) and ast.unparse(loops[0].body[0]).endswith('._set_result_meta(result_meta)') \
                and not isinstance(loops[0].iter, (ast.ListComp, ast.GeneratorExp))
            guarded_loop = any(isinstance(n, (ast.If, ast.IfExp, ast.comprehension)) and 'result_meta' in ast.unparse(n) and 'None' in ast.unparse(n)
                               for n in ast.walk(loops[0]))
            if plain_setter and plain_loop:
                out['mark'] = 'MarkAlways'
            elif guarded_setter or guarded_loop:
                out['mark'] = 'MarkIfUnset'
    gr = _find(lab, 'TaskState', 'get_ready_tasks')
    if gr is not None:
        for n in ast.walk(gr):
            if isinstance(n, ast.If) and len(n.body) == 1 and isinstance(n.body[0], ast.Continue):
                t = n.test
                # (task._lt.max_parallel is not None) and (task_type_counts[type(task)] <op> task._lt.max_parallel)
                if (isinstance(t, ast.BoolOp) and isinstance(t.op, ast.And) and len(t.values) == 2
                        and isinstance(t.values[1], ast.Compare) and len(t.values[1].ops) == 1
                        and isinstance(t.values[0], ast.Compare) and isinstance(t.values[0].ops[0], ast.IsNot)
                        and 'max_parallel' in _dump(t.values[0])
                        and 'task_type_counts' in _dump(t.values[1].left)
                        and 'max_parallel' in _dump(t.values[1].comparators[0])):
                    op = t.values[1].ops[0]
                    out['p_cmp'] = {'GtE': 'CmpGe', 'Gt': 'CmpGt'}.get(type(op).__name__, 'CmpUnknown')
                # len(self.task_to_pending_dependencies.get(task, set())) > 0
                if (isinstance(t, ast.Compare) and len(t.ops) == 1 and isinstance(t.ops[0], ast.Gt)
                        and isinstance(t.comparators[0], ast.Constant) and t.comparators[0].value == 0
                        and 'task_to_pending_dependencies' in _dump(t.left) and 'len' in _dump(t.left)):
                    out['p_dep_guard'] = 'true'
    rt = _find(lab, 'Lab', 'run_tasks')
    if rt is not None:
        rets = [n for n in ast.walk(rt) if isinstance(n, ast.Return)]
        if len(rets) == 1 and isinstance(rets[0].value, ast.DictComp):
            dc = rets[0].value
            gen = dc.generators[0]
            if len(dc.generators) == 1 and isinstance(dc.value, ast.Subscript) and _dump(gen.iter) == _dump(ast.parse('tasks').body[0].value):
                if not gen.ifs:
                    out['p_final'] = 'FIndex'
                elif (len(gen.ifs) == 1 and isinstance(gen.ifs[0], ast.Compare)
                      and isinstance(gen.ifs[0].ops[0], ast.In)):
                    out['p_final'] = 'FFilter'
    modes = []
    for rel, cls in (('runners/serial.py', 'SerialRunner'), ('runners/process.py', 'ProcessRunner')):
        fn = _find(_src(rel), cls, 'remove_results')
        mode = 'MUnknownMode'
        if fn is not None:
            loops = [n for n in fn.body if isinstance(n, ast.For)]
            if len(loops) == 1:
                ifs = [n for n in loops[0].body if isinstance(n, ast.If)]
                dels = [n for n in loops[0].body if isinstance(n, ast.Delete)]
                if (len(ifs) == 1 and len(dels) == 1 and isinstance(ifs[0].test, ast.Compare)
                        and isinstance(ifs[0].test.ops[0], ast.NotIn) and 'results_map' in _dump(ifs[0].test)
                        and len(ifs[0].body) == 1 and not ifs[0].orelse):
                    b = ifs[0].body[0]
                    if isinstance(b, ast.Continue):
                        mode = 'MContinue'
                    elif isinstance(b, ast.Return) and b.value is None:
                        mode = 'MReturn'
        modes.append(mode)
    out['p_missing'] = modes[0] if modes[0] == modes[1] else 'MUnknownMode'
    return out


def values_params():
    out = dict(deser='DUnknown', setstate='SSUnknown', sermode='SerUnknown')
    ser = _src('serialization.py')
    fn = _find(ser, 'Serializer', 'deserialize_value')
    if fn is not None:
        d = _dump(fn)
        calls_task = 'is_serialized_task' in d and 'deserialize_task' in d
        calls_enum = 'is_serialized_enum' in d and 'deserialize_enum' in d
        rec_list = any(isinstance(n, (ast.ListComp, ast.GeneratorExp)) and 'deserialize_value' in _dump(n) for n in ast.walk(fn))
        rec_dict = any(isinstance(n, ast.DictComp) and 'deserialize_value' in _dump(n.value) for n in ast.walk(fn))
        if calls_task and calls_enum:
            if rec_list and rec_dict:
                out['deser'] = 'DRecursive'
            elif (not rec_list and not rec_dict
                  and {n.func.attr for n in ast.walk(fn) if isinstance(n, ast.Call) and isinstance(n.func, ast.Attribute)}
                  <= {'is_serialized_task', 'deserialize_task', 'is_serialized_enum', 'deserialize_enum'}):
                out['deser'] = 'DShallow'
    # serialize_value: a dict with a truthy marker key is wrapped ({'_is_dict': True, 'items': ...}) / written as it is
    out['sermode'] = 'SerUnknown'
    sv = _find(ser, 'Serializer', 'serialize_value')
    dv = _find(ser, 'Serializer', 'deserialize_value')
    if sv is not None and dv is not None:
        src_sv, src_dv = ast.unparse(sv), ast.unparse(dv)
        wraps = "{'_is_dict': True, 'items': serialized_dict}" in src_sv and 'MARKER_KEYS' in src_sv
        reads = 'is_serialized_dict' in src_dv and "['items']" in src_dv
        if wraps and reads:
            out['sermode'] = 'SerWrapsDicts'
        elif '_is_dict' not in src_sv and '_is_dict' not in src_dv and 'is_serialized_dict' not in src_dv:
            out['sermode'] = 'SerPlainDicts'
    tasks = _src('tasks.py')
    gs = _find(tasks, '_task__getstate__')
    out['getstate'] = 'GSUnknown'
    if gs is not None:
        assigns = [n for n in gs.body if isinstance(n, ast.Assign) and ast.unparse(n.targets[0]) == 'state']
        if len(assigns) == 1 and isinstance(assigns[0].value, ast.Dict) and isinstance(gs.body[-1], ast.Return) and ast.unparse(gs.body[-1].value) == 'state' and len(gs.body) == 2:
            dct = assigns[0].value
            keys = [k.value if isinstance(k, ast.Constant) else None for k in dct.keys]
            spread = [ast.unparse(v) for k, v in zip(dct.keys, dct.values) if k is None]
            if (sorted(k for k in keys if k) == ['_is_task', '_lt', '_results_map', 'cache_key']
                    and spread == ['{f.name: getattr(self, f.name) for f in fields(self)}']):
                out['getstate'] = 'GSWhitelist'
        elif 'vars(self)' in ast.unparse(gs) or '__dict__' in ast.unparse(gs):
            out['getstate'] = 'GSVars'
    # where does _task_post_init compute the cache key relative to the user's post_init?
    out['keymode'] = 'KeyUnknown'
    pi = _find(tasks, '_task_post_init')
    if pi is not None:
        key_stmt = "object.__setattr__(self, 'cache_key', self._lt.cache.cache_key(self))"
        top = [ast.unparse(n) for n in pi.body]
        ifs = [n for n in pi.body if isinstance(n, ast.If) and ast.unparse(n.test) == 'self._lt.orig_post_init is not None']
        if len(ifs) == 1 and isinstance(pi.body[-1], ast.If) and pi.body[-1] is ifs[0]:
            inner = [ast.unparse(n) for n in ifs[0].body]
            calls = [i for i, x in enumerate(inner) if x == 'self._lt.orig_post_init(self)']
            keys_after = [i for i, x in enumerate(inner) if x == key_stmt]
            if len(calls) == 1 and keys_after and min(keys_after) > calls[0] and not ifs[0].orelse:
                out['keymode'] = 'KeyAfterPostInit'        # (a first computation before post_init, if any, is overwritten)
            elif len(calls) == 1 and not keys_after and key_stmt in top:
                out['keymode'] = 'KeyBeforePostInit'
    fn = _find(tasks, '_task__setstate__')
    if fn is not None:
        d = _dump(fn)
        sets = [n for n in ast.walk(fn) if isinstance(n, ast.Call) and _dump(n.func).endswith("'__setattr__', Load())")
                and len(n.args) == 3 and isinstance(n.args[1], ast.Constant)]
        names = {n.args[1].value for n in sets}
        if {'context', 'result_meta'} <= names and 'orig_post_init' in d:
            out['setstate'] = 'SSReinit'
        elif not names and 'orig_post_init' not in d:
            out['setstate'] = 'SSPlain'
    return out


def storage_params():
    out = dict(g_empty='false', g_chars=None, g_key_parent='false', g_file_parent='false', g_delete_validates='false')
    st = _src('storage.py')
    fn = _find(st, 'validate_file_path_key')
    if fn is not None:
        for n in fn.body:
            # if not key: raise StorageError
            if (isinstance(n, ast.If) and isinstance(n.test, ast.UnaryOp) and isinstance(n.test.op, ast.Not)
                    and isinstance(n.test.operand, ast.Name) and n.test.operand.id == 'key'
                    and len(n.body) == 1 and isinstance(n.body[0], ast.Raise)):
                out['g_empty'] = 'true'
            # disallowed_key_chars = [...]
            if (isinstance(n, ast.Assign) and len(n.targets) == 1 and isinstance(n.targets[0], ast.Name)
                    and n.targets[0].id == 'disallowed_key_chars' and isinstance(n.value, ast.List)):
                chars = []
                ok = True
                for e in n.value.elts:
                    if isinstance(e, ast.Constant) and isinstance(e.value, str) and len(e.value) == 1:
                        chars.append(ord(e.value))
                    elif _dump(e) == _dump(ast.parse('os.path.sep').body[0].value):
                        chars.append(ord('/'))
                    elif _dump(e) == _dump(ast.parse('os.path.altsep').body[0].value):
                        pass        # None on POSIX
                    else:
                        ok = False
                if ok:
                    out['g_chars'] = chars
            # for char in disallowed_key_chars: if char is not None and char in key: raise
            if isinstance(n, ast.For) and _dump(n.iter) == _dump(ast.parse('disallowed_key_chars').body[0].value):
                ifs = [m for m in n.body if isinstance(m, ast.If)]
                if not (len(ifs) == 1 and len(ifs[0].body) == 1 and isinstance(ifs[0].body[0], ast.Raise)
                        and 'In()' in _dump(ifs[0].test) and "'key'" in _dump(ifs[0].test)):
                    out['g_chars'] = None
            # if key_path.parent != storage_path.resolve(): raise
            if (isinstance(n, ast.If) and isinstance(n.test, ast.Compare) and isinstance(n.test.ops[0], ast.NotEq)
                    and _dump(n.test.left) == _dump(ast.parse('key_path.parent').body[0].value)
                    and _dump(n.test.comparators[0]) == _dump(ast.parse('storage_path.resolve()').body[0].value)
                    and len(n.body) == 1 and isinstance(n.body[0], ast.Raise)):
                out['g_key_parent'] = 'true'
        # key_path must be (storage_path / key).resolve()
        if _dump(ast.parse('key_path = (storage_path / key).resolve()').body[0]) not in [_dump(n) for n in fn.body]:
            out['g_key_parent'] = 'false'
    ktp = _find(st, 'LocalStorage', '_key_to_path')
    validates = (ktp is not None and len(ktp.body) == 2
                 and _dump(ktp.body[0]) == _dump(ast.parse('validate_file_path_key(key, storage_path=self._storage_path)').body[0])
                 and _dump(ktp.body[1]) == _dump(ast.parse('return (self._storage_path / key).resolve()').body[0]))
    if not validates:
        out['g_key_parent'] = 'false'
    fh = _find(st, 'LocalStorage', 'file_handle')
    if fh is not None:
        body = [_dump(n) for n in fh.body]
        has_ktp = _dump(ast.parse('key_path = self._key_to_path(key)').body[0]) in body
        has_res = _dump(ast.parse('file_path = (key_path / filename).resolve()').body[0]) in body
        guard = any(isinstance(n, ast.If) and isinstance(n.test, ast.Compare) and isinstance(n.test.ops[0], ast.NotEq)
                    and _dump(n.test.left) == _dump(ast.parse('file_path.parent').body[0].value)
                    and _dump(n.test.comparators[0]) == _dump(ast.parse('key_path').body[0].value)
                    and len(n.body) == 1 and isinstance(n.body[0], ast.Raise) for n in fh.body)
        opens = _dump(fh.body[-1]) == _dump(ast.parse('return file_path.open(mode=mode)').body[0])
        if has_ktp and has_res and guard and opens:
            out['g_file_parent'] = 'true'
    de = _find(st, 'LocalStorage', 'delete')
    if de is not None and _dump(ast.parse('key_path = self._key_to_path(key)').body[0]) in [_dump(n) for n in de.body]:
        rm = [n for n in ast.walk(de) if isinstance(n, ast.Call) and 'rmtree' in _dump(n.func)]
        if all(_dump(c.args[0]) == _dump(ast.parse('key_path').body[0].value) for c in rm):
            out['g_delete_validates'] = 'true'
    return out


def is_cached_mode():
    fn = _find(_src('lab.py'), 'Lab', 'is_cached')
    if fn is None:
        return 'IsCachedUnknown'
    body = [n for n in fn.body if not (isinstance(n, ast.Expr) and isinstance(n.value, ast.Constant))]
    body = [n for n in body if not (isinstance(n, ast.Expr) and ast.unparse(n).startswith('check_tasks('))]
    if len(body) == 1 and isinstance(body[0], ast.Return):
        r = ast.unparse(body[0].value)
        if r == 'task._lt.cache.is_cached(self._storage, task)':
            return 'IsCachedAsksCache'
        if r == 'self._storage.exists(task.cache_key)':
            return 'IsCachedAsksStorage'
    return 'IsCachedUnknown'


def cache_params():
    out = dict(order='UnknownOrder', cleanup='UnknownCleanup')
    ca = _src('cache.py')
    fn = _find(ca, 'BaseCache', 'save')
    if fn is None:
        return out
    # flatten: statements of the body, descending into one optional try: block
    body = list(fn.body)
    tries = [n for n in body if isinstance(n, ast.Try)]
    stmts = []
    for n in body:
        stmts += n.body if isinstance(n, ast.Try) else [n]
    pos_meta = pos_data = None
    for i, n in enumerate(stmts):
        d = _dump(n)
        if isinstance(n, ast.With) and 'json' in d and 'dump' in d and 'metadata' in d:
            pos_meta = i
        if isinstance(n, ast.Expr) and isinstance(n.value, ast.Call) and _dump(n.value.func).endswith("'save_result', Load())"):
            pos_data = i
    if pos_meta is not None and pos_data is not None:
        out['order'] = 'MetaThenData' if pos_meta < pos_data else 'DataThenMeta'
    if not tries:
        out['cleanup'] = 'NoCleanup'
    elif len(tries) == 1 and len(tries[0].handlers) == 1:
        h = tries[0].handlers[0]
        catches_all = h.type is None or (isinstance(h.type, ast.Name) and h.type.id == 'BaseException')
        deletes = any(isinstance(m, ast.Call) and _dump(m.func).endswith("'delete', Load())") and 'cache_key' in _dump(m)
                      for m in ast.walk(h))
        reraises = any(isinstance(m, ast.Raise) and m.exc is None for m in h.body)
        covers = all(isinstance(n, ast.Try) or not isinstance(n, (ast.With, ast.Expr)) or 'file_handle' not in _dump(n) for n in body)
        file_handles_inside = 'file_handle' in _dump(ast.Module(body=tries[0].body, type_ignores=[]))
        if catches_all and deletes and reraises and covers and file_handles_inside:
            out['cleanup'] = 'CleanupDelete'
    return out


def exec_params():
    out = dict(start='StartUnknown', ctor='CtorUnknown', wait='WaitUnknown', snap='SnapUnknown', launch='LaunchUnknown',
               view='ViewUnknown', scope='ExecScopeUnknown')
    pr = _src('runners/process.py')
    # the dict of in-memory results: registered for forked workers when the fork runner is built, and never re-bound afterwards?
    fi = _find(pr, 'ForkProcessRunner', '__init__')
    registered = fi is not None and any(
        isinstance(n, ast.Assign) and '_RUNNER_FORK_MEMORY[' in ast.unparse(n.targets[0]) and 'results_map=self.results_map' in ast.unparse(n.value)
        for n in ast.walk(fi))
    if registered:
        rebinds = []
        for cls in [n for n in pr.body if isinstance(n, ast.ClassDef)]:
            for fn_ in [n for n in cls.body if isinstance(n, ast.FunctionDef) and n.name != '__init__']:
                for n in ast.walk(fn_):
                    targets = n.targets if isinstance(n, ast.Assign) else ([n.target] if isinstance(n, (ast.AnnAssign, ast.AugAssign)) else [])
                    rebinds += [t for t in targets if ast.unparse(t) == 'self.results_map']
        out['view'] = 'ViewRebinds' if rebinds else 'ViewInPlace'
    # every process runner builds its own executor, and the executor class keeps no mutable container at class level
    ri = _find(pr, 'ProcessRunner', '__init__')
    ex_cls = [n for n in pr.body if isinstance(n, ast.ClassDef) and n.name == 'ProcessExecutor']
    if ri is not None and ex_cls:
        built = [n for n in ast.walk(ri) if isinstance(n, ast.Assign) and isinstance(n.value, ast.Call) and ast.unparse(n.value.func) == 'ProcessExecutor'
                 and ast.unparse(n.targets[0]).startswith('self.')]
        class_level = [n for n in ex_cls[0].body if isinstance(n, (ast.Assign, ast.AnnAssign)) and n.value is not None
                       and isinstance(n.value, (ast.Dict, ast.List, ast.Set, ast.Call, ast.DictComp, ast.ListComp, ast.SetComp))]
        if class_level:
            out['scope'] = 'ExecShared'
        elif len(built) == 1:
            out['scope'] = 'ExecPerRunner'
    w = _find(pr, 'ProcessExecutor', 'wait')
    if w is not None:
        stm = [ast.unparse(n) for n in w.body if not (isinstance(n, ast.Expr) and isinstance(n.value, ast.Constant))]
        if stm == ['self._consume_result_queue(timeout_seconds=timeout_seconds)', 'self._start_processes()', 'return split_done_futures(futures)']:
            out['wait'] = 'WaitAlwaysStarts'
    # where is the liveness of the workers sampled, relative to the drain of the result queue (the join of the consumer thread)?
    out['snap'] = 'SnapUnknown'
    cq = _find(pr, 'ProcessExecutor', '_consume_result_queue')
    if cq is not None:
        alive = [i for i, n in enumerate(cq.body) if isinstance(n, ast.Assign) and 'is_alive' in ast.unparse(n)]
        joins = [i for i, n in enumerate(cq.body) if isinstance(n, ast.Expr) and ast.unparse(n).endswith('.join()')]
        nested_alive = [n for i, st in enumerate(cq.body) if i not in alive for n in ast.walk(st) if isinstance(n, ast.Attribute) and n.attr == 'is_alive']
        if len(alive) == 1 and len(joins) == 1 and not nested_alive:
            out['snap'] = 'SnapBefore' if alive[0] < joins[0] else 'SnapAfter'
    # launching one future: registered as running before it is removed from the pending table?
    out['launch'] = 'LaunchUnknown'
    sp_fn = _find(pr, 'ProcessExecutor', '_start_processes')
    if sp_fn is not None:
        loops = [n for n in sp_fn.body if isinstance(n, ast.For)]
        if len(loops) == 1:
            body = loops[0].body
            reg = [i for i, n in enumerate(body) if isinstance(n, ast.Assign) and isinstance(n.targets[0], ast.Subscript) and 'running' in ast.unparse(n.targets[0].value)]
            rem = [i for i, n in enumerate(body) if (isinstance(n, ast.Delete) and 'pending' in ast.unparse(n)) or ('pending' in ast.unparse(n) and '.pop(' in ast.unparse(n))]
            sta = [i for i, n in enumerate(body) if isinstance(n, ast.Expr) and ast.unparse(n).endswith('.start()')]
            if len(reg) == 1 and len(rem) == 1 and len(sta) == 1 and max(reg[0], rem[0]) < sta[0]:
                out['launch'] = 'RegisterThenRemove' if reg[0] < rem[0] else 'RemoveThenRegister'
    fn = _find(pr, 'ProcessExecutor', '_start_processes')
    if fn is None:
        return out
    want = _dump(ast.parse('start_count = max(0, self.max_workers - len(self._running_id_to_future_and_process))').body[0])
    sl = _dump(ast.parse('futures_to_start = list(self._pending_future_to_thunk.keys())[:start_count]').body[0])
    body = [_dump(n) for n in fn.body]
    loops = [n for n in fn.body if isinstance(n, ast.For)]
    if want in body and sl in body and len(loops) == 1 and _dump(loops[0].iter) == _dump(ast.parse('futures_to_start').body[0].value):
        lb = _dump(ast.Module(body=loops[0].body, type_ignores=[]))
        if 'process.start()' in ast.unparse(loops[0]) and '_running_id_to_future_and_process' in lb and 'del self._pending_future_to_thunk[future]' in ast.unparse(loops[0]):
            out['start'] = 'StartUpToMax'
    for n in ast.walk(fn):
        if isinstance(n, ast.Assign) and isinstance(n.value, ast.Call) and ast.unparse(n.targets[0]) == 'process':
            f = ast.unparse(n.value.func)
            out['ctor'] = {'self.mp_context.Process': 'CtorMpContext', 'multiprocessing.Process': 'CtorModuleDefault'}.get(f, 'CtorUnknown')
    return out


def fork_close():
    """ForkProcessRunner.close removes the runner's own entry of _RUNNER_FORK_MEMORY (and nothing else)."""
    fn = _find(_src('runners/process.py'), 'ForkProcessRunner', 'close')
    if fn is None:
        return 'CloseUnknown'
    src = ast.unparse(fn)
    touching = [n for n in ast.walk(fn) if isinstance(n, (ast.Delete, ast.Expr, ast.Assign)) and '_RUNNER_FORK_MEMORY' in ast.unparse(n)]
    if len(touching) == 1:
        t = ast.unparse(touching[0])
        if t in ('del _RUNNER_FORK_MEMORY[self.uuid]', '_RUNNER_FORK_MEMORY.pop(self.uuid, None)', '_RUNNER_FORK_MEMORY.pop(self.uuid)'):
            return 'CloseOwn'
        if t in ('_RUNNER_FORK_MEMORY.clear()', '_RUNNER_FORK_MEMORY = {}'):
            return 'CloseAll'
    return 'CloseUnknown'


def ctx_binding():
    """TaskCoordinator.run builds the runner from self.lab.context, read when the call is made."""
    run = _find(_src('lab.py'), 'TaskCoordinator', 'run')
    if run is None:
        return 'CtxBindUnknown'
    calls = [n for n in ast.walk(run) if isinstance(n, ast.Call) and ast.unparse(n.func).endswith('.build_runner')]
    if len(calls) == 1:
        kw = {k.arg: ast.unparse(k.value) for k in calls[0].keywords}
        if kw.get('context') == 'self.lab.context' and ast.unparse(calls[0].func) == 'self.lab.runner_backend.build_runner':
            return 'CtxAtRun'
    return 'CtxBindUnknown'


def ctx_params():
    out = dict(serial='false', fork='false', spawn='false')
    se = _find(_src('runners/serial.py'), 'SerialRunner', 'wait')
    if se is not None and 'filtered_context=task.filter_context(self.context)' in ast.unparse(se):
        out['serial'] = 'true'
    pr = _src('runners/process.py')
    fk = _find(pr, 'ForkProcessRunner', '_fork_subprocess_func')
    if fk is not None and 'filtered_context=task.filter_context(runner_memory.context)' in ast.unparse(fk):
        out['fork'] = 'true'
    sp = _find(pr, 'SpawnProcessRunner', '_submit_task')
    if sp is not None:
        src = ast.unparse(sp)
        if 'filtered_context = task.filter_context(self.context)' in src and 'filtered_context=filtered_context' in src:
            out['spawn'] = 'true'
    sub = _find(pr, 'ProcessRunner', '_subprocess_func')
    if sub is None or 'filtered_context=filtered_context' not in ast.unparse(sub):
        out['fork'] = out['spawn'] = 'false'
    base = _find(_src('runners/base.py'), 'run_or_load_task')
    if base is None or 'task.set_context(filtered_context)' not in ast.unparse(base):
        out = dict(serial='false', fork='false', spawn='false')
    return out


def log_params():
    out = dict(flush='FlushUnknown', fb='false', ca='false', lq='LogQueueUnknown')
    # the queue the workers' log records travel on: a Manager queue (synchronous put) or a plain multiprocessing queue?
    ri = _find(_src('runners/process.py'), 'ProcessRunner', '__init__')
    if ri is not None:
        asg = [n for n in ast.walk(ri) if isinstance(n, ast.Assign) and ast.unparse(n.targets[0]) == 'self.log_queue']
        handed = 'log_queue=self.log_queue' in ast.unparse(_src('runners/process.py'))
        if len(asg) == 1 and handed:
            v = ast.unparse(asg[0].value)
            if v.startswith('multiprocessing.Manager().Queue('):
                out['lq'] = 'LogQueueSync'
            elif v.startswith(('mp_context.Queue(', 'multiprocessing.Queue(', 'self.mp_context.Queue(', 'mp_context.SimpleQueue(', 'multiprocessing.SimpleQueue(')):
                out['lq'] = 'LogQueueAsync'
    fl = _find(_src('utils.py'), 'LoggerFileProxy', 'flush')
    if fl is not None and len(fl.body) == 1 and isinstance(fl.body[0], ast.If) and ast.unparse(fl.body[0].test) == 'self.bufs':
        body = fl.body[0].body
        calls = [n for n in body if isinstance(n, ast.Expr) and 'self.logger_func' in ast.unparse(n)]
        clears = [n for n in body if isinstance(n, ast.Assign) and ast.unparse(n.targets[0]) == 'self.bufs' and ast.unparse(n.value) == '[]']
        clears += [n for n in body if isinstance(n, ast.Expr) and ast.unparse(n) == 'self.bufs.clear()']
        if len(calls) == 1 and len(body) == 1:
            out['flush'] = 'FlushKeeps'
        elif len(calls) == 1 and len(clears) == 1 and len(body) == 2 and body.index(calls[0]) < body.index(clears[0]):
            out['flush'] = 'FlushClears'
    pr = _src('runners/process.py')
    sub = _find(pr, 'ProcessRunner', '_subprocess_func')
    if sub is not None:
        tries = [n for n in sub.body if isinstance(n, ast.Try)]
        if len(tries) == 1 and tries[0].finalbody:
            fin = [ast.unparse(n) for n in tries[0].finalbody]
            if 'sys.stdout.flush()' in fin and 'sys.stderr.flush()' in fin:
                out['fb'] = 'true'
    w = _find(pr, 'ProcessRunner', 'wait')
    if w is not None:
        stm = [ast.unparse(n) for n in w.body]
        idx_wait = [i for i, x in enumerate(stm) if 'self.executor.wait(' in x]
        idx_cons = [i for i, x in enumerate(stm) if x == 'self._consume_log_queue()']
        if len(idx_wait) == 1 and any(i > idx_wait[0] for i in idx_cons) and any(isinstance(n, ast.For) for n in w.body[max(idx_cons):]):
            out['ca'] = 'true'
    return out


def intr_params():
    out = dict(gen='GenUnknown', drain='false', stop='false', bound='false', stopcancel='false')
    pr = _src('runners/process.py')
    w = _find(pr, 'ProcessRunner', 'wait')
    if w is not None:
        loops = [n for n in w.body if isinstance(n, ast.For) and ast.unparse(n.iter) == 'done']
        if len(loops) == 1:
            first = ast.unparse(loops[0].body[0])
            src = ast.unparse(loops[0])
            tries = [n for n in loops[0].body if isinstance(n, ast.Try)]
            ki_through = (len(tries) == 1 and len(tries[0].handlers) >= 2
                          and ast.unparse(tries[0].handlers[0].type or ast.Name('')) == 'KeyboardInterrupt'
                          and len(tries[0].handlers[0].body) == 1 and isinstance(tries[0].handlers[0].body[0], ast.Raise)
                          and tries[0].handlers[0].body[0].exc is None)
            after = [ast.unparse(n) for n in w.body[w.body.index(loops[0]) + 1:]]
            if first == 'task = self.future_to_task.pop(future)' and ki_through and not any('future_to_task' in a for a in after):
                out['gen'] = 'PopFirst'
            elif first == 'task = self.future_to_task[future]' and any(a.startswith('self.future_to_task = {') for a in after):
                out['gen'] = 'PruneAfter'
    run = _find(_src('lab.py'), 'TaskCoordinator', 'run')
    if run is not None:
        def swallows(stmt):
            return (isinstance(stmt, ast.Try) and len(stmt.body) == 1 and ast.unparse(stmt.body[0]) == 'process_completed_tasks()'
                    and len(stmt.handlers) == 1 and ast.unparse(stmt.handlers[0].type or ast.Name('')) == 'LabError'
                    and all(isinstance(b, ast.Pass) for b in stmt.handlers[0].body))
        for n in ast.walk(run):
            if isinstance(n, ast.While) and ast.unparse(n.test) == 'runner.pending_task_count() > 0':
                if len(n.body) == 1 and swallows(n.body[0]):
                    out['drain'] = 'true'
            if isinstance(n, ast.ExceptHandler) and ast.unparse(n.type or ast.Name('')) == 'KeyboardInterrupt' and n.name is None:
                body = [b for b in n.body]
                names = [ast.unparse(b) for b in body]
                if 'runner.stop()' in names and any(swallows(b) for b in body) and isinstance(body[-1], ast.Raise):
                    out['stop'] = 'true'
                if 'runner.stop()' in names and 'runner.cancel()' in names and names.index('runner.cancel()') < names.index('runner.stop()'):
                    out['stopcancel'] = 'true'
    rl = _find(_src('runners/base.py'), 'run_or_load_task')
    if rl is not None:
        tries = [i for i, n in enumerate(rl.body) if isinstance(n, ast.Try)]
        if len(tries) == 1:
            before = [ast.unparse(n) for n in rl.body[:tries[0]]]
            fin = ast.unparse(ast.Module(body=rl.body[tries[0]].finalbody, type_ignores=[]))
            used = [nm for nm in ('current_process', 'orig_process_name') if nm in fin]
            if all(any(b.startswith(nm + ' =') for b in before) for nm in used):
                out['bound'] = 'true'
    return out


INFERRED = []       # parameters decided by a behavioural probe (srcprobe.py): shape not recognised, or probe and shape disagree
PROBED = {}         # the probes' answers of the last run (None: no definite answer)


def run_probes():
    """harness/srcprobe.py in its own interpreter and session, killed after 120 s: {parameter: answer or None}."""
    import json
    import signal
    import subprocess
    import sys
    here = os.path.dirname(os.path.abspath(__file__))
    env = dict(os.environ, PYTHONPATH=REPO + os.pathsep + here, PYTHONHASHSEED='0')
    import tempfile
    fd, res = tempfile.mkstemp(prefix='lvprobes', suffix='.json')
    os.close(fd)
    p = subprocess.Popen([sys.executable, os.path.join(here, 'srcprobe.py'), res], env=env, stdout=subprocess.DEVNULL,
                         stderr=subprocess.DEVNULL, stdin=subprocess.DEVNULL, start_new_session=True, cwd=here)
    try:
        p.wait(timeout=120)
    except subprocess.TimeoutExpired:
        pass
    finally:
        try:
            os.killpg(p.pid, signal.SIGKILL)        # also the manager processes the probed executors started
        except OSError:
            pass
    try:
        with open(res) as f:
            return json.load(f)
    except (OSError, ValueError):
        pass
    finally:
        try:
            os.unlink(res)
        except OSError:
            pass
    return {}


def _settle(out, key, unknown, probed, pkey=None):
    """The probe's definite answer where it has one (recorded when it is not what the ast extraction said); the extracted
    value otherwise."""
    val = probed.get(pkey or key)
    if val is None or val == unknown:
        return
    if val != out[key]:
        INFERRED.append(key if out[key] == unknown else f'{key} (shape read as {out[key]}, behaves as {val})')
        out[key] = val


def with_probes():
    del INFERRED[:]
    probed = run_probes()
    PROBED.clear()
    PROBED.update(probed)
    sp = sched_params()
    _settle(sp, 'p_cmp', 'CmpUnknown', probed)
    _settle(sp, 'p_dep_guard', 'false', probed)
    _settle(sp, 'p_missing', 'MUnknownMode', probed)
    _settle(sp, 'p_final', 'FUnknownFinal', probed)
    _settle(sp, 'mark', 'MarkUnknown', probed)
    _settle(sp, 'failtest', 'FailTestUnknown', probed)
    ep = exec_params()
    _settle(ep, 'start', 'StartUnknown', probed)
    _settle(ep, 'ctor', 'CtorUnknown', probed)
    _settle(ep, 'wait', 'WaitUnknown', probed)
    _settle(ep, 'snap', 'SnapUnknown', probed)
    _settle(ep, 'launch', 'LaunchUnknown', probed)
    _settle(ep, 'view', 'ViewUnknown', probed)
    _settle(ep, 'scope', 'ExecScopeUnknown', probed)
    sg = storage_params()
    _settle(sg, 'g_chars', None, probed)
    for k in ('g_empty', 'g_key_parent', 'g_file_parent', 'g_delete_validates'):
        _settle(sg, k, 'false', probed)
    vp = values_params()
    for k, unk in (('deser', 'DUnknown'), ('setstate', 'SSUnknown'), ('getstate', 'GSUnknown'), ('keymode', 'KeyUnknown'), ('sermode', 'SerUnknown')):
        _settle(vp, k, unk, probed)
    ipar = intr_params()
    _settle(ipar, 'gen', 'GenUnknown', probed)
    for k in ('bound', 'drain', 'stop', 'stopcancel'):
        _settle(ipar, k, 'false', probed)
    lp = log_params()
    _settle(lp, 'flush', 'FlushUnknown', probed)
    _settle(lp, 'fb', 'false', probed)
    _settle(lp, 'ca', 'false', probed)
    _settle(lp, 'lq', 'LogQueueUnknown', probed)
    xp = ctx_params()
    for k in ('serial', 'fork', 'spawn'):
        _settle(xp, k, 'false', probed)
    xp['binding'] = ctx_binding()
    xp['close'] = fork_close()
    _settle(xp, 'close', 'CloseUnknown', probed)
    _settle(xp, 'binding', 'CtxBindUnknown', probed)
    cp = cache_params()
    cp['iscached'] = is_cached_mode()
    _settle(cp, 'iscached', 'IsCachedUnknown', probed)
    _settle(cp, 'order', 'UnknownOrder', probed)
    _settle(cp, 'cleanup', 'UnknownCleanup', probed)
    return sp, ep, sg, vp, ipar, lp, xp, cp


def render():
    sp, ep, sg, vp, ipar, lp, xp, cp = with_probes()
    lines = [
        '(* GENERATED by harness/srcparams.py from the current /repo source — do not edit. *)',
        'Require Import LT.Model.ParamTypes.',
        'Definition sched_params : params :=',
        '  {| p_cmp := %(p_cmp)s; p_dep_guard := %(p_dep_guard)s; p_missing := %(p_missing)s; p_final := %(p_final)s |}.' % sp,
    ]
    lines += ['Definition mark_mode_src : mark_mode := %(mark)s.' % sp,
              'Definition fail_test_src : fail_test := %(failtest)s.' % sp]
    lines += ['Definition deser_mode_src : deser_mode := %(deser)s.' % vp,
              'Definition setstate_mode_src : setstate_mode := %(setstate)s.' % vp,
              'Definition key_mode_src : key_mode := %(keymode)s.' % vp,
              'Definition getstate_mode_src : getstate_mode := %(getstate)s.' % vp,
              'Definition ser_mode_src : ser_mode := %(sermode)s.' % vp]
    lines += ['Definition gen_mode_src : gen_mode := %(gen)s.' % ipar,
              'Definition drain_swallows_src : bool := %(drain)s.' % ipar,
              'Definition stop_swallows_src : bool := %(stop)s.' % ipar,
              'Definition stop_cancels_src : bool := %(stopcancel)s.' % ipar,
              'Definition finally_names_bound_src : bool := %(bound)s.' % ipar]
    lines += ['Definition flush_mode_src : flush_mode := %(flush)s.' % lp,
              'Definition flush_before_result_src : bool := %(fb)s.' % lp,
              'Definition consume_after_results_src : bool := %(ca)s.' % lp,
              'Definition log_queue_src : log_queue_kind := %(lq)s.' % lp]
    lines += ['Definition ctx_sites_src : ctx_sites := {| cf_serial := %(serial)s; cf_fork := %(fork)s; cf_spawn := %(spawn)s |}.' % xp,
              'Definition ctx_binding_src : ctx_binding := %(binding)s.' % xp,
              'Definition fork_close_src : close_mode := %(close)s.' % xp]
    lines += ['Definition start_policy_src : start_policy := %(start)s.' % ep,
              'Definition proc_ctor_src : proc_ctor := %(ctor)s.' % ep,
              'Definition wait_policy_src : wait_policy := %(wait)s.' % ep,
              'Definition snapshot_src : snap_pos := %(snap)s.' % ep,
              'Definition launch_order_src : launch_order := %(launch)s.' % ep,
              'Definition results_view_src : view_mode := %(view)s.' % ep,
              'Definition exec_scope_src : exec_scope := %(scope)s.' % ep]
    lines += ['Definition save_order_src : save_order := %(order)s.' % cp,
              'Definition save_cleanup_src : save_cleanup := %(cleanup)s.' % cp,
              'Definition is_cached_src : is_cached_mode := %(iscached)s.' % cp]
    chars = sg['g_chars']
    lines += ['From Coq Require Import NArith List.',
              'Definition storage_guards_src : storage_guards :=',
              '  {| g_empty := %s; g_chars := (%s)%%list; g_key_parent := %s; g_file_parent := %s; g_delete_validates := %s |}.' % (
                  sg['g_empty'] if chars is not None else 'false',
                  ('nil' if not chars else ' :: '.join(f'{c}%N' for c in chars) + ' :: nil'),
                  sg['g_key_parent'], sg['g_file_parent'], sg['g_delete_validates'])]
    for extra in EXTRA_RENDERERS:
        lines += extra()
    if INFERRED:
        lines += ['(* inferred by behavioural probe (shape not recognised by the ast extraction): %s *)' % ', '.join(INFERRED)]
    return '\n'.join(lines) + '\n'


EXTRA_RENDERERS = []


def regenerate():
    """Write coq/Gen/SrcParams.v if its content changed.  Returns True when it changed."""
    text = render()
    path = os.path.join(COQ, 'Gen', 'SrcParams.v')
    old = None
    if os.path.exists(path):
        old = open(path).read()
    if old != text:
        os.makedirs(os.path.dirname(path), exist_ok=True)
        with open(path, 'w') as f:
            f.write(text)
        return True
    return False


if __name__ == '__main__':
    print(render())
    regenerate()
