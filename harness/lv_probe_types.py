"""Module-level task types for harness/srcprobe.py (importable by qualified name, as deserialisation and the spawn
backend require)."""
import enum

import labtech


class PColor(enum.Enum):
    RED = 1
    BLUE = 2


@labtech.task
class PLeaf:
    x: int

    def run(self):
        return self.x


@labtech.task
class PBox:
    v: object

    def run(self):
        return 0


@labtech.task
class PRw:
    s: str

    def post_init(self):
        object.__setattr__(self, 's', self.s.lower())

    def run(self):
        return self.s


@labtech.task
class PPost:
    x: int

    def post_init(self):
        object.__setattr__(self, 'derived', self.x * 2)

    def run(self):
        return self.derived


@labtech.task(cache=None)
class PCtx:
    n: int

    def filter_context(self, context):
        # not idempotent: drops the smallest key of whatever it is given
        return {k: context[k] for k in sorted(context)[1:]}

    def run(self):
        return sorted(self.context.items())


@labtech.task(cache=None)
class PPrint:
    n: int

    def run(self):
        print('probe-out-%d' % self.n)
        return self.n


@labtech.task(cache=None)
class PPrintFail:
    n: int

    def run(self):
        print('probe-out-%d' % self.n)
        raise ValueError('probe')


@labtech.task(cache=None)
class PSum:
    dep: object

    def run(self):
        return ('sum', self.dep.result)


@labtech.task(cache=None)
class PCtxAll:
    n: int

    def run(self):
        return sorted(self.context.items())


@labtech.task(cache=None)
class PExit:
    x: int

    def run(self):
        raise SystemExit(self.x)


import labtech.cache  # noqa


class Elsewhere(labtech.cache.PickleCache):
    """A cache class that also finds results somewhere else."""
    found = set()

    def is_cached(self, storage, task):
        return task.cache_key in self.found or super().is_cached(storage, task)


@labtech.task(cache=Elsewhere())
class PElse:
    x: int

    def run(self):
        return self.x
