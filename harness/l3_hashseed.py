"""Run in a fresh interpreter with its own PYTHONHASHSEED (set iteration orders, e.g. which result is released first, depend on
it): generate scheduler cases from the given seed, run them under the in-process runner, and print one JSON line per case with
the Gallina term of the observation and the monitor's verdict."""
import json
import os
import sys

sys.path.insert(0, os.path.dirname(os.path.abspath(__file__)))
import logging  # noqa
logging.getLogger('labtech').setLevel(logging.CRITICAL)

import props_sched as PS  # noqa
import sched_h as S  # noqa
from common import rng_for  # noqa


def main():
    prop, seed, n, out = sys.argv[1], sys.argv[2], int(sys.argv[3]), sys.argv[4]
    spec = PS.PROPS[prop]
    rng = rng_for(seed, prop, 'hashseed', os.environ.get('PYTHONHASHSEED', ''))
    rows = []
    for _ in range(n):
        case = S.gen_case(rng, runner='l1', max_n=8, **spec['gen'])
        obs = S.run_case(case)
        v = spec['monitor'](case, obs)
        rows.append(dict(case=case, term=S.emit_case(case, obs), verdict=list(v) if v else None, outcome=obs['outcome'],
                         events=obs['events'][:80]))
    with open(out, 'w') as f:
        json.dump(rows, f, default=repr)


if __name__ == '__main__':
    main()
