"""Prepare scratch worktrees and self-contained prompts for a round of seeded-change sub-agents.

  python3 harness/seed_prompts.py /tmp/seed3 a,b     worktrees /tmp/seed3/Cxx (detached at /repo HEAD), prompt in out/PROMPT.txt;
                                                     the summaries of seeded/Cxx_a and Cxx_b are quoted as "already proposed".
Each agent sees only the property text and its own worktree (nothing from /verif)."""
import json
import os
import subprocess
import sys

VERIF = os.path.dirname(os.path.dirname(os.path.abspath(__file__)))


MINI = """

VARIANT OF THE TASK FOR THIS ROUND: instead of one elaborate change, produce THREE different SMALL changes — the size of a
typical slip: one to three lines each (a swapped operator or argument, an off-by-one, a wrong variable, a dropped or
duplicated call, a condition negated or weakened, a moved statement, a wrong default, `is` vs `==`, list vs set, early
return, wrong key, shallow instead of deep, etc.). Each must break the property, keep the code importable and keep the whole
existing test suite passing, and each must be in a DIFFERENT function from the other two (different files where possible)
and differ from the previous contributors' changes. Deliver them as {wt}/out/m1/, {wt}/out/m2/, {wt}/out/m3/, each directory
holding its own patch.diff (relative to the CLEAN tree, i.e. each patch applies on its own), demo.py and meta.json as
described above, and verify (i)-(iii) for each of the three separately (apply one patch at a time on the clean tree). If
after a serious attempt you can only find two that pass the test suite, deliver two and say so. Leave the worktree clean
(git checkout -- labtech) at the end."""


HARMLESS = """You are helping to evaluate how a (separately built, hidden) checker reacts to HARMLESS changes of the Python library `labtech` (runs dataclass-defined experiment tasks as a dependency DAG across subprocesses, with per-type parallelism limits and on-disk result caching).

You have your own scratch copy of the library at {wt} (source in {wt}/labtech, tests in {wt}/tests). Work ONLY inside {wt}. Never touch or read /repo or /verif. There is no network. Do not commit anything. Do NOT use `git stash`; to get back to the clean tree use `git -C {wt} checkout -- labtech`.

How to run things so that YOUR copy of the source is used:
  cd {wt} && PYTHONPATH={wt} /venv/bin/python -m pytest -q -p no:cacheprovider tests     (the existing suite, 103 tests, ~15 s)

The property under study (it HOLDS on this tree and must STILL HOLD after your changes):

{pid} - {title}
{statement}

YOUR TASK: produce THREE different behaviour-preserving refactorings of the code that implements this property (files under labtech/ only) — the kind of change a maintainer makes while tidying up: renaming local variables or private helpers, extracting or inlining a small helper function, reordering independent statements, replacing a loop by a comprehension or vice versa, an early return instead of nested ifs, an equivalent condition (`not a or b` vs `b if a else True`), `len(x) == 0` vs `not x`, a different but equivalent container idiom, adding type hints, comments or docstrings, reformatting. Each refactoring should touch between 3 and 25 lines in the functions most relevant to the property (touch the real logic, not only comments), must keep the observable behaviour of the library EXACTLY the same for every input, schedule and fault, and must keep the whole test suite passing. Make the three refactorings touch different functions.

Deliver them as {wt}/out/r1/, {wt}/out/r2/, {wt}/out/r3/, each holding patch.diff (output of `git -C {wt} diff -- labtech` relative to the CLEAN tree, so each patch applies on its own) and meta.json = {{"property": "{pid}", "summary": "<what was refactored and why it is behaviour-preserving>", "files_touched": [...]}}. For each one verify that the full test suite passes with it applied. Leave the worktree clean at the end. Report briefly what you did."""


HARMLESS2 = """

VARIANT FOR THIS ROUND: make the three refactorings LARGER and more structural than a local tidy-up, as long as behaviour is
exactly preserved: e.g. split a long function into two or three private helpers (or merge helpers back), move a method into a
small mixin/base class or a module-level function, rename a private attribute or helper consistently across the files that use
it, replace a data structure by an equivalent one (dict of sets vs. set of pairs, Counter vs. dict, list vs. deque) where no
ordering or identity behaviour changes, turn a chain of ifs into a table lookup, restructure try/except/finally blocks into an
equivalent form (same exceptions caught, same order of side effects), replace a generator by an equivalent explicit loop,
introduce a small dataclass/namedtuple for a tuple that is passed around. Each should touch 15 to 60 lines. Deliver them as
{wt}/out/r4/, {wt}/out/r5/, {wt}/out/r6/ (same contents as described above). The following refactorings were already made by
previous contributors; yours must be different from them:
{prev}"""


HARMLESS3 = """

VARIANT FOR THIS ROUND: make the three changes the kind a maintainer does when "modernising" or mildly optimising code WITHOUT changing
what it does: hoist a repeated lookup into a local variable, avoid recomputing a value inside a loop, replace an index loop by
enumerate/zip, use any()/all()/next() instead of a flag loop, dict.get / setdefault / collections helpers instead of explicit
membership tests, a conditional expression instead of a 4-line if/else, f-strings, pathlib idioms for path handling that resolve
to the very same paths, `with` blocks for resources, functools.partial instead of a lambda (or vice versa), keyword-only
arguments on private helpers, turning a private method that does not use self into a @staticmethod or module function,
lazy logging arguments, narrowing an import, replacing a magic constant by a named module constant, type annotations with
typing aliases. Each should touch 8 to 40 lines of real logic in the functions most relevant to the property, in a different
function each. Be careful that iteration orders, exception types, the order of side effects (files opened, processes started,
log records emitted) and which exceptions are caught stay EXACTLY the same. Deliver them as {wt}/out/r7/, {wt}/out/r8/,
{wt}/out/r9/ (same contents as described above). Already made by previous contributors (yours must differ):
{prev}"""


def main_harmless(root, round2=False, round3=False):
    os.makedirs(root, exist_ok=True)
    for l in open(os.path.join(VERIF, 'properties.jsonl')):
        p = json.loads(l)
        pid = p['id']
        wt = f'{root}/{pid}'
        subprocess.run(['git', '-C', '/repo', 'worktree', 'add', '-q', '--detach', wt, 'HEAD'], check=True)
        os.makedirs(f'{wt}/out', exist_ok=True)
        text = HARMLESS.format(wt=wt, pid=pid, title=p['title'], statement=p['statement'])
        if round2 or round3:
            prevs = []
            for r in (('r1', 'r2', 'r3', 'r4', 'r5', 'r6') if round3 else ('r1', 'r2', 'r3')):
                mp = os.path.join(VERIF, 'harmless', f'{pid}_{r}', 'meta.json')
                if os.path.exists(mp):
                    prevs.append(json.load(open(mp)).get('summary', '')[:(200 if round3 else 300)])
            text += (HARMLESS3 if round3 else HARMLESS2).format(wt=wt, prev='\n'.join(f'  ({i + 1}) "{x}"' for i, x in enumerate(prevs)))
        open(f'{wt}/out/PROMPT.txt', 'w').write(text)
    print('harmless prompts ready under', root)


def main(root, prev_suffixes, mini=False):
    os.makedirs(root, exist_ok=True)
    for l in open(os.path.join(VERIF, 'properties.jsonl')):
        p = json.loads(l)
        pid = p['id']
        wt = f'{root}/{pid}'
        subprocess.run(['git', '-C', '/repo', 'worktree', 'add', '-q', '--detach', wt, 'HEAD'], check=True)
        os.makedirs(f'{wt}/out', exist_ok=True)
        prevs = []
        for sfx in prev_suffixes:
            mp = os.path.join(VERIF, 'seeded', f'{pid}_{sfx}', 'meta.json')
            if os.path.exists(mp):
                prevs.append(json.load(open(mp)).get('summary', '')[:(600 if len(prev_suffixes) <= 3 else 330)])
        prev_text = '\n'.join(f'  ({i + 1}) "{s}"' for i, s in enumerate(prevs))
        prompt = f"""You are helping to evaluate how well a (separately built, hidden) checker can detect subtle regressions in the Python library `labtech` (runs dataclass-defined experiment tasks as a dependency DAG across subprocesses, with per-type parallelism limits and on-disk result caching).

You have your own scratch copy of the library at {wt} (source in {wt}/labtech, tests in {wt}/tests). Work ONLY inside {wt}. Never touch or read /repo or /verif. There is no network. Do not commit anything. IMPORTANT: do NOT use `git stash` (the stash is shared with other people working in sibling directories and WILL swap your changes with theirs); to get back to the clean tree use `git -C {wt} diff -- labtech > out/patch.diff && git -C {wt} checkout -- labtech`, and to re-apply use `git -C {wt} apply out/patch.diff`.

How to run things so that YOUR copy of the source is used:
  cd {wt} && PYTHONPATH={wt} /venv/bin/python -m pytest -q -p no:cacheprovider tests     (the existing suite, 103 tests, ~15 s)
  cd {wt} && PYTHONPATH={wt} /venv/bin/python out/demo.py

The property under study (it currently HOLDS on this tree):

{pid} - {p['title']}
{p['statement']}
It must hold for: {p['quantifier']['text']}

YOUR TASK: craft ONE realistic change to the library source (files under labtech/ only) — the kind of bug a maintainer could plausibly introduce in a refactor, optimisation or "cleanup" — that BREAKS this property while (a) the code still imports/compiles and (b) the whole existing test suite still passes. Prefer a change that needs something specific to manifest — a particular interleaving or completion order, a crash/fault/interrupt at a particular point, a multi-step sequence of operations, an unusual input, or two cooperating sites that each look fine alone — rather than one that any ordinary use would expose at once. Do not add obviously artificial code (no `if label == 7`, no random failures, no environment-variable switches).

Previous contributors already proposed the following changes for this property; yours must be SUBSTANTIALLY DIFFERENT from each of them (a different mechanism, a different clause of the property, and preferably a different function or file):
{prev_text}

Then write a demonstration program that fails WITH your change and passes WITHOUT it.

Deliverables (all under {wt}/out/):
  1. patch.diff  — output of `git -C {wt} diff -- labtech` (the change only; must apply with `git apply` on a clean tree)
  2. demo.py     — a self-contained program (may define its own task types; use tempfile for storage; must finish in < 60 s; must be deterministic) that exits 0 on the unchanged tree and exits non-zero (with a short message saying which clause of the property is violated) on the changed tree. If it needs real worker processes use runner_backend='fork' or 'serial'; guard with `if __name__ == '__main__':`.
  3. meta.json   — {{"property": "{pid}", "summary": "<one paragraph: what was changed and why it breaks the property>", "needs_to_manifest": "<what specific input / schedule / fault / sequence is needed>", "files_touched": [...]}}

Before finishing, VERIFY all of this yourself: (i) with the change applied the full test suite passes; (ii) demo.py exits non-zero with the change; (iii) on the clean tree (see above, no stash) demo.py exits 0; then re-apply your change so the worktree still contains it and out/patch.diff matches it. Report briefly what you did and the results of (i)-(iii)."""
        if mini:
            prompt += MINI.format(wt=wt)
        open(f'{wt}/out/PROMPT.txt', 'w').write(prompt)
    print('prompts ready under', root)


if __name__ == '__main__':
    if len(sys.argv) > 2 and sys.argv[2] in ('harmless', 'harmless2', 'harmless3'):
        main_harmless(sys.argv[1], round2=(sys.argv[2] == 'harmless2'), round3=(sys.argv[2] == 'harmless3'))
        sys.exit(0)
    main(sys.argv[1], sys.argv[2].split(',') if len(sys.argv) > 2 else [], mini=(len(sys.argv) > 3 and sys.argv[3] == 'mini'))
