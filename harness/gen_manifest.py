"""Regenerates /verif/MANIFEST.json from the table below (python3 harness/gen_manifest.py)."""
import json
import os

VERIF = os.path.dirname(os.path.dirname(os.path.abspath(__file__)))

SCHED_NOTE = ('Theorems are about Model/Sched.v (planner + coordinator loop over an abstract runner, class-level '
              'task identities, results as free terms). Tie to /repo: Gen/SrcParams.v regenerated from lab.py / '
              'runners on every run, and a correspondence run of the real Lab.run_tasks (L1 schedule-controlling '
              'runner; real serial/fork/spawn runners through a recording spy) against the model on the '
              "property's projection of the trace. Trusted: Coq kernel + vm_compute, the extractor, the harness, "
              'Python/multiprocessing below labtech. Print Assumptions: closed under the global context.')

CHECKS = {
    'C01': dict(text='Proved in Coq for every DAG, oracle (completion order/batching), limits, sound cache pre-state: a normal return maps exactly the requested tasks (request order) to the sequential dependency-first values, and that value is independent of schedule/limits/types/cache/bust/continue (C01_returns_reference, C01_independent). Model tied to the code by SrcParams + correspondence on all-succeed graphs incl. duplicate and equal-but-distinct instances, over L1/serial/fork/spawn.',
                design='6/C01', technique='Coq invariant proof over coordinator model + differential correspondence', note=SCHED_NOTE),
    'C02': dict(text='Proved: in every run history a submission for execution is preceded by the completion of every recorded dependency; an in-flight task reads exactly this run\'s dependency results and a failed dependency has no entry (C02_submit_after_deps, C02_reads_real_result, C02_finish_values). Discovery of nested dependencies is validated by the correspondence (nested tuple/list/dict parameters).',
                design='6/C02', technique='Coq history invariant + differential correspondence', note=SCHED_NOTE),
    'C03': dict(text='Proved: the plan is duplicate-free and equals the dependency closure where cached tasks contribute no dependencies; no task is submitted twice; only needed tasks are submitted; use_cache flag equals the pre-state (C03_planned_is_needed, C03_submit_once_needed_cached). Instance marking (result_meta on every equal-but-distinct instance) is checked on the implementation by the monitor only.',
                design='6/C03', technique='Coq BFS-planner correctness (task and object level) + history invariant + correspondence', note=SCHED_NOTE),
    'C04': dict(text='Proved for every reachable instant (incl. each single submission inside a submit phase and the state a failing run is abandoned in): per-type in-flight count <= max_parallel, given the comparison operator extracted from get_ready_tasks (C04_type_limit). Worker-process limit: see level_note.',
                design='6/C04', technique='Coq invariant over reachable states + extracted operator + correspondence', note=SCHED_NOTE),
    'C05': dict(text='Proved: at every rest point no pending task is both dependency-complete and below its type limit (C05_rest_no_ready_left).',
                design='6/C05', technique='Coq characterisation of get_ready_tasks + correspondence', note=SCHED_NOTE),
    'C10': dict(text='Proved: with continue_on_failure a run never raises and returns exactly the requested tasks whose reference outcome is a value; nothing is stored/captured for a failed task, every successful executed cacheable task is stored; without it a LabError names a task whose own outcome is a failure and is the last event (C10_*).',
                design='6/C10', technique='Coq invariant proof with failure semantics + correspondence under failure injection', note=SCHED_NOTE),
    'C11': dict(text='Proved: the coordinator is never Stuck (wait with nothing in flight while work remains) for every DAG/oracle/failure pattern/limits (no max_parallel=0); each completion decreases |pending|+|in flight|, so any productive oracle ends the run; no wait after the last completion (C11_never_stuck, C11_fair_terminates, C11_exit_after_last). OS-level liveness of workers is assumed as fairness.',
                design='6/C11', technique='Coq progress + measure proof + correspondence', note=SCHED_NOTE),
    'C17': dict(text='Proved at every reachable instant: a successful dependency stays in the results map while an unfinished needed task depends on it, is absent once none does (any release order), requested values are captured when finished, and the map is empty at a normal return (C17_*), given remove_results skips missing tasks (extracted).',
                design='6/C17', technique='Coq invariant proof (retained/released) + extracted remove_results mode + correspondence', note=SCHED_NOTE),
}

VAL_NOTE = ('Theorems are about Model/Values.v (parameter value grammar: normalize, find_tasks, ser/deser, cache_key, '
            'task objects and pickling, ==). Tie to /repo: Gen/SrcParams.v (does deserialize_value recurse; are marker-using dicts wrapped; does '
            '__setstate__ re-initialise) and correspondence of the real constructor / find_tasks_in_param / Serializer / '
            '== against the model on generated parameter trees (incl. dicts that spell serialised tasks / enum members / wrapped dicts). Assumed (explicit premises, exercised on edge inputs): '
            'json.dumps injective and loads(dumps)=id on these trees, sha1 fixed-length and collision-free on the pair at '
            'hand, Python scalar ==. Print Assumptions: closed under the global context.')
CHECKS.update({
    'C07': dict(text='Proved: the serialised form determines class, every field, value types, enum members and nested task parameters at any depth (C07_ser_injective, for the serialiser read from the source: a dict parameter that spells a serialised task / enum member / wrapped dict is wrapped, so dict keys are unrestricted), hence distinct tasks get distinct keys (C07_key_injective, premises on dumps/sha1), and the key survives re-normalisation, pickling and reconstruction (C07_key_stable_*). For a serialiser that never wraps dicts the statement is refuted (C07_unguarded_refuted): that was defect D9, repaired in 6f0f3a0. Keys recomputed in fresh interpreters under other hash seeds, fed to LocalStorage, compared across same-named and prefix-named types.',
                design='6/C07', technique='Coq injectivity proof by nested induction + differential correspondence of Serializer', note=VAL_NOTE),
    'C09': dict(text='Proved: deserialising the serialised form returns the same task for every parameter tree (C09_roundtrip; mutual/nested induction), for the recursive deserialize_value read from the source; refuted for a shallow one (C09_shallow_refuted). The listing itself (Lab.cached_tasks over load_task/load_metadata, Model/Listing.v): over a storage holding what save wrote for any mix of types and cache formats, cached_tasks(types) returns exactly the stored tasks of the requested types, in storage order, each once however often a type is requested, structurally as stored, with the stored result_meta, and never raises (C09_listing_exact); entries of another cache class are never listed and an entry contributes at most one task whatever the storage holds (C09_other_format_not_listed, C09_listing_at_most_once). Tie: real storages filled by runs and salted with foreign/damaged entries, read back from disk and handed to the model with each query.',
                design='6/C09', technique='Coq round-trip and listing-exactness proofs + differential correspondence of Serializer.deserialize_task and Lab.cached_tasks', note=VAL_NOTE),
    'C15': dict(text='Proved: normalisation is idempotent and its output type has no mutable constructor; exactly the trees containing an unsupported object or non-string key are rejected (C15_rejects_exactly); == is reflexive on NaN-free values and false across classes; a pickled copy equals the freshly constructed task incl. what post_init derives and carries no results/context (C15_pickle_copy, for the __setstate__ read from the source). Symmetry/transitivity of == and hash consistency are validated by correspondence only (Python scalar semantics).',
                design='6/C15', technique='Coq proofs over value grammar (nested induction) + differential correspondence of constructor/==/pickle', note=VAL_NOTE),
})
CHECKS['C18'] = dict(
    text='Proved for every key/filename/mode string and every result of pathlib resolve (oracle; symlinks, dot segments, absolute operands, loops live inside it): all filesystem effects of exists/file_handle/delete act on root\'/c (stat, mkdir, rmtree) or root\'/c/f (open) for one component c per call, given the guards read from storage.py (C18_*_confined); empty/forbidden-character keys are rejected before any access (C18_key_chars); without the filename guard confinement is refuted (C18_file_guard_needed). Partial: that acting on a resolved path touches exactly that path (no symlink left in it) and TOCTOU are the runtime\'s; the sandbox correspondence (real LocalStorage on layouts with symlinks to outside/sibling/self/loop/dangling targets, before/after snapshots) validates it.',
    design='6/C18', technique='Coq proof over guard logic with resolve as oracle + sandbox differential testing',
    note='Theorems are about Model/Paths.v; pathlib.Path.resolve and the OS are oracles (recorded from the real runtime and fed to the model). Tie: Gen/SrcParams.v extracts the forbidden characters and the presence/shape of the three guards; correspondence compares outcome class and touched paths per call. Print Assumptions: closed.')
CACHE_NOTE = ('Theorems are about Model/Cache.v (an entry = metadata and data file states in a key directory; a save = the '
              'ordered storage effects mkdir/open/write*/close per file; faults and kills after n effects) and Model/Lab.v '
              '(histories of run/uncache/is_cached/cached_tasks over the store, run = Sched.run from the current store). Tie: '
              'Gen/SrcParams.v (order of metadata/data, failure handling of BaseCache.save) and correspondence against the real '
              'caches/storages (LocalStorage, fsspec local + memory, storage=None). Assumed: pickle/json round trips, key '
              'injectivity (C07). Print Assumptions: closed.')
CHECKS.update({
    'C06': dict(text='Proved: a completed save (any write-call count, flush behaviour, first save/overwrite) is reported cached and loads exactly the saved data+metadata (C06_save_then_load); a save, complete or interrupted, never changes another key (C06_frame; with C07 a load is never foreign); whatever a run left in the store a later run submits as a load, does not expand, and yields the stored value (C06_second_run_loads). Histories on real storages incl. second runs are compared with the model; fresh-interpreter/second-backend runs are sampled.',
                design='6/C06', technique='Coq proofs over file-level cache model + run model; history correspondence', note=CACHE_NOTE),
    'C08': dict(text='Proved: run_tasks is the map update "exactly the needed, uncached, succeeding, caching-type tasks get their reference value, everything else unchanged" (C08_run_store_spec, every graph/oracle/failure pattern/bust flag); uncache removes exactly the named entries; queries are pure; cache=None types and storage=None persist nothing; bust_cache replaces what it ran. Provider agreement (LocalStorage, fsspec local, fsspec memory, None) is established by running the same histories against the one model.',
                design='6/C08', technique='Coq refinement of Lab operations to a map + history correspondence across storage providers', note=CACHE_NOTE),
    'C12': dict(text='Proved: for every fault point (storage effects completed), write-call counts, flush behaviour, first save/overwrite, with the failure handling extracted from BaseCache.save, afterwards the task is not reported cached and no other key changed (C12_failed_save_safe); refuted without the handling (C12_no_cleanup_refuted). Exceptions (and KeyboardInterrupts) are injected at every storage-effect boundary of real saves (3 result shapes, 2 cache formats, local / fsspec-backed / commit-at-close storages) inside run_or_load_task, and at the executed lines of cache.py and storage.py below BaseCache.save (sampled in quick, all in thorough); the line-level runs are judged by the monitors (the model\'s steps are the storage effects).',
                design='6/C12', technique='Coq proof over save-effect sequences + exhaustive single-fault injection on the real save path', note=CACHE_NOTE),
    'C13': dict(text='The full statement is REFUTED in the model (C13_crash_safe_refuted, C13_unsafe_points) and on the implementation (known finding D4\': six kill-point classes listed in known_findings.json); proved partial: a kill after the last effect is safe and loads the new value, and a kill never affects another key (C13_partial_*). The check kills a forked writer (os._exit) at every storage-effect boundary with buffered data lost/flushed and compares what is observable afterwards with the model; any unsafe kill point outside the listed classes is reported.',
                design='6/C13', technique='Coq refutation + partial theorems; kill injection at every storage-effect boundary', note=CACHE_NOTE),
})
CHECKS['C20'] = dict(
    text='Proved for every list of task trees: the structure has exactly one class block per task type reachable through parameters at any depth (C20_types), an arrow (A,p,B) exactly when some reachable task of type A holds a B task inside parameter p, once per block, flagged "many" exactly when in some such task p is not itself a task (C20_arrows_and_many); the work list is exactly the reachable tasks; determinism is by construction. The rendering to Mermaid text is modelled too (Model/DiagramText.v: header, direction, one block per type with its parameter and run lines, arrow groups, blank-line joins and indentation) and compared line by line with the string build_task_diagram returns; proved end to end (C20_text): the class lines of the text are the reachable types, each once; every block carries its run line and one line per parameter; the arrow lines are one to one the (dependent type, parameter, dependency type) combinations, each once, with the structure\'s many flag. How a type hint is spelt (format_type of a hint, the class __name__) is an input taken from labtech/typing. A monitor additionally parses the real text back.',
    design='6/C20', technique='Coq proof over worklist traversal, association-list updates and the rendered lines + differential correspondence of TaskStructure.build and of the diagram text',
    note='Theorems are about Model/Diagram.v over Model/Values.v task trees. Tie: correspondence of TaskStructure.build (dict contents and insertion order) with Diagram.build on generated graphs, and of the returned text with DiagramText.render line by line (four directions). Print Assumptions: closed.')
CHECKS['C16'] = dict(
    text='Configuration theorems: with the Process constructor and the filter_context call sites read from the current source, every backend runs tasks where it promises whatever the platform default start method (C16_start_method; refuted for the module-level constructor: C16_module_default_refuted), run() sees the task\'s own filter_context of the Lab context under every backend (C16_context), and key/stored entry do not take the context (C16_context_not_in_key). PARTIAL by nature: that a forked child inherits the caller\'s memory and a spawned interpreter shares none is multiprocessing/OS behaviour; the check samples it on real runs (execution records: pid, parent pid, thread, a module global mutated by the parent after import, context seen) over backends x worker counts x context filters and compares keys/stored metadata across contexts and backends.',
    design='6/C16', technique='Coq configuration theorems over extracted call sites + execution-record sampling on real backends',
    note='Model/Env.v is deliberately thin (which constructor is called with which data); Gen/SrcParams.v extracts the constructor expression in _start_processes and the filter_context call sites of the three runners. Trusted/partial: multiprocessing start methods, OS process isolation. Print Assumptions: closed.')
SCHED_L2 = ' Worker-process level: Model/Exec.v (ProcessExecutor as a state machine with finishing/exiting/killed workers) is compared with the real ProcessExecutor driven over gated forked workers (release or SIGKILL scripted before each wait).'
CHECKS['C04']['text'] += ' Proved for every sequence of submit/wait/cancel/stop with any completions/exits/kills in between: registered worker processes <= max_workers (C04_worker_limit, start policy extracted).'
CHECKS['C05']['text'] += ' Proved: after every submit and wait no future is pending while a worker slot is free (C05_rest_workers_full, for the wait() read from the source: queued futures are started on every poll; refuted for a wait() that starts them only after receiving a result, C05_wait_if_received_refuted).'
CHECKS['C11']['text'] += ' Proved: the executor invariant (running futures pending, queued futures pending and not running, no duplicate in the queue) holds after every sequence of submit/wait/cancel/stop calls and worker events (C11_executor_invariant); hence, with no assumption on the state, a worker dead at the start of wait() has a finished future (TaskDiedError unless its result was queued) and no slot when that wait() returns (C11_dead_detected_always).'
for _k in ('C04', 'C05', 'C11', 'C10'):
    CHECKS[_k]['note'] = CHECKS[_k]['note'] + SCHED_L2
CHECKS['C19'] = dict(
    text='Proved: worker side, for every output script, each logger call is queued once in order, the fragments written to a stream are exactly the fragments of the captured records (each once, in order) and nothing is left to the exit-time flush (C19_worker_exactly_once; flush behaviour and end-of-task flush extracted); caller side, for every interleaving of record puts, result hand-overs and wait() halves, the records handled when the loop exits are exactly the records put, each once, in order, whichever task finished last (C19_caller_exactly_once; second log-queue drain extracted); each ingredient is necessary (C19_refuted_without). PARTIAL: cross-queue ordering (a synchronous put on the log queue before the put on the result queue is visible to the parent in that order) is multiprocessing.Manager behaviour, sampled by real fork/spawn runs with a collecting handler and gate-chosen last finisher.',
    design='6/C19', technique='Coq proofs over worker proxy model and caller timeline model + differential test of LoggerFileProxy + real-run sampling',
    note='Theorems are about Model/Log.v. Tie: Gen/SrcParams.v (LoggerFileProxy.flush clears?, streams flushed in _subprocess_func finally?, _consume_log_queue after executor.wait?), correspondence of the real LoggerFileProxy with the worker model, real runs. Print Assumptions: closed.')
CHECKS['C14'] = dict(
    text='Proved (Hoare logic over an exception+tick monad, IntrProofs.v): for every graph, worker count, oracle and every position of one or two interrupts among the ticks (entries/exits of start_task, submit_task, executor.submit, wait, Future.result, complete_task, remove_results, cancel, stop), once an interrupt has been delivered the run ends with KeyboardInterrupt - never a normal return, LabError, or the KeyError of a re-yielded task (C14_interrupt_raises_KeyboardInterrupt), given the pop-before-yield generator, the LabError-swallowing drain/stop code and cancel-before-stop read from the source; each ingredient is shown necessary by a model witness that was replayed on the implementation (C14_refuted_without). Also proved: the except-branch starts no worker and records no submission (C14_handler_starts_nothing), a single interrupt terminates no worker (C14_single_interrupt_terminates_no_worker) and KeyboardInterrupt leaves run_tasks only once every registered future has been consumed (C14_single_interrupt_waits_for_registered); at line level, with the statement order read from _start_processes, an interrupt during the launch of a worker never finds the future outside both executor tables nor a started worker the executor does not know (C14_launch_never_loses_future, C14_launch_no_orphan_worker; refuted for the original order, defect D13). Clauses validated by injection rather than proved: no task started after the interrupt, running tasks finish and are cached, workers terminated after the second interrupt, cache consistency. PARTIAL: where a real signal lands in the bytecode and interrupted Manager-proxy calls are runtime behaviour; covered by line-level injection (every executed labtech line under serial in thorough) and real SIGINT runs.',
    design='6/C14', technique='Coq Hoare-logic proof over an interruptible coordinator model + exhaustive tick-level, line-level and real-signal injection',
    note='Theorems are about Model/Intr.v (TaskCoordinator.run try/except structure, process_completed_tasks, ProcessRunner.wait generator protocol, cancel/stop) with interrupts at ticks. Tie: Gen/SrcParams.v (pop-before-yield + KeyboardInterrupt let through in wait, drain loop / final call swallow LabError, cancel before stop, names bound before run_or_load_task\'s try) and correspondence: the same ticks are instrumented in the real code (monkeypatched method wrappers over gated real worker processes) and every single and sampled double interrupt position is compared (outcome, event trace, terminated workers). Print Assumptions: closed.')
CHECKS['C03']['text'] += ' Object layer (Model/ObjPlan.v): the walk over task objects visits exactly the objects reachable from the requested objects without passing through a task served from the cache, each once, and its quotient by equality is the task-level plan (C03_object_walk_is_task_plan); completing a task marks every visited instance of it and no other object (C03_every_instance_marked); tied by comparing the marks left on real task objects with the model on every generated case.'
CHECKS['C14']['text'] += ' Also proved: from whatever state the first interrupt leaves, the except-branch starts no worker process and records no submission, however it ends (C14_handler_starts_nothing; refuted for a second handler that stops without cancelling, C14_no_second_cancel_refuted); the number of worker starts of the model is compared with the processes really started in every tick-level run. A single interrupt terminates no worker: stop() is only reachable through a second KeyboardInterrupt (C14_single_interrupt_terminates_no_worker).'
CHECKS['C01']['text'] += ' The serial backend is proved to refine the abstract runner (C01_serial_refines; Model/Serial.v: oldest submitted task first, one per polling round, no completion oracle), always ends within |plan| rounds and returns the reference values (C01_serial_ends, C01_serial_returns_reference); real serial runs are replayed by that strategy. The process-runner model (Model/Intr.v: executor queue, worker slots, wait() generator protocol, future bookkeeping) is proved to refine the abstract scheduler whenever no interrupt arrives: same returned dict or LabError and same final coordinator state under some completion oracle (C01_process_runner_refines, C01_process_runner_returns_reference).'
CHECKS['C01']['text'] += ' Executor level (Model/Exec.v, ExecLate.v): workers that deliver their result and exit, or are killed, after the drain of one wait() leave that call unchanged and are seen by the next (C01_worker_finishing_during_wait, for the liveness-snapshot position read from the source; refuted for a snapshot after the drain); the gated-worker harness produces that interleaving and its runs are part of this check.'
NOT_YET = {}


def main():
    props = [json.loads(l) for l in open(os.path.join(VERIF, 'properties.jsonl'))]
    checks, na = [], []
    for p in props:
        pid = p['id']
        if pid in CHECKS:
            c = CHECKS[pid]
            checks.append(dict(
                property_id=pid,
                quick_cmd=f'./check {pid} --tier quick',
                thorough_cmd=f'./check {pid} --tier thorough',
                evidence_file=f'/verif/evidence/{pid}.json',
                replay_cmd_template=f'./check {pid} --replay {{path}}',
                engine='coq-models',
                level_claimed=dict(category='proof', text=c['text'], design_ref=f"DESIGN.md section {c['design']}"),
                level_note=c['note'],
                technique=c['technique'],
            ))
        else:
            na.append(dict(property_id=pid, reason=NOT_YET.get(pid, 'check not built yet (Coq model planned in DESIGN.md section 6; no claim is made until it exists)')))
    manifest = dict(
        version=1,
        setup_cmd='./setup.sh',
        hooks=dict(guard='LABTECH_VERIF', enable='no source hooks are used: the harness drives labtech through its public RunnerBackend / Storage / Cache extension points', baseline_off_cmd='cd /repo && /venv/bin/python -m pytest -q -p no:cacheprovider --timeout=900', source_commits=[], add_only=True),
        engines=[dict(name='coq-models', path='/verif/coq', serves_properties=sorted(CHECKS), kind_free_text='Coq 8.16.1 development (Model/ executable Gallina, Proofs/, Properties/), tied to /repo by harness/srcparams.py and correspondence runs driven by ./check')],
        checks=checks,
        notes='See DESIGN.md. Known findings: known_findings.json.',
        not_applicable=na,
    )
    with open(os.path.join(VERIF, 'MANIFEST.json'), 'w') as f:
        json.dump(manifest, f, indent=1)


if __name__ == '__main__':
    main()
