import sys, random, json
sys.path.insert(0,'/verif/harness')
import values_h as V, common as C, lv_universe as U
from labtech.tasks import find_tasks_in_param
rng = random.Random(int(sys.argv[1]) if len(sys.argv)>1 else 0)
N = int(sys.argv[2]) if len(sys.argv)>2 else 200
terms=[]; specs=[]
from collections import Counter
oc=Counter()
for i in range(N):
    spec = V.gen_spec(rng, bad=0.08 if i%3==0 else 0.0, reserved=0.0)
    st, t = V.construct(spec)
    oc[st]+=1
    if st == 'unbuildable': continue
    if st == 'other': print('OTHER', spec, t); continue
    if st == 'ok':
        norm = V.g_opt(V.g_value_py(t.x))
        found = C.g_list([V.g_value_py(x) for x in find_tasks_in_param(t.x)])
        ser = V.g_json(V.ser_task(t))
        rs, rt = V.roundtrip(t)
        des = V.g_opt(V.g_value_py(rt)) if rs=='ok' else 'None'
        try: des
        except Exception as e: des='None'
    else:
        norm='None'; found='[]'; ser='JNull'; des='None'
    specs.append(spec)
    terms.append('{| vc_raw := %s; vc_norm := %s; vc_found := %s; vc_ser := %s; vc_deser := %s |}' % (V.g_raw(spec), norm, found, ser, des))
print(oc)
for chk in ['check_norm','check_find','check_ser','check_deser deser_mode_src the_env']:
    bad = C.coq_failing('tryv', V.VALUES_IMPORTS, terms, chk)
    print(chk, 'mismatch', bad[:10], len(bad))
    for b in bad[:2]: print(json.dumps(specs[b])); print(terms[b][:1500])
