"""C19: what a task emits (logger records, stdout/stderr writes) against what the caller's labtech logger handlers
receive: (a) the real LoggerFileProxy against Model/Log.v's worker model; (b) real fork/spawn runs with a collecting
handler, scripted output per task and a gate-chosen last finisher."""
import json
import logging
import os
import shutil
import tempfile
import threading
import time
from collections import Counter

import labtech
from labtech.lab import Lab
from labtech.utils import LoggerFileProxy

import lv_universe as U
from common import coq_failing, rng_for, CoqError, g_list, g_nats, g_bool, subdir


def gen_script(rng, tag):
    """A worker output script: list of steps (op, arg); fragments carry unique ids."""
    n = rng.randint(0, 7)
    steps, fid = [], 0
    for _ in range(n):
        r = rng.random()
        fid += 1
        lead = rng.choice(['', '', '', '  ', '\t', '\n'])         # chunks that begin with whitespace are chunks like any other
        if r < 0.22:
            steps.append(['info', f'L{tag}-{fid}'])
        elif r < 0.3:
            steps.append(['infochild', f'C{tag}-{fid}'])          # emitted on a child of the labtech logger
        elif r < 0.45:
            steps.append(['print', f'{lead}P{tag}-{fid}'])
        elif r < 0.6:
            steps.append(['out', f'{lead}O{tag}-{fid}'])
        elif r < 0.7:
            steps.append(['err', f'{lead}E{tag}-{fid}'])
        elif r < 0.8:
            steps.append(['out', rng.choice(['\n', ' ', '\t\n', ''])])
        elif r < 0.9:
            steps.append(['flushout'])
        else:
            steps.append(['flusherr'])
    return steps


def model_script(steps, ids):
    """-> Gallina list wact; fragments/messages are numbered through `ids`."""
    out = []

    def num(s):
        return ids.setdefault(s, len(ids) + 1)
    for st in steps:
        op = st[0]
        if op in ('info', 'warn', 'infochild'):
            out.append(f'WEmit {num(st[1])}')
        elif op == 'print':
            out.append(f'WWrite Out {num(st[1])} false')
            out.append('WWrite Out 0 true')
        elif op in ('out', 'err'):
            blank = st[1].strip() == ''
            out.append(f'WWrite {"Out" if op == "out" else "Err"} {0 if blank else num(st[1])} {g_bool(blank)}')
        elif op == 'flushout':
            out.append('WFlush Out')
        elif op == 'flusherr':
            out.append('WFlush Err')
    return out


def proxy_run(steps):
    """The real LoggerFileProxy objects driven by the script, flushed at the end (as the worker does before returning)."""
    recs = []
    out = LoggerFileProxy(lambda msg: recs.append(('out', msg)), 'Captured STDOUT:\n')
    err = LoggerFileProxy(lambda msg: recs.append(('err', msg)), 'Captured STDERR:\n')
    for st in steps:
        op = st[0]
        if op in ('info', 'warn', 'infochild'):
            recs.append(('log', st[1]))
        elif op == 'print':
            out.write(st[1])
            out.write('\n')
        elif op == 'out':
            out.write(st[1])
        elif op == 'err':
            err.write(st[1])
        elif op == 'flushout':
            out.flush()
        elif op == 'flusherr':
            err.flush()
    out.flush()
    err.flush()
    return recs


def emit_records(recs, ids):
    out = []
    for kind, msg in recs:
        if kind == 'log':
            out.append(f'RLog {ids.get(msg, 0)}')
        else:
            prefix = 'Captured STDOUT:\n' if kind == 'out' else 'Captured STDERR:\n'
            frags = [p[len(prefix):] if p.startswith(prefix) else p for p in msg.split('\n' + prefix)]
            frags[0] = frags[0][len(prefix):] if frags[0].startswith(prefix) else frags[0]
            out.append(f'RCaptured {"Out" if kind == "out" else "Err"} {g_nats([ids.get(f, 0) for f in frags])}')
    return g_list(out)


class Collect(logging.Handler):
    def __init__(self):
        super().__init__(level=logging.DEBUG)
        self.msgs = []

    def emit(self, record):
        self.msgs.append(record.getMessage())


class FileCollect(logging.Handler):
    """A handler whose output is shared across fork (an O_APPEND descriptor, one JSON line per record): a worker that
    still holds this handler shows up as extra lines."""
    def __init__(self, path):
        super().__init__(level=logging.DEBUG)
        self.path = path
        self.fd = os.open(path, os.O_WRONLY | os.O_CREAT | os.O_APPEND, 0o644)

    def emit(self, record):
        os.write(self.fd, (json.dumps(record.getMessage()) + '\n').encode())

    def messages(self):
        with open(self.path) as f:
            return [json.loads(l) for l in f if l.strip()]


def run_real(cfg):
    """A real run; returns the messages handled by a handler on the caller's labtech logger before run_tasks returned."""
    d = tempfile.mkdtemp(dir=subdir('log'))
    gdir = os.path.join(d, 'gates')
    os.makedirs(gdir)
    os.environ['LV_GATEDIR'] = gdir
    os.environ['LV_GATE_TIMEOUT'] = '60'
    logger = logging.getLogger('labtech')
    saved_handlers, saved_level = list(logger.handlers), logger.level
    h = Collect()
    files = [FileCollect(os.path.join(d, f'handler{i}.log')) for i in range(cfg.get('nhandlers', 1) - 1)]
    pos = cfg.get('collect_pos', 0) % (len(files) + 1)
    logger.handlers = files[:pos] + [h] + files[pos:]
    logger.setLevel(logging.INFO)
    stop = threading.Event()
    released = []

    def releaser():
        # release tasks in the scripted order where the schedule allows it: a started task is released once it is
        # next in the order, or once nothing else has made progress for a while (the ones before it cannot start yet)
        todo = list(cfg['order'])
        last_progress = time.monotonic()
        while todo and not stop.is_set():
            started = [l for l in todo if os.path.exists(os.path.join(gdir, f'started_{l}'))]
            pick = None
            if todo[0] in started:
                pick = todo[0]
            elif started and time.monotonic() - last_progress > 0.25:
                pick = started[0]
            if pick is None:
                time.sleep(0.002)
                continue
            time.sleep(cfg.get('gap', 0.0))
            open(os.path.join(gdir, f'go_{pick}'), 'w').close()
            todo.remove(pick)
            released.append(pick)
            last_progress = time.monotonic()
    th = threading.Thread(target=releaser, daemon=True)
    try:
        behs = cfg.get('behs') or ['ok'] * len(cfg['scripts'])
        tasks = [U.TNx(label=i, beh=behs[i], talk=tuple(tuple(s) for s in cfg['scripts'][i])) for i in range(len(cfg['scripts']))]
        lab = Lab(storage=None, runner_backend=cfg['backend'], max_workers=cfg['max_workers'], notebook=False)
        th.start()
        import contextlib
        import io
        with contextlib.redirect_stdout(io.StringIO()), contextlib.redirect_stderr(io.StringIO()):
            lab.run_tasks(tasks, disable_progress=True, disable_top=True)
        msgs = list(h.msgs)
        time.sleep(0.05)
        late = h.msgs[len(msgs):]
        cfg['released'] = list(released)
        cfg['_file_msgs'] = [f.messages() for f in files]
        return msgs, late
    finally:
        stop.set()
        th.join(5)
        for f in files:
            os.close(f.fd)
        logger.handlers = saved_handlers
        logger.setLevel(saved_level)
        os.environ.pop('LV_GATEDIR', None)
        shutil.rmtree(d, ignore_errors=True)


def expected_counts(cfg):
    """Every emitted message and every non-blank fragment must be handled exactly once."""
    want = Counter()
    for steps in cfg['scripts']:
        for st in steps:
            if st[0] in ('info', 'warn', 'print', 'infochild', 'infobig'):
                want[st[1]] += 1
            elif st[0] in ('out', 'err') and st[1].strip() != '':
                want[st[1]] += 1
    return want


def observed_counts(msgs, want):
    got = Counter()
    for m in msgs:
        if m.startswith("Task '"):
            continue          # the coordinator's own failure report quotes the task (whose parameters spell the tokens)
        for token in want:
            got[token] += m.count(token)
    return got


LOG_IMPORTS = 'Require Import LT.Model.Base LT.Model.Log LT.Gen.SrcParams.\n'
VOLUME = {'quick': (300, 10), 'thorough': (5000, 150)}


def run(prop, report, tier, seed, replay=None):
    rng = rng_for(seed, prop, 'log')
    n_proxy, n_real = VOLUME[tier]
    dist = Counter()
    # (a) the proxy against the worker model
    terms, kept = [], []
    if replay is None or 'script' in replay['input']:
        scripts = [replay['input']['script']] if replay else [gen_script(rng, 0) for _ in range(n_proxy)]
        for steps in scripts:
            ids = {}
            ms = model_script(steps, ids)
            recs = proxy_run(steps)
            terms.append('{| lc_script := %s; lc_pre := %s |}' % (g_list(ms), emit_records(recs, ids)))
            kept.append(steps)
            dist[f'script_len={len(steps)}'] += 1
            # monitor on the proxy itself: each non-blank fragment exactly once
            want = Counter(st[1] for st in steps if st[0] in ('out', 'err', 'print') and st[1].strip() != '')
            got = Counter()
            for kind, msg in recs:
                if kind != 'log':
                    for tok in want:
                        got[tok] += msg.count(tok)
            if got != want:
                dup = [t for t in want if got[t] > want[t]]
                sig = 'fragment-duplicated' if dup else 'fragment-lost'
                report.violation(f'C19:{sig}', f'LoggerFileProxy handed fragments to the logger {dict(got)} times, written {dict(want)}', dict(script=steps))
        try:
            bad = coq_failing('corr_C19_proxy', LOG_IMPORTS, terms, 'check_lcase flush_mode_src')
        except CoqError as e:
            bad = []
            report.broke('correspondence Log.check_lcase could not be evaluated', str(e))
        if bad:
            report.broke(f'correspondence Model/Log.v worker model vs LoggerFileProxy: {len(bad)} of {len(terms)} scripts differ',
                         first_case=dict(script=kept[bad[0]]))
    # (b) real runs
    cfgs = []
    if replay is not None and 'config' in replay['input']:
        cfgs = [replay['input']['config']]
    elif replay is None:
        for i in range(n_real):
            n = rng.randint(1, 3)
            order = list(range(n))
            rng.shuffle(order)
            cfgs.append(dict(backend='fork' if (i % 5 or tier == 'quick' and i > 1) else 'spawn', max_workers=rng.choice([1, 2, None]),
                             scripts=[gen_script(rng, t) or [['print', f'P{t}-x']] for t in range(n)], order=order,
                             behs=[('raise' if rng.random() < 0.35 else 'ok') for _ in range(n)],
                             gap=rng.choice([0.0, 0.0, 0.02]), nhandlers=rng.choice([1, 2, 2, 3]), collect_pos=rng.randrange(3)))
    if replay is None:
        # a task that logs heavily (hundreds of records) and finishes in the last polling round: nothing may be left in
        # the queue when run_tasks returns
        for i, cfg in enumerate(cfgs):
            if i % 4 == 1:
                t = cfg['order'][-1]
                cfg['scripts'][t] = [['info', f'H{t}-{k:04d}'] for k in range(rng.choice([150, 400, 900]))]
                cfg['heavy'] = t
            elif i % 4 == 3 or (tier == 'quick' and i == 2):
                # ... or a burst of large records (more than any pipe buffer holds) as its last action
                t = cfg['order'][-1]
                cfg['scripts'][t] = cfg['scripts'][t][:2] + [['infobig', f'B{t}-{k:04d}'] for k in range(rng.choice([40, 80]))]
                cfg['heavy'] = t
    for cfg in cfgs:
        msgs, late = run_real(cfg)
        want = expected_counts(cfg)
        got = observed_counts(msgs, want)
        for k, fm in enumerate(cfg.pop('_file_msgs', [])):
            fgot = observed_counts(fm, want)
            if fgot != want:
                dup = sorted(t for t in want if fgot[t] > want[t])
                lost = sorted(t for t in want if fgot[t] < want[t])
                report.violation('C19:delivered-twice' if dup else 'C19:lost',
                                 f"handler {k + 2} of {cfg.get('nhandlers')} on the caller's labtech logger (a shared append-mode file) received "
                                 f'{"more than once: " + str(dup[:4]) if dup else "never: " + str(lost[:4])}', dict(config=cfg))
                break
        dist[f"real:{cfg['backend']}"] += 1
        dist[f"handlers={cfg.get('nhandlers', 1)}"] += 1
        dist['real_tasks'] += len(cfg['scripts'])
        if got != want:
            lost = sorted(t for t in want if got[t] < want[t])
            dup = sorted(t for t in want if got[t] > want[t])
            last = (cfg.get('released') or cfg['order'])[-1]
            if dup:
                report.violation('C19:delivered-twice', f'messages delivered more than once before run_tasks returned: {dup[:4]}', dict(config=cfg))
            if lost:
                of_last = all(t.split('-')[0][1:] == str(last) for t in lost)
                report.violation('C19:lost-last-round' if of_last else 'C19:lost',
                                 f'messages never reached the caller\'s handlers before run_tasks returned: {lost[:4]} (last finisher: task {last}; arrived later: {bool(late)})', dict(config=cfg))
    report.coverage.update(
        evaluations=len(terms) + len(cfgs), distinct_nontrivial=len({json.dumps(k) for k in kept if len(k) >= 3}) + len(cfgs),
        traces_validated_against_impl=len(terms) + len(cfgs), correspondence_mismatches=0 if not terms else len(bad),
        rule=('(a) random write/print/flush/logger scripts driven through the real LoggerFileProxy, compared with the worker '
              'model; (b) real fork/spawn runs of 1-3 tasks with scripted output, a handler on the caller\'s labtech logger, and '
              'a gate-chosen completion order (which task finishes in the last polling round); non-trivial = script of >=3 steps, '
              'or any real run'),
        distribution=dict(sorted(dist.items())),
        samples=[dict(script=kept[0])] + [dict(config=c) for c in cfgs[:2]] if kept else [dict(config=c) for c in cfgs[:2]])
