"""L2 harness: the real ProcessRunner / ProcessExecutor over gated worker processes, scripted from the calling
thread.  Every executor call (submit / wait / cancel / stop) and the environment steps applied before each wait
(release a worker and join it, or SIGKILL it and join it) are recorded together with the executor state after the
call, for comparison with Model/Exec.v."""
import logging
import multiprocessing
import os
import random
import signal
import threading
import time

import labtech
import labtech.runners.process as P
from labtech.lab import Lab
from labtech.runners import ForkRunnerBackend
from labtech.types import RunnerBackend

import sched_h as S
from common import g_bool, g_list, g_nats

logging.getLogger('labtech').setLevel(logging.CRITICAL)
_FORK = multiprocessing.get_context('fork')


class GatedProcess(_FORK.Process):
    """A real forked worker that blocks on a pipe before running the real target."""
    started = []

    def __init__(self, *a, **kw):
        super().__init__(*a, **kw)
        self.gate_r, self.gate_w = os.pipe()
        # which future this worker serves (for observers that cannot rely on the executor's private tables)
        inner = kw.get('kwargs') or {}
        self.lv_future_id = inner.get('future_id', next((v for v in inner.values() if isinstance(v, int) and not isinstance(v, bool)), None))

    def start(self):
        super().start()
        GatedProcess.started.append(self)
        if SCRIPT is not None and getattr(SCRIPT, 'rec', None) is not None:
            # where, in the coordinator-level event sequence, this worker process was started
            SCRIPT.pstarts.append((len(SCRIPT.rec.ev), self.lv_future_id))
        os.close(self.gate_r)

    def run(self):
        os.close(self.gate_w)
        if os.read(self.gate_r, 1) == b'q':
            os._exit(0)          # the worker ends with status 0 without ever reporting a result
        super().run()

    def release_and_join(self):
        try:
            os.write(self.gate_w, b'x')
        except OSError:
            pass
        self.join()
        try:
            os.close(self.gate_w)
        except OSError:
            pass

    def kill_and_join(self, quiet_exit=False):
        if quiet_exit:
            try:
                os.write(self.gate_w, b'q')
            except OSError:
                self.kill()
        else:
            self.kill()
        self.join()
        try:
            os.close(self.gate_w)
        except OSError:
            pass


class GatedContext:
    """What ProcessExecutor sees as its mp_context."""
    Process = GatedProcess

    def __getattr__(self, name):
        return getattr(_FORK, name)


class Script:
    def __init__(self, rng, p_kill=0.15, p_idle=0.2):
        self.rng, self.p_kill, self.p_idle = rng, p_kill, p_idle
        self.ops = []          # [kind, envs, obs]
        self.base = None
        self.created = []
        self.killed_fids = []
        self.max_running_seen = 0
        self.violations = []
        self.pstarts = []
        self.carry = []
        self.after_drain = None
        self.p_late = 0.2
        self.interrupt_hook = None
        self.executor = None
        self.forced = None          # optional: per executor wait, the task ids whose workers finish
        self.nwait = 0
        self.submit_tids = []
        self.terminated_fids = []


SCRIPT = None


_FUTURE_RESULT = P.Future.result


def _outcome(f):
    """1: the finished future holds a result, 2: an exception."""
    if hasattr(f, '_ex'):
        return 2 if f._ex is not None else 1
    try:
        _FUTURE_RESULT(f)        # the method as imported: the tick instrumentation of intr_h replaces it on the class
        return 1
    except BaseException:   # noqa
        return 2


class ScriptedExecutor(P.ProcessExecutor):

    def __init__(self, *a, **kw):
        super().__init__(*a, **kw)
        if SCRIPT is not None:
            SCRIPT.executor = self
            # an executor that has just been built has no worker processes and no queued futures of its own
            try:
                stale = len(self._running_pairs()) + len(self._pending_futures())
            except BaseException:   # noqa
                stale = 0
            if stale:
                SCRIPT.violations.append(('executor-state-shared', f'the executor built for this run starts out with {stale} running/queued futures that belong to '
                                                                   'an earlier run: its worker slots are occupied by work that is not its own'))

    def _fid(self, future):
        if SCRIPT.base is None:
            SCRIPT.base = future.id
        return future.id - SCRIPT.base

    # The executor's own tables when they have the names and shapes this harness knows; otherwise the same information
    # reconstructed from what passed through the public calls: futures returned by submit(), worker objects created.
    def _running_pairs(self):
        d = None if os.environ.get('LV_FORCE_RECON') else getattr(self, '_running_id_to_future_and_process', None)
        if isinstance(d, dict):
            try:
                return [(v[0], v[1]) for v in d.values()]
            except (TypeError, IndexError):
                pass
        by_id = {f.id: f for f in SCRIPT.created}
        return [(by_id[p.lv_future_id], p) for p in GatedProcess.started
                if p.lv_future_id in by_id and not by_id[p.lv_future_id].done]

    def _pending_futures(self):
        d = None if os.environ.get('LV_FORCE_RECON') else getattr(self, '_pending_future_to_thunk', None)
        if isinstance(d, dict):
            return list(d)
        started = {p.lv_future_id for p in GatedProcess.started}
        return [f for f in SCRIPT.created if not f.done and f.id not in started]

    def _obs(self):
        mine = {id(f) for f in SCRIPT.created}
        running = [self._fid(f) for f, _ in self._running_pairs() if id(f) in mine]
        pendq = [self._fid(f) for f in self._pending_futures() if id(f) in mine]
        done = []
        for f in SCRIPT.created:
            if f.done:
                st = 0 if f.cancelled else _outcome(f)
                done.append([self._fid(f), st])
        alive = sum(1 for _, p in self._running_pairs() if p.is_alive())
        SCRIPT.max_running_seen = max(SCRIPT.max_running_seen, len(running))
        limit = SCRIPT.expected_maxw if getattr(SCRIPT, 'expected_maxw', None) is not None else self.max_workers
        if len(running) > limit:
            SCRIPT.violations.append(('worker-limit-exceeded', f'{len(running)} worker processes with max_workers={limit}'))
        return dict(running=running, pendq=pendq, done=done, alive=alive)

    def submit(self, fn, /, *args, **kwargs):
        future = super().submit(fn, *args, **kwargs)
        SCRIPT.created.append(future)
        SCRIPT.submit_tids.append(getattr(kwargs.get('task'), 'label', -1))
        self._fid(future)
        obs = self._obs()
        limit = SCRIPT.expected_maxw if getattr(SCRIPT, 'expected_maxw', None) is not None else self.max_workers
        if obs['pendq'] and len(obs['running']) < limit:
            SCRIPT.violations.append(('idle-slot', f"{len(obs['pendq'])} futures pending but only {len(obs['running'])} of {limit} workers running after submit()"))
        SCRIPT.ops.append(['submit', [], obs])
        return future

    def wait(self, futures, *, timeout_seconds):
        # a worker that was let go right after the previous drain: for the executor (and the model) it finished before this wait
        envs = list(SCRIPT.carry)
        SCRIPT.carry = []
        running = self._running_pairs()
        alive = [(f, p) for f, p in running if p.is_alive()]
        rng = SCRIPT.rng
        if SCRIPT.forced is not None:
            want = SCRIPT.forced[SCRIPT.nwait] if SCRIPT.nwait < len(SCRIPT.forced) else []
            SCRIPT.nwait += 1
            for f, p in alive:
                tid = SCRIPT.submit_tids[self._fid(f)]
                if tid in want:
                    p.release_and_join()
                    envs.append(['finish', self._fid(f)])
        elif alive and rng.random() >= SCRIPT.p_idle:
            k = rng.choice([1, 1, 1, 2, len(alive)])
            for f, p in rng.sample(alive, min(k, len(alive))):
                if rng.random() < SCRIPT.p_kill:
                    p.kill_and_join(quiet_exit=rng.random() < 0.5)      # SIGKILL, or an exit with status 0
                    envs.append(['kill', self._fid(f)])
                    SCRIPT.killed_fids.append(self._fid(f))
                else:
                    p.release_and_join()
                    envs.append(['finish', self._fid(f)])
        had_dead = [self._fid(f) for f, p in self._running_pairs() if not p.is_alive()]
        late = []
        still = [(f, p) for f, p in self._running_pairs() if p.is_alive()]
        if SCRIPT.forced is None and still and rng.random() < SCRIPT.p_late:
            lf, lp = rng.choice(still)

            def _after_drain(lf=lf, lp=lp):
                lp.release_and_join()
                SCRIPT.carry.append(['finish', self._fid(lf)])
                late.append(self._fid(lf))
            SCRIPT.after_drain = _after_drain
        res = super().wait(futures, timeout_seconds=0.005)
        SCRIPT.after_drain = None
        # what wait() hands back: every future it was asked about that is done is among the done ones
        try:
            done_list = list(res[0])
            withheld = [self._fid(f) for f in futures if f.done and not any(f is d for d in done_list)]
            SCRIPT.last_done_count = len(done_list)
            if withheld:
                SCRIPT.violations.append(('done-not-reported', f'futures {withheld} are finished, but wait() does not report them as done (it reported {len(done_list)}): '
                                                               'their tasks\' dependents and slots stay blocked until something else finishes'))
        except (TypeError, IndexError, AttributeError):
            SCRIPT.last_done_count = None
        obs = self._obs()
        obs['alive'] += len(late)        # it was alive when this wait() looked
        # C11/C05: every worker that was dead when wait() began has been noticed and its slot freed
        left = [i for i in had_dead if i in obs['running']]
        if left:
            SCRIPT.violations.append(('dead-not-detected', f'workers {left} were dead before wait() and are still counted as running after it'))
        limit = SCRIPT.expected_maxw if getattr(SCRIPT, 'expected_maxw', None) is not None else self.max_workers
        if obs['pendq'] and obs['alive'] < limit:
            SCRIPT.violations.append(('idle-slot', f"{len(obs['pendq'])} futures pending but only {obs['alive']} live worker processes for {limit} slots after wait()"))
        # fill in ok flags of the finished ones from the future status
        st = {i: s for i, s in obs['done']}
        for e in envs:
            if e[0] == 'finish':
                e.append(st.get(e[1], 1) != 2)
        SCRIPT.ops.append(['wait', envs, obs])
        return res

    def cancel(self):
        super().cancel()
        SCRIPT.ops.append(['cancel', [], self._obs()])

    def stop(self):
        SCRIPT.terminated_fids += [self._fid(f) for f, _ in self._running_pairs()]
        super().stop()
        SCRIPT.ops.append(['stop', [], self._obs()])


class L2Runner(P.ForkProcessRunner):
    def _get_mp_context(self):
        return GatedContext()


class L2Backend(RunnerBackend):
    def build_runner(self, *, context, storage, max_workers):
        return L2Runner(context=context, storage=storage, max_workers=max_workers)


class _HookThread(threading.Thread):
    """The executor drains its result queue in a helper thread and joins it; right after that join the script may let one more
    worker finish: its result arrives, and the worker exits, after the drain and before the executor looks at anything else."""

    def join(self, timeout=None):
        super().join(timeout)
        cb = getattr(SCRIPT, 'after_drain', None) if SCRIPT is not None else None
        if cb is not None and not self.is_alive() and threading.current_thread() is threading.main_thread():
            SCRIPT.after_drain = None
            cb()


class patched:
    """Route worker creation to GatedProcess whichever constructor the source calls."""

    def __enter__(self):
        self.saved = (P.ProcessExecutor, P.multiprocessing.Process)
        P.ProcessExecutor = ScriptedExecutor
        P.multiprocessing.Process = GatedProcess
        self.saved_thread = getattr(P, 'Thread', None)
        if self.saved_thread is threading.Thread:
            P.Thread = _HookThread
        return self

    def __exit__(self, *a):
        P.ProcessExecutor, P.multiprocessing.Process = self.saved
        if self.saved_thread is threading.Thread:
            P.Thread = self.saved_thread
        for p in GatedProcess.started:
            if p.is_alive():
                p.kill()
                p.join()
        GatedProcess.started.clear()


def run_l2(case, p_kill=0.15):
    """Run one scheduler case under the real fork ProcessRunner with scripted workers.
    Returns (coordinator-level observation, executor-level script)."""
    global SCRIPT
    SCRIPT = Script(random.Random(case['sched_seed']), p_kill=p_kill)
    # the limit the run is judged by is the one the Lab was given (default: the CPU count), not what the executor believes
    SCRIPT.expected_maxw = case['max_workers'] if case.get('max_workers') is not None else os.cpu_count()
    case = dict(case, runner='l2')
    with patched():
        def factory(rec):
            SCRIPT.rec = rec
            return S.SpyBackend(L2Backend(), rec)
        obs = S.run_case(case, backend_factory=factory)
    script = SCRIPT
    SCRIPT = None
    return obs, script


def emit_xcase(script, max_workers):
    ops, obs = [], []
    for kind, envs, o in script.ops:
        if kind == 'submit':
            ops.append('XSubmit')
        elif kind == 'wait':
            es = []
            for e in envs:
                if e[0] == 'kill':
                    es.append(f'EnvKill {e[1]}')
                else:
                    es += [f'EnvPut {e[1]} {g_bool(e[2])}', f'EnvExit {e[1]}']
            ops.append(f'XWait {g_list(es)}')
        elif kind == 'cancel':
            ops.append('XCancel')
        else:
            ops.append('XStop')
        obs.append('{| xo_running := %s; xo_pendq := %s; xo_done := %s |}' % (
            g_nats(o['running']), g_nats(o['pendq']), g_list([f'({i}, {s})' for i, s in sorted(o['done'])])))
    return '{| xc_maxw := %d; xc_ops := %s; xc_obs := %s |}' % (max_workers, g_list(ops), g_list(obs))


EXEC_IMPORTS = 'Require Import LT.Model.Base LT.Model.Exec LT.Gen.SrcParams.\n'
