import sys, json
sys.path.insert(0,'/verif/harness')
import sched_h as S, intr_h as I
c = dict(n=2, types=[1,1], specs=[['tuple',[]],['tuple',[]]], reads=[[],[]], behs=['ok','raise'], req=[[0,0],[1,0]], storage='none',
         bust=False, cont=False, runner='l2', max_workers=2, sched_seed=1, pre=[])
for k1,k2 in [(6,2),(7,0),(8,1)]:
    obs, oracle, ticker, script = I.run_interrupt(c, k1, k2, forced=[[0,1],[],[]])
    print(k1,k2,obs['outcome'],obs.get('exc'), oracle, obs['events'])
