import sys, random, json
sys.path.insert(0,'/verif/harness')
import sched_h as S, exec_h as X, common as C
rng = random.Random(int(sys.argv[1]) if len(sys.argv)>1 else 0)
N = int(sys.argv[2]) if len(sys.argv)>2 else 20
terms=[]; xs=[]; import time
t0=time.time()
for i in range(N):
    c = S.gen_case(rng, runner='l2', max_n=7, p_fail=0.1)
    c['max_workers'] = rng.choice([1,2,3])
    obs, script = X.run_l2(c)
    xs.append((c, obs, script))
    terms.append(X.emit_xcase(script, c['max_workers']))
    if script.violations: print('VIOL', script.violations[:2])
print('ran', N, time.time()-t0, 'outcomes', [o['outcome'] for _,o,_ in xs][:10])
bad = C.coq_failing('tryx', X.EXEC_IMPORTS, terms, 'check_xcase start_policy_src')
print('mismatch', bad)
for b in bad[:2]:
    c,o,s = xs[b]; print(json.dumps(s.ops)); print(terms[b])
