import enum
import lv_universe as U

V2 = U.make_vtype('V2', ['x'], module=__name__)


class Color(enum.Enum):
    RED = 1
    GREEN = 2
