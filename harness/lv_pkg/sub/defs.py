"""Task and enum types living in a module with a dotted path (lv_pkg.sub.defs)."""
import enum
import lv_universe as U

V2 = U.make_vtype('V2', ['x'], module=__name__)


class Color(enum.Enum):
    RED = 1
    GREEN = 2
