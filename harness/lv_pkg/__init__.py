"""A package whose __init__ re-exports same-named types of one sub-module: a type of another sub-module must still be found
under its own dotted module path (C07, C09)."""
from lv_pkg.other import V2, Color  # noqa
