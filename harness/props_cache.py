"""Checks for the cache properties:
   C06/C08 (and the store-level half of C09): histories of Lab operations on a real storage against Model/Lab.v;
   C12: exception injection during a save against Model/Cache.v (failed_save);
   C13: killing the writer during a save against Model/Cache.v (crashed_save)."""
import json
import logging
import multiprocessing
import os
import pathlib
import pickle
import random
import shutil
import sys
import tempfile
from collections import Counter
from datetime import datetime, timedelta

import fsspec
from fsspec.implementations.local import LocalFileSystem
from fsspec.implementations.memory import MemoryFileSystem

import labtech
from labtech.exceptions import LabError
from labtech.lab import Lab
from labtech.runners import SerialRunnerBackend
from labtech.storage import FsspecStorage, LocalStorage, NullStorage
from labtech.types import ResultMeta, Storage, TaskResult

import lv_universe as U
import sched_h as S
from common import coq_failing, rng_for, CoqError, g_list, g_nats, g_bool, g_pair, g_val, g_opt, subdir
from common import storage_of, PY

logging.getLogger('labtech').setLevel(logging.CRITICAL)


CWD0 = os.getcwd()


class LocalFsspec(FsspecStorage):
    def fs_constructor(self):
        return LocalFileSystem()


class MemoryFsspec(FsspecStorage):
    def fs_constructor(self):
        return MemoryFileSystem()


def make_storage(kind, workdir):
    if kind == 'local':
        return LocalStorage(os.path.join(workdir, 'store'))
    if kind == 'local-relative':
        # the storage directory is given relative to the working directory of the moment; the process moves on afterwards
        os.chdir(workdir)
        st = LocalStorage('store')
        os.makedirs(os.path.join(workdir, 'elsewhere', 'store'), exist_ok=True)
        os.chdir(os.path.join(workdir, 'elsewhere'))
        return st
    if kind == 'fsspec-local':
        return LocalFsspec(os.path.join(workdir, 'fstore'))
    if kind == 'fsspec-memory':
        MemoryFileSystem.store.clear()
        MemoryFileSystem.pseudo_dirs[:] = ['']
        return MemoryFsspec('/lvmem')
    if kind == 'null':
        return None
    raise ValueError(kind)


# ------------------------------------------------------------------ histories (C06, C08, C09 store level)

def gen_history(rng, tier):
    case = S.gen_case(rng, max_n=6, p_fail=0.1, runner=rng.choice(['l1', 'l1', 'serial', 'serial', 'fork']), ntypes=12, p_unpicklable=0.4)
    case['pre'] = []
    case['storage'] = 'local'
    if rng.random() < 0.3:
        # some tasks are cached by a cache class that is nested in another class
        case['types'] = [14 if (ty in (0, 8, 10) and rng.random() < 0.6) else ty for ty in case['types']]
    n = case['n']
    ops = []
    for _ in range(rng.randint(2, 8 if tier == 'quick' else 16)):
        r = rng.random()
        if r < 0.45:
            k = rng.randint(1, min(n, 3))
            fails = sorted(rng.sample(range(n), rng.randint(1, min(n, 2)))) if rng.random() < 0.3 else []
            ops.append(['run', [[t, rng.choice([0, 0, 1])] for t in rng.sample(range(n), k)], rng.random() < 0.25, rng.random() < 0.75, fails])
        elif r < 0.6:
            ops.append(['uncache', rng.sample(range(n), rng.randint(1, min(n, 3)))])
        elif r < 0.8:
            ops.append(['is_cached', rng.randrange(n)])
        else:
            ops.append(['cached', sorted(rng.sample(list(range(12)) + [14], rng.randint(1, 4)))])
    if rng.random() < 0.3 and n >= 2:
        # directed pattern: a run that is abandoned at the first failure, then a run in which a dependency fails
        # (state surviving the abandoned run must not leak into the next one)
        everything = [[t, 0] for t in range(n)]
        rng.shuffle(everything)
        with_dependents = [d for d in range(n) if any(d in S.deps_of(case, t) for t in range(n))] or [0]
        ops = [['run', everything, rng.random() < 0.3, False, [rng.randrange(n)]],
               ['run', everything, rng.random() < 0.7, True, [rng.choice(with_dependents)]]] + ops[:3]
    elif rng.random() < 0.3 and n >= 2:
        # directed pattern: everything is cached, then only some dependencies are uncached, then their (still cached)
        # dependents are requested again: a cached task needs nothing from its dependencies
        everything = [[t, 0] for t in range(n)]
        with_dependents = [d for d in range(n) if any(d in S.deps_of(case, t) for t in range(n))]
        if with_dependents:
            gone = rng.sample(with_dependents, rng.randint(1, len(with_dependents)))
            tops = [t for t in range(n) if t not in gone] or [n - 1]
            ops = [['run', everything, False, True, []], ['uncache', gone],
                   ['run', [[t, 0] for t in rng.sample(tops, rng.randint(1, len(tops)))], False, True, []],
                   ['cached', sorted(rng.sample(list(range(12)) + [14], 4))]] + ops[:3]
    elif rng.random() < 0.25:
        # directed pattern (for the histories that use two long-lived Lab objects in turn): one Lab has seen the entry, the
        # other removes it, a run replaces it: the first one's answers follow the store, not what it saw before
        everything = [[t, 0] for t in range(n)]
        t = rng.randrange(n)
        ops = [['run', everything, False, True, []], ['is_cached', t], ['uncache', [t]], ['is_cached', t],
               ['run', [[t, 0]], False, True, []], ['is_cached', t], ['uncache', [t]], ['cached', sorted(rng.sample(list(range(12)) + [14], 4))], ['is_cached', t]] + ops[:2]
    if case['runner'] == 'fork':
        # a real worker saves its result on its own; when run_tasks raises at the first failure, results of workers whose
        # completion was never processed are (legitimately) in the cache although the coordinator never saw them: the
        # run-level model has no oracle for that, so process-runner histories always continue on failure
        for op in ops:
            if op[0] == 'run':
                op[3] = True
    provider = rng.choice(['local', 'local', 'local-relative', 'fsspec-local', 'fsspec-memory', 'null'])
    if provider == 'fsspec-memory' and case['runner'] == 'fork':
        case['runner'] = 'serial'      # an in-memory filesystem written by a forked worker is not visible to the caller
    return dict(case=case, ops=ops, provider=provider, seed=rng.randrange(1 << 30))


def run_history(h):
    case = h['case']
    workdir = tempfile.mkdtemp(dir=subdir('hist'))
    try:
        storage = make_storage(h['provider'], workdir)
        built = S.Built(case)
        outs, oracles = [], []
        problems = []
        rng = random.Random(h['seed'])
        exec_counts = Counter()
        faildir = os.path.join(workdir, 'fail')
        os.makedirs(faildir, exist_ok=True)
        os.environ['LV_FAILDIR'] = faildir
        epoch = 0
        stored = {}     # task id -> full value (with epoch) of its last successful execution under a caching type
        # in half of the histories the operations other than runs go through two long-lived Lab objects, used in turn (what
        # one of them did to the store, or a run did, must show in the answers of the other); in the others each gets a new Lab
        use_sessions = h.get('sessions', h['seed'] % 2 == 0) and h['provider'] != 'local-relative'
        sessions = {}

        def query_lab(opno):
            if not use_sessions:
                return Lab(storage=storage, runner_backend='serial', notebook=False)
            if opno % 2 not in sessions:
                sessions[opno % 2] = Lab(storage=storage, runner_backend='serial', notebook=False)
            return sessions[opno % 2]
        for opno, op in enumerate(h['ops']):
            if h['provider'] == 'local-relative':
                # the process keeps changing its working directory between operations
                alt = os.path.join(workdir, f'elsewhere{opno % 2}')
                os.makedirs(os.path.join(alt, 'store'), exist_ok=True)
                os.chdir(alt)
            if op[0] == 'run':
                epoch += 1
                os.environ['LV_EPOCH'] = f'run{epoch}'
                for f in os.listdir(faildir):
                    os.unlink(os.path.join(faildir, f))
                for t in (op[4] if len(op) > 4 else []):
                    open(os.path.join(faildir, f'fail_{t}'), 'w').close()
                rec = S.Recorder(built.tid_of)
                if case['runner'] == 'l1':
                    backend = S.L1Backend(rng, rec)
                elif case['runner'] == 'fork':
                    from labtech.runners import ForkRunnerBackend
                    backend = S.SpyBackend(ForkRunnerBackend(), rec)
                else:
                    backend = S.SpyBackend(SerialRunnerBackend(), rec)
                lab = Lab(storage=storage, continue_on_failure=op[3], runner_backend=backend, notebook=False, context={})
                req = [built.canon[t] if mode == 0 else built._fresh(t, mode) for t, mode in op[1]]
                for o in req:
                    built.tid_of.setdefault(o, o.label)
                was_cached = {t: lab.is_cached(built.canon[t]) for t in range(case['n'])}
                _before = sorted(t for t, v in was_cached.items() if v)
                try:
                    if len(req) == 1 and (opno + len(h['ops'])) % 2 == 0:
                        # the single-task front end: Lab.run_task(task, **the same keyword arguments)
                        try:
                            res = {req[0]: lab.run_task(req[0], bust_cache=op[2], disable_progress=True, disable_top=True)}
                        except KeyError:
                            res = {}        # (run_task indexes the result dict: a failed task has no entry there)
                    else:
                        res = lab.run_tasks(req, bust_cache=op[2], disable_progress=True, disable_top=True)
                    outs.append(['returned', [[built.tid_of[k], v] for k, v in res.items()]])
                    for k, v in res.items():
                        if k.result_meta is None:
                            problems.append(('no-result-meta', f'requested task {built.tid_of[k]} returned without result_meta'))
                        elif storage is not None and S.CACHEABLE[case['types'][built.tid_of[k]]]:
                            sm = stored_meta(storage_of(lab), k)
                            if sm is not None and (sm != (k.result_meta.start, k.result_meta.duration)):
                                problems.append(('result-meta-differs', f'task {built.tid_of[k]} returned with result_meta {k.result_meta} but the entry stored for it records {sm}'))
                    # C02: nothing may succeed on a dependency that failed in this very call
                    fin = {e[1]: e[2] for e in rec.ev if e[0] == 'finish'}
                    loaded_now = {e[1] for e in rec.ev if e[0] == 'submit' and e[2]}
                    for t, v in fin.items():
                        if v is not None and t not in loaded_now:
                            found = S.flat_spec(case['specs'][t])
                            bad = [found[i] for i in case['reads'][t] if found[i] in fin and fin[found[i]] is None]
                            if bad:
                                problems.append(('stale-read-of-failed-dep', f'task {t} computed a result in a run in which the dependencies {bad} it reads had failed'))
                            # C01: what an executed task read is what its dependencies yielded in this very call (values carry
                            # the epoch of the run_tasks call that computed them, so a value kept from an earlier call shows)
                            for k, i in enumerate(case['reads'][t]):
                                if fin.get(found[i]) is not None and tuple(v[2][k]) != tuple(fin[found[i]]):
                                    problems.append(('stale-dependency-value', f'task {t} was executed in run {epoch} and read {v[2][k]!r} from dependency {found[i]}, '
                                                                               f'which yielded {fin[found[i]]!r} in this run'))
                except S.Deadlock:
                    outs.append(['stuck'])
                except LabError:
                    fails = [e[1] for e in rec.ev if e[0] == 'finish' and e[2] is None]
                    outs.append(['laberror', fails[-1] if fails else -1])
                except BaseException as e:   # noqa
                    outs.append(['other', repr(e)[:200]])
                # a task fails only if it is made to fail or reads a dependency that failed in this call
                fin_now = {e[1]: e[2] for e in rec.ev if e[0] == 'finish'}
                forced = set(op[4] if len(op) > 4 else [])
                for t, v in fin_now.items():
                    if v is None and case['behs'][t] == 'ok' and t not in forced:
                        found = S.flat_spec(case['specs'][t])
                        if not any(fin_now.get(found[i], 0) is None for i in case['reads'][t]):
                            problems.append(('spurious-failure', f"task {t} failed ({rec.excs.get(t)}) although it is not a failing task and every dependency result it reads was produced in this call"))
                            break
                # by the harness's own bookkeeping (not is_cached): a task stored by an earlier call and not uncached since is loaded
                if not op[2]:
                    again = [e[1] for e in rec.ev if e[0] == 'submit' and not e[2] and e[1] in stored]
                    if again:
                        problems.append(('cached-but-executed', f'tasks {again} were executed again although an earlier call had stored their results and nothing uncached them'))
                # C06: a loaded result is the one the last successful execution produced (epoch included)
                will_load = {e[1] for e in rec.ev if e[0] == 'submit' and e[2]}
                for e in rec.ev:
                    if e[0] == 'finish' and e[2] is not None:
                        if e[1] in will_load:
                            if e[1] in stored and tuple(e[2]) != tuple(stored[e[1]]):
                                problems.append(('loaded-value-differs', f'task {e[1]} was loaded from the cache as {e[2]!r}; its last successful execution returned {stored[e[1]]!r}'))
                        elif h['provider'] != 'null' and S.CACHEABLE[case['types'][e[1]]]:
                            stored[e[1]] = e[2]
                oracles.append(rec.batches)
                _after = sorted(t for t in range(case['n']) if lab.is_cached(built.canon[t]))
                lost = [t for t in _before if t not in _after]
                if lost:
                    problems.append(('entry-lost-by-run', f'tasks {lost} were cached before a run_tasks call and are not cached after it (nothing uncached them)'))
                ok_exec = {e[1] for e in rec.ev if e[0] == 'finish' and e[2] is not None}
                extra = [t for t in _after if t not in _before and t not in ok_exec]
                if extra and case['runner'] != 'fork':
                    problems.append(('entry-appeared', f'tasks {extra} became cached in a run_tasks call in which they did not complete successfully'))
                # nothing outside what this call needs (requested tasks, and the dependencies of those it has to execute) is touched
                need = S.py_needed(dict(case, pre=(_before if case['storage'] != 'none' and h['provider'] != 'null' else []), req=op[1], bust=op[2]))
                unneeded = [t for t in _after if t not in _before and t not in need]
                if unneeded:
                    problems.append(('entry-appeared-unneeded', f'tasks {unneeded} were executed and stored by a run_tasks call that did not need them (requested {[t for t, _ in op[1]]}, cached before: {_before})'))
                if op[2]:
                    loaded_under_bust = [e[1] for e in rec.ev if e[0] == 'submit' and e[2]]
                    if loaded_under_bust:
                        problems.append(('loaded-under-bust', f'bust_cache=True, yet tasks {loaded_under_bust} were loaded from the cache instead of being executed again'))
                # C06 monitor: a task that was cached (and bust is off) must be loaded, not executed
                for e in rec.ev:
                    if e[0] == 'submit' and not op[2] and was_cached[e[1]] and not e[2]:
                        problems.append(('cached-but-executed', f'task {e[1]} was cached but was executed again'))
            elif op[0] == 'uncache':
                lab = query_lab(opno)
                for t in op[1]:
                    stored.pop(t, None)
                try:
                    lab.uncache_tasks([built.canon[t] for t in op[1]])
                    outs.append(['unit'])
                    left = [t for t in op[1] if lab.is_cached(built.canon[t])]
                    if left:
                        problems.append(('uncache-left-entry', f'uncache_tasks({op[1]}) returned but tasks {left} are still reported as cached'))
                except BaseException as e:   # noqa
                    outs.append(['other', repr(e)[:200]])
                oracles.append(None)
            elif op[0] == 'is_cached':
                lab = query_lab(opno)
                try:
                    ans = bool(lab.is_cached(built.canon[op[1]]))
                    outs.append(['bool', ans])
                    if use_sessions:
                        fresh = bool(Lab(storage=storage, runner_backend='serial', notebook=False).is_cached(built.canon[op[1]]))
                        if fresh != ans:
                            problems.append(('lab-answer-stale', f'is_cached(task {op[1]}) is {ans} on a Lab object that has been in use since earlier operations and {fresh} on a new '
                                                                 'Lab over the same storage: the answer follows what that object saw earlier, not the store'))
                except BaseException as e:   # noqa
                    outs.append(['other', repr(e)[:200]])
                oracles.append(None)
            else:
                lab = query_lab(opno)
                try:
                    found = lab.cached_tasks([S.SCHED[i] for i in op[1]])
                    tids = []
                    for t in found:
                        if t not in built.tid_of:
                            problems.append(('foreign-task', f'cached_tasks returned a task that was never stored: {t!r}'))
                        else:
                            tids.append(built.tid_of[t])
                            if t.cache_key != built.canon[built.tid_of[t]].cache_key:
                                problems.append(('key-differs', 'reconstructed task has another cache_key'))
                            if t.result_meta is None or t.result_meta.start is None:
                                problems.append(('no-meta', 'reconstructed task carries no stored result_meta'))
                            if not lab.is_cached(t):
                                problems.append(('listed-not-cached', f'cached_tasks lists task {built.tid_of[t]} but is_cached says False for the listed object'))
                    missing = [t for t in stored if case['types'][t] in op[1] and t not in tids]
                    if missing:
                        problems.append(('stored-not-listed', f'cached_tasks for types {op[1]} does not list tasks {missing}, which earlier calls stored and nothing uncached'))
                    if len(tids) != len(set(tids)):
                        problems.append(('listed-twice', f'cached_tasks listed a task more than once: {sorted(tids)}'))
                    outs.append(['list', sorted(set(tids))])
                except BaseException as e:   # noqa
                    outs.append(['other', repr(e)[:200]])
                oracles.append(None)
        lab = Lab(storage=storage, runner_backend='serial', notebook=False)
        final = sorted(t for t in range(case['n']) if lab.is_cached(built.canon[t]))
        # C06: the equal task built from the canonical spelling (what a parameter-rewriting post_init leaves) is the same task
        for t in final:
            c = built.canon[t]
            if type(c) is U.TRw:
                same = U.TRw(label=c.label, deps=c.deps, beh=c.beh, reads=c.reads, talk=c.talk)
                if same == c and not lab.is_cached(same):
                    problems.append(('equal-task-not-cached', f'task {t} is cached, but the equal task built from the spelling its post_init canonicalises to '
                                                               f'({c.beh!r}) is reported as not cached (keys {c.cache_key} / {same.cache_key})'))
                    break
        # C06 probe: a same-named task type of another module with the same parameter values is a different task;
        # it was never run, so it is not cached and running it never yields what was stored for its namesake
        import lv_universe2 as U2
        for t in final:
            c = built.canon[t]
            if type(c).__qualname__ not in U2.TWINS:
                continue
            twin = U2.TWINS[type(c).__qualname__](label=c.label, deps=c.deps, beh=c.beh, reads=c.reads, talk=c.talk)
            try:
                if lab.is_cached(twin):
                    got = lab.run_tasks([twin], disable_progress=True, disable_top=True).get(twin)
                    problems.append(('other-task-served', f'task {t} is cached; the same-named task of another module with equal parameters, never run, is reported '
                                                           f'as cached and run_tasks returned {got!r} for it'))
                    break
            except BaseException as e:   # noqa
                problems.append(('other-task-served', f'probing the twin of task {t} raised {e!r}'))
                break
        return dict(outs=outs, oracles=oracles, final=final, problems=problems)
    finally:
        os.environ.pop('LV_FAILDIR', None)
        os.environ.pop('LV_EPOCH', None)
        os.chdir(CWD0)
        shutil.rmtree(workdir, ignore_errors=True)


def stored_meta(storage, task):
    """(start, duration) recorded in the entry's metadata file, read directly from the storage."""
    try:
        with storage.file_handle(task.cache_key, 'metadata.json', mode='r') as f:
            md = json.load(f)
        return (datetime.fromisoformat(md['start_timestamp']) if md.get('start_timestamp') else None,
                timedelta(seconds=md['duration_seconds']) if md.get('duration_seconds') is not None else None)
    except BaseException:   # noqa
        return None


def emit_history(h, obs):
    case = dict(h['case'])
    if h['provider'] == 'null':
        case['storage'] = 'none'
    ops, outs = [], []
    for op, out, orc in zip(h['ops'], obs['outs'], obs['oracles']):
        if op[0] == 'run':
            oracle = g_list([g_list([g_pair(t, g_nats(order)) for t, order in b]) for b in orc])
            ops.append(f'LRun {g_nats([t for t, _ in op[1]])} {g_bool(op[2])} {g_bool(op[3])} {g_nats(op[4] if len(op) > 4 else [])} {oracle}')
        elif op[0] == 'uncache':
            ops.append(f'LUncache {g_nats(op[1])}')
        elif op[0] == 'is_cached':
            ops.append(f'LIsCached {op[1]}')
        else:
            ops.append(f'LCached {g_nats(op[1])}')
        if out[0] == 'returned':
            outs.append('ORun (Returned ' + g_list([g_pair(t, S.g_val_safe(v)) for t, v in out[1]]) + ')')
        elif out[0] == 'laberror':
            outs.append(f'ORun (RaisedLabError {out[1]})' if out[1] >= 0 else 'ORun BadOracle')
        elif out[0] == 'stuck':
            outs.append('ORun Stuck')
        elif out[0] == 'unit':
            outs.append('OUnit')
        elif out[0] == 'bool':
            outs.append(f'OBool {g_bool(out[1])}')
        elif out[0] == 'list':
            outs.append(f'OList {g_nats(out[1])}')
        else:
            outs.append('ORun BadOracle')
    return '{| h_cfg := %s; h_ops := %s; h_outs := %s; h_final := %s |}' % (
        S.emit_cfg(case), g_list(ops), g_list(outs), g_nats(obs['final']))


LAB_IMPORTS = 'Require Import LT.Model.Base LT.Model.Sched LT.Model.Lab LT.Gen.SrcParams.\n'
HIST_VOLUME = {'quick': 250, 'thorough': 4000}


def stage_unreadable_entry(report, dist):
    """C02, directed: the cache entry of a task with dependencies exists but cannot be read (truncated data file).  The task
    is reported as cached, so its dependencies are not part of the next run_tasks call; whatever that call does with the
    task, its run() must not begin (none of its dependencies has finished executing or loading in this call)."""
    from labtech.runners import ForkRunnerBackend
    for backend in ('serial', 'fork'):
        workdir = tempfile.mkdtemp(dir=subdir('unread'))
        recdir = os.path.join(workdir, 'rec')
        os.makedirs(recdir)
        try:
            leaves = [U.Ta(label=i) for i in range(3)]
            parent = U.Tab(label=100, deps={'a': [leaves[0], leaves[1]], 'b': (leaves[2],)}, reads=(0, 1, 2))
            tid_of = {parent: 100, **{l: l.label for l in leaves}}
            storage = os.path.join(workdir, 's')
            Lab(storage=storage, runner_backend='serial', notebook=False).run_tasks([parent], disable_progress=True, disable_top=True)
            path = os.path.join(storage, parent.cache_key, 'data.pickle')
            with open(path, 'r+b') as f:
                f.truncate(3)
            os.environ['LV_RECDIR'] = recdir
            rec = S.Recorder(tid_of)
            inner = SerialRunnerBackend() if backend == 'serial' else ForkRunnerBackend()
            lab = Lab(storage=storage, runner_backend=S.SpyBackend(inner, rec), notebook=False, continue_on_failure=True)
            res = lab.run_tasks([parent], disable_progress=True, disable_top=True)
            dist['unreadable_entry_runs'] += 1
            started = set()
            for fn in os.listdir(recdir):
                with open(os.path.join(recdir, fn)) as fh:
                    r = json.load(fh)
                if r['kind'] == 'start':
                    started.add(r['label'])
            done_deps = {e[1] for e in rec.ev if e[0] == 'finish' and e[2] is not None}
            if 100 in started and not {0, 1, 2} <= done_deps:
                report.violation('C02:started-before-deps',
                                 f"backend {backend}: the task's cache entry was unreadable; its run() began in a run_tasks call in which its dependencies "
                                 f'{sorted({0, 1, 2} - done_deps)} had neither been executed nor loaded (returned: {parent in res})',
                                 dict(level='unreadable-entry', backend=backend))
                return
        finally:
            os.environ.pop('LV_RECDIR', None)
            shutil.rmtree(workdir, ignore_errors=True)


def stage_zero_duration(report):
    """C06, directed: an entry whose recorded duration is exactly zero (coarse clock) loads with that duration, not without one."""
    d = tempfile.mkdtemp(dir=subdir('zero'))
    try:
        st = LocalStorage(os.path.join(d, 's'))
        for t in (U.Ta(label=1), U.TJ(label=2)):
            meta = ResultMeta(start=datetime(2021, 3, 4, 5, 6, 7), duration=timedelta(0))
            t._lt.cache.save(st, t, TaskResult(value=('N', t.label, ()), meta=meta))
            got = t._lt.cache.load_result_with_meta(st, t).meta
            if got.start != meta.start or got.duration != meta.duration:
                report.violation('C06:result-meta-differs', f'an entry saved with {meta} loads with result_meta {got}', dict(level='zero-duration'))
                return
    finally:
        shutil.rmtree(d, ignore_errors=True)


def stage_second_interpreter(report, tier):
    """C06 across interpreters: a family of multi-parameter tasks (tuple and dict parameters, two cache formats) is run in one
    fresh interpreter, then again in another one with a different hash seed and another backend, on the same storage: the
    second run must find every task cached, execute nothing, return equal values and the originally recorded result_meta."""
    import subprocess
    here = os.path.dirname(os.path.abspath(__file__))
    combos = [('serial', 'fork', 1, 4242), ('fork', 'serial', 7, 2)] + ([('spawn', 'fork', 3, 11), ('fork', 'spawn', 5, 6)] if tier == 'thorough' else [])
    for first, second, hs1, hs2 in combos:
        d = tempfile.mkdtemp(dir=subdir('second'))
        try:
            outs = []
            for k, (backend, hs) in enumerate(((first, hs1), (second, hs2))):
                rec = os.path.join(d, f'rec{k}')
                os.makedirs(rec)
                cfg = dict(storage=os.path.join(d, 'store'), backend=backend, n=7, recdir=rec, result_file=os.path.join(d, f'res{k}.json'))
                env = dict(os.environ, PYTHONHASHSEED=str(hs), PYTHONPATH=os.environ.get('LV_REPO', '/repo') + ':' + here)
                env.pop('LV_EPOCH', None)
                p = subprocess.run([PY, os.path.join(here, 'l3_second_run.py'), json.dumps(cfg)], env=env, stdout=subprocess.PIPE,
                                   stderr=subprocess.PIPE, stdin=subprocess.DEVNULL, text=True, timeout=300)
                if p.returncode != 0 or not os.path.exists(cfg['result_file']):
                    report.violation('C06:second-run-raised', f'run {k + 1} ({backend}, PYTHONHASHSEED={hs}) of the same tasks on one storage failed: '
                                                              f'{p.stderr[-300:]}', dict(level='second-interpreter', first=first, second=second))
                    outs = None
                    break
                outs.append(json.load(open(cfg['result_file'])))
            if outs is None:
                continue
            a, b = outs
            what = dict(level='second-interpreter', first=first, second=second, hashseeds=[hs1, hs2])
            if a['keys'] != b['keys']:
                report.violation('C06:key-differs-across-interpreters', f'the same tasks have other cache keys in a fresh interpreter with PYTHONHASHSEED={hs2}', what)
            elif sorted(b['cached_before']) != list(range(7)):
                report.violation('C06:not-cached-in-new-process', f"after a complete first run only tasks {b['cached_before']} are reported cached in a new process", what)
            elif b['executed']:
                report.violation('C06:cached-but-executed', f"the second run (new process, {second}) executed tasks {b['executed']} again", what)
            elif a['values'] != b['values']:
                report.violation('C06:loaded-value-differs', 'the second run (new process) returned other values than the first', what)
            elif a['metas'] != b['metas']:
                report.violation('C06:result-meta-differs', 'the second run (new process) set another result_meta than the first run recorded', what)
        finally:
            shutil.rmtree(d, ignore_errors=True)


def stage_main_script_types(report, prop):
    """C06 / C07: task types defined in the started script (module __main__), one with a post_init, under spawn (whose workers
    import the script under another module name) and fork: the key a worker stores under is the key the caller computed, so the
    tasks are cached after the run and a second run executes nothing."""
    import subprocess
    here = os.path.dirname(os.path.abspath(__file__))
    for backend in ('spawn', 'fork'):
        d = tempfile.mkdtemp(dir=subdir('mainscript'))
        try:
            os.makedirs(os.path.join(d, 'rec'))
            cfg = dict(storage=os.path.join(d, 'store'), backend=backend, recdir=os.path.join(d, 'rec'), result_file=os.path.join(d, 'res.json'))
            env = dict(os.environ, PYTHONPATH=os.environ.get('LV_REPO', '/repo') + ':' + here)
            env.pop('LV_EPOCH', None)
            what = dict(level='main-script', backend=backend)
            p = subprocess.run([PY, os.path.join(here, 'l3_main_types.py'), json.dumps(cfg)], env=env, stdout=subprocess.PIPE,
                               stderr=subprocess.PIPE, stdin=subprocess.DEVNULL, text=True, timeout=300)
            if p.returncode != 0 or not os.path.exists(cfg['result_file']):
                report.violation(f'{prop}:second-run-raised', f'a script that defines its task types itself failed under the {backend} backend: {p.stderr[-300:]}', what)
                continue
            out = json.load(open(cfg['result_file']))
            foreign = [k for k in out['stored_keys'] if k not in out['keys'].values()]
            missing = [t for t, c in out['cached_after'].items() if not c]
            if foreign or (prop == 'C07' and missing):
                report.violation(f'{prop}:key-differs-across-processes', f'task types defined in the started script, {backend} backend: the workers stored entries under keys '
                                                                         f'{foreign[:3]} that are not the keys the caller computed ({sorted(out["keys"].values())[:4]} ..)', what)
            elif missing:
                report.violation(f'{prop}:not-cached-after-run', f'task types defined in the started script, {backend} backend: after a successful run {missing} are not reported cached', what)
            elif out['executed_again']:
                report.violation(f'{prop}:cached-but-executed', f'task types defined in the started script, {backend} backend: the second run executed {out["executed_again"]} tasks again', what)
            elif out['values'] != out['values2']:
                report.violation(f'{prop}:loaded-value-differs', 'the second run returned other values than the first', what)
        finally:
            shutil.rmtree(d, ignore_errors=True)


def stage_mimic_probe(report):
    """C06: a task whose dict parameter merely spells a cached nested task (or enum member) is a different task: after the real one
    was run and cached, the look-alike, never run, is not reported as cached."""
    import lv_universe as UU
    d = tempfile.mkdtemp(dir=subdir('mimic'))
    try:
        lab = Lab(storage=os.path.join(d, 'store'), runner_backend='serial', notebook=False)
        real = [UU.V2(x=UU.V2(x=1)), UU.V2(x=UU.Color.RED), UU.V2(x=(UU.V2(x=1), 2))]
        lab.run_tasks(real, disable_progress=True, disable_top=True)
        looks = [UU.V2(x={'_is_task': True, '__class__': 'lv_universe.V2', 'x': 1}),
                 UU.V2(x={'_is_enum': True, '__class__': 'lv_universe.Color', 'name': 'RED'}),
                 UU.V2(x=({'_is_task': True, '__class__': 'lv_universe.V2', 'x': 1}, 2))]
        for r, l in zip(real, looks):
            if lab.is_cached(l) or l.cache_key == r.cache_key:
                report.violation('C06:other-task-served', f'{l!r}, never run, is reported as cached after {r!r} was run: a hit would return what was stored for '
                                                          f'a different task', dict(level='mimic'))
                return
    finally:
        shutil.rmtree(d, ignore_errors=True)


def run_histories(prop, report, tier, seed, replay=None):
    if prop == 'C06' and (replay is None or replay['input'].get('level') == 'mimic'):
        stage_mimic_probe(report)
        if replay is not None:
            return
    if prop == 'C06' and (replay is None or replay['input'].get('level') == 'main-script'):
        stage_main_script_types(report, prop)
        if replay is not None:
            return
    if prop == 'C06' and (replay is None or replay['input'].get('level') == 'second-interpreter'):
        stage_second_interpreter(report, tier)
        if replay is not None:
            return
    if prop == 'C06' and (replay is None or replay['input'].get('level') == 'zero-duration'):
        stage_zero_duration(report)
        if replay is not None:
            return
    if prop in ('C06', 'C08') and (replay is None or replay['input'].get('level') == 'nested-names'):
        import props_sched
        props_sched.stage_nested_names(report, Counter(), prop=prop)
        if replay is not None:
            return
    if prop == 'C02' and (replay is None or replay['input'].get('level') == 'unreadable-entry'):
        stage_unreadable_entry(report, Counter())
        if replay is not None:
            return
    if replay is not None and 'history' not in replay['input']:
        return          # the replayed input belongs to another stage of this property
    rng = rng_for(seed, prop, 'hist')
    hs = [replay['input']['history']] if replay else [gen_history(rng, tier) for _ in range(HIST_VOLUME[tier])]
    terms, kept = [], []
    dist = Counter()
    distinct = set()
    for h in hs:
        obs = run_history(h)
        dist[f"provider={h['provider']}"] += 1
        dist[f"len={len(h['ops'])}"] += 1
        for out in obs['outs']:
            dist[f'out={out[0]}'] += 1
        owner = {'entry-lost-by-run': ['C08', 'C06'], 'entry-appeared': ['C08'], 'entry-appeared-unneeded': ['C08', 'C03'], 'cached-but-executed': ['C06', 'C03'], 'no-result-meta': ['C06'], 'result-meta-differs': ['C06', 'C03'],
                 'other-task-served': ['C06'], 'equal-task-not-cached': ['C06', 'C07', 'C03'], 'loaded-value-differs': ['C06', 'C08', 'C03'], 'uncache-left-entry': ['C08'], 'lab-answer-stale': ['C08', 'C06'], 'loaded-under-bust': ['C08', 'C01', 'C02'], 'stale-read-of-failed-dep': ['C02', 'C10'], 'stale-dependency-value': ['C01', 'C02'],
                 'foreign-task': ['C09', 'C08'], 'key-differs': ['C09', 'C08'], 'no-meta': ['C09'], 'listed-twice': ['C09', 'C08'], 'listed-not-cached': ['C08', 'C09'], 'stored-not-listed': ['C08', 'C09'], 'spurious-failure': ['C17', 'C02', 'C01', 'C06', 'C08', 'C09']}
        for sig, what in obs['problems']:
            if prop in owner.get(sig, []):
                report.violation(f'{prop}:{sig}', what, dict(history=h))
        others = [o for o in obs['outs'] if o[0] == 'other']
        if others and prop == 'C08':
            sig = 'provider-error:' + h['provider'] if h['provider'].startswith('fsspec') else 'operation-raised'
            report.violation(f'C08:{sig}', f"a Lab operation raised on provider {h['provider']}: {others[0][1]}", dict(history=h))
        terms.append(emit_history(h, obs))
        kept.append((h, obs))
        if len([o for o in h['ops'] if o[0] == 'run']) >= 2 and len(h['ops']) >= 4:
            distinct.add(json.dumps(h, sort_keys=True))
    try:
        bad = coq_failing(f'corr_{prop}_hist', LAB_IMPORTS, terms, 'check_hcase sched_params', shard=150)
    except CoqError as e:
        bad = []
        report.broke('correspondence Lab.check_hcase could not be evaluated', str(e))
    if bad:
        known = [k for k in load_known_sigs(prop)]
        unexplained = [b for b in bad if not any(o[0] == 'other' for o in kept[b][1]['outs'])] if prop != 'C08' else bad
        # a history in which an operation raised is reported through the monitor (with its own signature)
        unexplained = [b for b in bad if not any(o[0] == 'other' for o in kept[b][1]['outs'])]
        if unexplained:
            h, obs = kept[unexplained[0]]
            report.broke(f'correspondence Model/Lab.v vs Lab operation histories: {len(unexplained)} of {len(terms)} histories differ',
                         first_case=dict(history=h, observed=dict(outs=obs['outs'], final=obs['final'])))
    report.coverage.update(
        evaluations=len(hs), distinct_nontrivial=len(distinct), traces_validated_against_impl=len(terms),
        correspondence_mismatches=len(bad),
        rule=('random histories of run_tasks (with/without bust_cache, continue flag, random requests incl. equal-but-distinct '
              'instances) / uncache_tasks / is_cached / cached_tasks over a generated task graph (<=6 tasks, failing tasks, '
              '11 task types incl. cache=None, prefix-related names and a second cache format) on LocalStorage, fsspec-local, '
              'fsspec-memory and storage=None; non-trivial = >=4 operations with >=2 runs'),
        distribution=dict(sorted(dist.items())),
        samples=[dict(history=h, outs=o['outs']) for h, o in kept[:2]])


def load_known_sigs(prop):
    from common import load_known
    return [k['signature'] for k in load_known() if k.get('property') == prop and k.get('status') == 'open']


# ------------------------------------------------------------------ fault injection and kills during a save (C12, C13)

class Fault(Exception):
    pass


class CountingFile:
    """Wraps the real file object: counts write()/close() as storage effects and injects the fault."""

    def __init__(self, st, f, binary):
        self.st, self.f, self.binary = st, f, binary
        self.buffered = []
        self.closed = False

    def write(self, data):
        if (self.st.kill and getattr(self.st, 'split', False) and self.st.armed and self.st.fail_after is not None
                and self.st.count >= self.st.fail_after and len(data) > 1 and not self.st.commit_at_close):
            # the writer dies in the middle of this write call: the first half of the data reached the file
            self.f.write(data[:len(data) // 2])
            for f in self.st.open_files:
                try:
                    f.flush()
                except Exception:
                    pass
            os._exit(9)
        self.st.before('write')
        if self.st.commit_at_close:
            # like an object store: nothing is durable before close() (which may fail)
            self.buffered.append(data)
            r = len(data)
        else:
            r = self.f.write(data)
        self.st.done('write')
        return r

    def flush(self):
        for data in self.buffered:
            self.f.write(data)
        self.buffered = []
        self.f.flush()

    def close(self):
        if self.closed:
            return
        self.st.before('close', file=self.f)
        self.flush()
        self.f.close()
        self.closed = True
        self.st.done('close')

    def __enter__(self):
        return self

    def __exit__(self, *a):
        self.close()
        return False

    def __getattr__(self, name):
        return getattr(self.f, name)


class FaultyStorage(Storage):
    """LocalStorage that performs mkdir and open as two separate effects, counts effects, and stops the writer
    (exception, or os._exit for kills) once `fail_after` effects have completed."""

    def __init__(self, inner, fail_after=None, kill=False, flushed=True, exc='exception', commit_at_close=False, root=None,
                 split=False, term=False):
        self.inner, self.fail_after, self.kill, self.flushed, self.exc = inner, fail_after, kill, flushed, exc
        self.root, self.split, self.term = root, split, term
        self.commit_at_close = commit_at_close
        self.count = 0
        self.trace = []
        self.armed = True
        self.open_files = []

    def _key_dir(self, key):
        """The directory of a key: through the storage's own (private) helper where it has the name this harness knows, else
        computed from the root the storage was created on, after the storage itself has validated the key."""
        helper = getattr(self.inner, '_key_to_path', None)
        if helper is not None:
            return pathlib.Path(helper(key))
        self.inner.exists(key)
        return pathlib.Path(self.root) / key

    def before(self, kind, file=None):
        if self.armed and self.fail_after is not None and self.count >= self.fail_after:
            self.armed = False
            if self.kill:
                if self.flushed:
                    for f in self.open_files:
                        try:
                            f.flush()
                        except Exception:
                            pass
                if self.term:
                    # what ProcessExecutor.stop() does to a worker on the second interrupt: SIGTERM, default disposition
                    import signal
                    import time
                    if self.term == 'handler':
                        # ... in an application that turns SIGTERM into SystemExit (a handler inherited by the forked worker):
                        # the save is ended by an exception, in the worker, and whatever it does about that happens
                        def _exit_handler(signum, frame):
                            raise SystemExit(143)
                        signal.signal(signal.SIGTERM, _exit_handler)
                        os.kill(os.getpid(), signal.SIGTERM)
                        time.sleep(10)
                        raise SystemExit(143)
                    signal.signal(signal.SIGTERM, signal.SIG_DFL)
                    os.kill(os.getpid(), signal.SIGTERM)
                    time.sleep(10)
                os._exit(9)
            if self.exc == 'interrupt':
                raise KeyboardInterrupt(f'injected before {kind} after {self.count} effects')
            raise Fault(f'injected before {kind} after {self.count} effects')

    def done(self, kind):
        self.count += 1
        self.trace.append(kind)

    def find_keys(self):
        return self.inner.find_keys()

    def exists(self, key):
        return self.inner.exists(key)

    def file_handle(self, key, filename, *, mode='r'):
        if not any(c in mode for c in 'wax+'):
            return self.inner.file_handle(key, filename, mode=mode)
        self.before('mkdir')
        kp = self._key_dir(key)
        kp.mkdir(exist_ok=True)
        self.done('mkdir')
        self.before('open')
        f = self.inner.file_handle(key, filename, mode=mode)
        self.done('open')
        cf = CountingFile(self, f, 'b' in mode)
        self.open_files.append(cf if self.commit_at_close else f)
        return cf

    def delete(self, key):
        return self.inner.delete(key)


RESULT_SHAPES = ['small', 'multiframe', 'unpicklable']


def make_result(shape, tag):
    if shape == 'small':
        return ('R', tag)
    if shape == 'multiframe':
        return ('R', tag, bytes(200_000), bytes(200_000))
    return ('R', tag, [U.Unpicklable()])


def fault_task(cache_kind, shape):
    if cache_kind == 'json':
        return U.TJ(label=1)
    if shape == 'multiframe':
        return U.TaBig(label=1)
    return U.Ta(label=1, beh='unpicklable' if shape == 'unpicklable' else 'ok')


NEW_VALUES = {}
OLD_VALUES = {'small': ('OLD', 1), 'large': ('OLD', 1, b'\x01' * 200_000, b'\x01' * 200_000)}


def save_counts(cache_kind, shape):
    """Dry run through the real run_or_load_task: the storage effects of one save (kinds, in order)."""
    d = tempfile.mkdtemp(dir=subdir('fault'))
    try:
        st = FaultyStorage(LocalStorage(os.path.join(d, 's')), root=os.path.join(d, 's'))
        lab = Lab(storage=st, continue_on_failure=True, runner_backend='serial', notebook=False)
        t = fault_task(cache_kind, shape)
        res = lab.run_tasks([t], bust_cache=True, disable_progress=True, disable_top=True)
        NEW_VALUES[(cache_kind, shape)] = res.get(t)
        return list(st.trace)
    finally:
        shutil.rmtree(d, ignore_errors=True)


def split_counts(trace):
    """(wm, wd) = write calls for the first / second file."""
    parts, cur = [], None
    for k in trace:
        if k == 'open':
            cur = 0
        elif k == 'write':
            cur += 1
        elif k == 'close':
            parts.append(cur)
    while len(parts) < 2:
        parts.append(0)
    return parts[0], parts[1]


def _inner_storage(d, kind):
    return LocalFsspec(os.path.join(d, 's')) if kind == 'fsspec' else LocalStorage(os.path.join(d, 's'))


def _child_save(d, cache_kind, shape, n, flushed, inner_kind='local', split=False, term=False):
    logging.getLogger('labtech').setLevel(logging.CRITICAL)
    st = FaultyStorage(_inner_storage(d, inner_kind), fail_after=n, kill=True, flushed=flushed, root=os.path.join(d, 's'), split=split, term=term)
    lab = Lab(storage=st, continue_on_failure=True, runner_backend='serial', notebook=False)
    try:
        lab.run_tasks([fault_task(cache_kind, shape)], bust_cache=True, disable_progress=True, disable_top=True)
    finally:
        os._exit(0)


class LineFault:
    """Raises an exception in the calling thread at the n-th 'line' event inside labtech's cache.py / storage.py (the save path
    below BaseCache.save), in this process only."""

    def __init__(self, target, exc):
        import threading
        self.target, self.exc = target, exc
        self.count, self.fired, self.where = 0, 0, None
        self.thread, self.pid = threading.get_ident(), os.getpid()
        base = os.path.join(os.environ.get('LV_REPO', '/repo'), 'labtech')
        self.files = (os.path.join(base, 'cache.py'), os.path.join(base, 'storage.py'))
        self.depth_in_save = 0

    def _local(self, frame, event, arg):
        if os.getpid() != self.pid:
            return None
        if event == 'line' and self.active():
            n = self.count
            self.count += 1
            if self.target is not None and n == self.target:
                self.fired += 1
                self.where = f'{os.path.basename(frame.f_code.co_filename)}:{frame.f_lineno} ({frame.f_code.co_name})'
                raise (KeyboardInterrupt if self.exc == 'interrupt' else Fault)(f'injected at line event {n} of the save path')
        return self._local

    def active(self):
        # only while BaseCache.save is on the stack
        import sys
        f = sys._getframe(2)
        while f is not None:
            if f.f_code.co_name == 'save' and f.f_code.co_filename == self.files[0]:
                return True
            f = f.f_back
        return False

    def _global(self, frame, event, arg):
        import threading
        if threading.get_ident() != self.thread or os.getpid() != self.pid:
            return None
        return self._local if frame.f_code.co_filename in self.files else None

    def __enter__(self):
        import sys
        sys.settrace(self._global)
        return self

    def __exit__(self, *a):
        import sys
        sys.settrace(None)


def run_fault(fc):
    """One save with a fault after fc['n'] effects (or at line event fc['line'] of the save path); returns what is observable
    afterwards."""
    d = tempfile.mkdtemp(dir=subdir('fault'))
    try:
        inner = _inner_storage(d, fc.get('inner', 'local'))
        t = fault_task(fc['cache'], fc['shape'])
        old_value = OLD_VALUES[fc.get('old') or 'small']
        if fc['overwrite']:
            if fc['cache'] == 'json':
                old_value = ('OLD', 1) if fc.get('old') != 'large' else ('OLD', 1, 'x' * 5000)
            t._lt.cache.save(inner, t, TaskResult(value=old_value, meta=ResultMeta(start=datetime(2020, 1, 1), duration=timedelta(seconds=1))))
            if fc.get('old') == 'large':
                # an old entry whose files are longer than the new ones (trailing whitespace is valid JSON): an overwrite
                # must not leave any of it behind
                with open(os.path.join(d, 's', t.cache_key, 'metadata.json'), 'a') as f:
                    f.write(' ' * 300 + '\n')
        reported_failed = None
        if fc['crash']:
            ctx = multiprocessing.get_context('fork')
            p = ctx.Process(target=_child_save, args=(d, fc['cache'], fc['shape'], fc['n'], fc['flushed'], fc.get('inner', 'local'),
                                                      bool(fc.get('split')), fc.get('term') or False))
            p.start()
            p.join(60)
        else:
            st = FaultyStorage(inner, fail_after=fc['n'], exc=fc.get('exc', 'exception'), commit_at_close=bool(fc.get('commit_at_close')),
                               root=os.path.join(d, 's'))
            lab = Lab(storage=st, continue_on_failure=True, runner_backend='serial', notebook=False)
            import contextlib
            lf = LineFault(fc['line'], fc.get('exc', 'exception')) if 'line' in fc else None
            same_lab_before = bool(lab.is_cached(t))       # the Lab that is about to run the save has already looked at the entry
            try:
                with (lf if lf is not None else contextlib.nullcontext()):
                    res = lab.run_tasks([t], bust_cache=True, disable_progress=True, disable_top=True)
                reported_failed = t not in res
            except KeyboardInterrupt:
                reported_failed = True          # the interrupt went through run_tasks: nothing was reported as done
            if lf is not None:
                fc['_line_events'], fc['_fired'], fc['_where'] = lf.count, lf.fired, lf.where
        lab2 = Lab(storage=inner, runner_backend='serial', notebook=False)
        cached = bool(lab2.is_cached(t))
        cached_same_lab = None
        if not fc['crash']:
            st.fail_after = 10 ** 9
            try:
                cached_same_lab = bool(lab.is_cached(t))       # ... and what that same Lab object says afterwards
            except BaseException as e:   # noqa
                cached_same_lab = 'raised ' + repr(e)[:80]
        loaded = None
        load_error = None
        if cached or cached_same_lab is True:
            try:
                v = t._lt.cache.load_result_with_meta(inner, t).value
                new_value = NEW_VALUES.get((fc['cache'], fc['shape']))
                loaded = 1 if v == old_value else (2 if (new_value is None or v == new_value) else 3)
            except BaseException as e:   # noqa
                load_error = repr(e)[:120]
        listed = False
        try:
            listed = any(x == t for x in lab2.cached_tasks([type(t)]))
        except BaseException as e:   # noqa
            listed = 'raised ' + repr(e)[:80]
        return dict(cached=cached, loaded=loaded, load_error=load_error, listed=listed, reported_failed=reported_failed, cached_same_lab=cached_same_lab)
    finally:
        shutil.rmtree(d, ignore_errors=True)


def emit_fcase(fc, obs, wm, wd):
    return ('{| fc_overwrite := %s; fc_wm := %d; fc_wd := %d; fc_n := %d; fc_crash := %s; fc_flushed := %s; '
            'fc_cached := %s; fc_loaded := %s |}' % (g_bool(fc['overwrite']), wm, wd, fc['n'], g_bool(fc['crash'] and fc.get('term') != 'handler'),
                                                     g_bool(fc['flushed']), g_bool(obs['cached']), g_opt(obs['loaded'])))


def crash_class(fc, trace):
    """Name of the kill point class (known_findings signatures)."""
    n = fc['n']
    if n == 0:
        return 'before-anything'
    if n >= len(trace):
        return 'after-save'
    closes = [i for i, k in enumerate(trace) if k == 'close']
    first_close = closes[0] if closes else len(trace)
    if n <= first_close:
        where = 'after-mkdir' if n == 1 else 'during-metadata'
    else:
        opens = [i for i, k in enumerate(trace) if k == 'open']
        where = 'between-metadata-and-data' if len(opens) < 2 or n <= opens[1] else 'during-data'
    return ('overwrite:' if fc['overwrite'] else 'first-save:') + where


CACHE_IMPORTS = 'Require Import LT.Model.Base LT.Model.Cache LT.Gen.SrcParams.\n'


def run_faults(prop, report, tier, seed, replay=None):
    crash = prop == 'C13'
    rng = rng_for(seed, prop, 'fault')
    fcs = []
    traces = {}
    for cache in ('pickle', 'json'):
        for shape in (RESULT_SHAPES if cache == 'pickle' else ['small']):
            traces[(cache, shape)] = save_counts(cache, shape)
    if replay:
        fcs = [replay['input']['fault']] if 'line' not in replay['input'].get('fault', {}) else []
    else:
        for (cache, shape), trace in traces.items():
            if crash and shape == 'unpicklable':
                continue
            points = list(range(len(trace) + (2 if crash else 1)))       # the last point: no fault at all
            if tier == 'quick' and len(points) > 16:
                fcl = trace.index('close') if 'close' in trace else 3
                keep = set(points[:4] + points[-5:] + [fcl - 1, fcl, fcl + 1, fcl + 2, fcl + 3, fcl + 4] + rng.sample(points, 3))
                points = sorted(k for k in keep if k in points)
            for n in points:
                for overwrite, old in ((False, None), (True, 'small'), (True, 'large')):
                    for flushed in ((True, False) if crash else (True,)):
                        fcs.append(dict(cache=cache, shape=shape, n=n, overwrite=overwrite, old=old, crash=crash, flushed=flushed))
                    if crash and n < len(trace) and old != 'large':
                        # the writer is terminated by SIGTERM (what the second interrupt does) instead of dying on the spot
                        fcs.append(dict(cache=cache, shape=shape, n=n, overwrite=overwrite, old=old, crash=True, flushed=False, term=True))
                        # ... or, where SIGTERM is turned into SystemExit by a handler the worker inherited, by an exception
                        fcs.append(dict(cache=cache, shape=shape, n=n, overwrite=overwrite, old=old, crash=True, flushed=True, term='handler'))
                        if trace[n] == 'write':
                            # ... or dies in the middle of the write call that would have been effect n+1
                            fcs.append(dict(cache=cache, shape=shape, n=n, overwrite=overwrite, old=old, crash=True, flushed=True, split=True))
                    if shape == 'small' and old != 'large':
                        # the same point on an fsspec-backed storage; and (exceptions only) the fault is a KeyboardInterrupt
                        fcs.append(dict(cache=cache, shape=shape, n=n, overwrite=overwrite, old=old, crash=crash, flushed=True, inner='fsspec'))
                        if not crash:
                            fcs.append(dict(cache=cache, shape=shape, n=n, overwrite=overwrite, old=old, crash=False, flushed=True, exc='interrupt'))
                            # a storage whose files become durable only when they are closed (close itself being a fault point)
                            fcs.append(dict(cache=cache, shape=shape, n=n, overwrite=overwrite, old=old, crash=False, flushed=True, commit_at_close=True))
    terms, kept = [], []
    dist = Counter()
    for fc in fcs:
        trace = traces[(fc['cache'], fc['shape'])]
        obs = run_fault(fc)
        wm, wd = split_counts(trace)
        dist[f"cache={fc['cache']},shape={fc['shape']}"] += 1
        dist[f"cached={obs['cached']},loaded={obs['loaded']}"] += 1
        bad = None
        if obs['loaded'] == 3:
            report.violation(f'{prop}:loads-wrong-value', f"after the {'kill' if crash else 'failed save'} the entry loads, but as a value that is neither the old nor the new result "
                                                        f"[{crash_class(fc, trace)}; cache={fc['cache']}, result={fc['shape']}, old entry={fc.get('old')}, effects completed={fc['n']}]",
                             dict(fault=fc, observed=obs))
        if obs['cached'] and obs['loaded'] is None:
            bad = ('cached-but-unloadable', f"after the {'kill' if crash else 'failed save'} the task is reported as cached but loading fails: {obs['load_error']}")
        elif obs.get('cached_same_lab') is True and obs['loaded'] is None:
            bad = ('cached-but-unloadable', f"after the failed save the Lab object that ran it still reports the task as cached (a fresh Lab does not), and loading fails: {obs['load_error']}")
        elif obs['listed'] is True and obs['loaded'] is None:
            bad = ('listed-but-unloadable', 'cached_tasks lists the task but it cannot be loaded')
        elif isinstance(obs['listed'], str):
            bad = ('cached-tasks-raised', f"cached_tasks {obs['listed']}")
        elif not crash and obs['reported_failed'] is False and fc['n'] < len(trace):
            bad = ('failure-not-reported', 'the save failed but the task was returned as successful')
        if bad is None and not crash and fc['n'] >= len(trace) and fc['shape'] != 'unpicklable' and (not obs['cached'] or obs['loaded'] != 2):
            bad = ('clean-save-not-loadable', f"no fault was injected, the save returned, but afterwards cached={obs['cached']} and loading gives "
                                              f"{'the new value' if obs['loaded'] == 2 else obs['load_error'] or obs['loaded']}")
        if bad:
            sig = f'{prop}:{crash_class(fc, trace)}' if crash else f'{prop}:{bad[0]}'
            if fc.get('term') == 'handler':
                sig = f'{prop}:sigterm-handler:{bad[0]}'
            report.violation(sig, f"{bad[1]} [{crash_class(fc, trace)}; cache={fc['cache']}, result={fc['shape']}, effects completed={fc['n']}, flushed={fc['flushed']}]",
                             dict(fault=fc, observed=obs))
        if (fc['n'] < len(trace) or crash) and not fc.get('split'):
            terms.append(emit_fcase(fc, obs, wm, wd))
            kept.append((fc, obs))
    # every executed line of the save path (cache.py / storage.py while BaseCache.save is on the stack): an exception, or a
    # KeyboardInterrupt, raised there
    if not crash and (replay is None or 'line' in replay['input'].get('fault', {})):
        lfcs = [replay['input']['fault']] if replay else []
        if not replay:
            # (results that pickle: with an unpicklable result the save fails by itself, and an injected exception would be a second fault)
            for cache, shape in (('pickle', 'small'), ('pickle', 'multiframe'), ('json', 'small')):
                for overwrite, old in ((False, None), (True, 'small')):
                    dry = dict(cache=cache, shape=shape, n=10 ** 9, overwrite=overwrite, old=old, crash=False, flushed=True, line=None)
                    run_fault(dry)
                    total = dry.get('_line_events', 0)
                    dist[f'save_path_line_events[{cache},{shape},{"overwrite" if overwrite else "first"}]'] = total
                    targets = list(range(total)) if (tier == 'thorough' or total <= 40) else sorted(rng.sample(range(total), 40))
                    for k, tgt in enumerate(targets):
                        lfcs.append(dict(cache=cache, shape=shape, n=10 ** 9, overwrite=overwrite, old=old, crash=False, flushed=True, line=tgt,
                                         exc='interrupt' if k % 3 == 2 else 'exception'))
        for fc in lfcs:
            fc = {k: v for k, v in fc.items() if not k.startswith('_')}
            obs = run_fault(fc)
            dist['line_faults'] += 1
            dist[f"line_fault: cached={obs['cached']},loaded={obs['loaded']}"] += 1
            where = fc.get('_where')
            bad = None
            if obs['loaded'] == 3:
                bad = ('loads-wrong-value', 'the entry loads, but as a value that is neither the old nor the new result')
            elif obs['cached'] and obs['loaded'] is None:
                bad = ('cached-but-unloadable', f"the task is reported as cached but loading fails: {obs['load_error']}")
            elif obs.get('cached_same_lab') is True and obs['loaded'] is None:
                bad = ('cached-but-unloadable', f"the Lab object that ran the failed save still reports the task as cached (a fresh Lab does not), and loading fails: {obs['load_error']}")
            elif obs['listed'] is True and obs['loaded'] is None:
                bad = ('listed-but-unloadable', 'cached_tasks lists the task but it cannot be loaded')
            elif isinstance(obs['listed'], str):
                bad = ('cached-tasks-raised', f"cached_tasks {obs['listed']}")
            elif fc.get('_fired') and obs['reported_failed'] is False and fc['shape'] != 'unpicklable':
                bad = ('failure-not-reported', 'an exception was raised inside the save but the task was returned as successful')
            if bad:
                report.violation(f'{prop}:{bad[0]}', f"{bad[1]} [{'KeyboardInterrupt' if fc.get('exc') == 'interrupt' else 'exception'} raised at {where} "
                                                    f"(line event {fc['line']} of the save path); cache={fc['cache']}, result={fc['shape']}, "
                                                    f"{'overwrite' if fc['overwrite'] else 'first save'}]",
                                 dict(fault={k: v for k, v in fc.items() if not k.startswith('_')}, observed=obs, where=where))
    try:
        bad = coq_failing(f'corr_{prop}_fault', CACHE_IMPORTS, terms, 'check_fcase save_cleanup_src save_order_src')
    except CoqError as e:
        bad = []
        report.broke('correspondence Cache.check_fcase could not be evaluated', str(e))
    if bad:
        fc, obs = kept[bad[0]]
        b = dict(what=f'correspondence Model/Cache.v vs cache save under {"kills" if crash else "injected exceptions"}: {len(bad)} of {len(terms)} cases differ')
        report.broke(b['what'], first_case=dict(fault=fc, observed=obs))
    report.coverage.update(
        evaluations=len(fcs), distinct_nontrivial=len({json.dumps(f, sort_keys=True) for f in fcs if 0 < f['n']}),
        traces_validated_against_impl=len(terms), correspondence_mismatches=len(bad),
        rule=('every storage-effect boundary of a save (mkdir, open, each write call, close; metadata then data) x result '
              'shape (small, multi-frame, unpicklable at depth) x cache format (PickleCache, a JSON BaseCache) x first save / '
              'overwrite' + (' x buffered data lost / flushed; the writer is a forked process ended by os._exit, by SIGTERM (default disposition; or turned into SystemExit by an inherited handler), or in the middle of a write call' if crash else
                             '; the fault is an exception raised by the storage, the save runs inside the real run_or_load_task') +
              '; quick samples the write-call boundaries; non-trivial = at least one effect completed' +
              ('' if crash else '; plus an exception / KeyboardInterrupt raised at executed lines of cache.py and storage.py below BaseCache.save '
                                '(results that pickle; first save and overwrite; quick: 40 line events per configuration, thorough: all)')),
        distribution=dict(sorted(dist.items())),
        samples=[dict(fault=f, observed=o) for f, o in kept[:3]],
        effect_traces={f'{k[0]}/{k[1]}': v if len(v) < 30 else v[:10] + ['...'] + v[-6:] for k, v in traces.items()})


def run(prop, report, tier, seed, replay=None):
    if prop in ('C06', 'C08'):
        return run_histories(prop, report, tier, seed, replay)
    return run_faults(prop, report, tier, seed, replay)
