"""Value-grammar harness: parameter-tree specs, builders, emitters to Gallina (raw / value / json) and the
operations run against the real labtech code (constructor, find_tasks_in_param, Serializer, cache_key, ==, hash,
pickle)."""
import json
import math
import pickle
import struct

from frozendict import frozendict

import labtech
from labtech.exceptions import TaskError
from labtech.serialization import Serializer
from labtech.tasks import find_tasks_in_param, get_direct_dependencies
from labtech.types import is_task

import lv_universe as U
import lv_universe2 as U2
import lv_pkg.sub.defs as _PD
import lv_pkg.other as _PO

MODULES = {'lv_universe': U, 'lv_universe2': U2, 'lv_pkg.sub.defs': _PD, 'lv_pkg.other': _PO}
from common import g_bool, g_list, g_N, g_Z

CANON_NAN = struct.unpack('<Q', struct.pack('<d', float('nan')))[0]

SCALAR_POOL = [
    ['none'], ['bool', True], ['bool', False], ['int', '0'], ['int', '1'], ['int', '-1'], ['int', '2'],
    ['int', str(2 ** 70)], ['int', str(-(2 ** 64))],
    ['float', (0.0).hex()], ['float', (-0.0).hex()], ['float', (1.5).hex()], ['float', (3.14).hex()],
    ['float', 'inf'], ['float', '-inf'], ['float', 'nan'], ['float', (5e-324).hex()], ['float', (1e300).hex()],
    ['str', ''], ['str', 'a'], ['str', 'ab'], ['str', '_is_task'], ['str', 'é中'], ['str', '\x00'],
    ['str', 'a.b/c\\d'], ['str', '\ud800'], ['str', 'True'], ['str', '1'],
    ['enum', 'lv_universe', 'Color', 'RED'], ['enum', 'lv_universe', 'Color', 'GREEN'],
    ['enum', 'lv_universe', 'Shade', 'RED'], ['enum', 'lv_universe2', 'Color', 'RED'], ['enum', 'lv_universe', 'Heavy', 'BIG'],
    ['str', 'r\udce9s'], ['str', 'r\udce8s'], ['str', 'r?s'], ['str', 'adam'],
    ['enum', 'lv_pkg.sub.defs', 'Color', 'RED'], ['enum', 'lv_pkg.other', 'Color', 'RED'],
]
# enum members that compare equal to plain ints / strs: only where == is not what is being compared (C07, C09)
MIXED_POOL = [['enum', 'lv_universe', 'Level', 'ONE'], ['enum', 'lv_universe', 'Level', 'TWO'], ['enum', 'lv_universe', 'Opt', 'ADAM']]
BAD_POOL = [['bad', 'set'], ['bad', 'bytes'], ['bad', 'object'], ['bad', 'complex'], ['bad', 'type'], ['bad', 'faketask'],
            ['bad', 'fraction'], ['bad', 'decimal'], ['bad', 'bytearray'], ['bad', 'range'], ['bad', 'frozenset']]


class FakeTask:
    """Not a task type, but exposes the marker attribute tasks carry."""
    _is_task = True
TASK_TYPES = [('lv_universe', 'V1', ['a', 'b']), ('lv_universe', 'V2', ['x']), ('lv_universe2', 'V2', ['x']),
              ('lv_pkg.sub.defs', 'V2', ['x']), ('lv_pkg.other', 'V2', ['x']),
              ('lv_universe', 'V', ['x']), ('lv_universe', 'VV', ['x']), ('lv_universe', 'VPost', ['x']), ('lv_universe', 'VDef', ['x', 'y'])]
# values around VDef's defaults (x=1, y=(1, 2)): the default itself, and values == to it of another type
NEAR_DEFAULT = {'x': [['int', '1'], ['float', (1.0).hex()], ['bool', True], ['int', '0'], ['bool', False]],
                'y': [['tuple', [['int', '1'], ['int', '2']]], ['tuple', [['bool', True], ['float', (2.0).hex()]]], ['list', [['int', '1'], ['int', '2']]],
                      ['tuple', [['float', (1.0).hex()], ['int', '2']]]]}
KEY_POOL = ['k', 'a', 'b', 'name', 'x', '', 'é', 'a b', '__class__']


def gen_spec(rng, depth=0, *, bad=0.0, reserved=0.0, tasks=True, nan=True, mixed=False):
    """A random parameter-tree spec.  bad: probability mass of unsupported leaves / non-string keys;
    reserved: probability of a dict spelling a serialised task/enum."""
    r = rng.random()
    if depth >= 3 or r < 0.35:
        if rng.random() < bad:
            return rng.choice(BAD_POOL)
        s = rng.choice(SCALAR_POOL + MIXED_POOL) if mixed else rng.choice(SCALAR_POOL)
        if not nan and s == ['float', 'nan']:
            s = ['float', (1.5).hex()]
        return s
    if r < 0.55:
        kind = rng.choice(['list', 'tuple', 'tuple', 'mytuple'])
        return [kind, [gen_spec(rng, depth + 1, bad=bad, reserved=reserved, tasks=tasks, nan=nan, mixed=mixed) for _ in range(rng.randint(0, 3))]]
    if r < 0.78:
        if rng.random() < reserved:
            sub = lambda: gen_spec(rng, depth + 1, tasks=tasks, nan=nan, mixed=mixed)     # noqa
            return rng.choice([
                # dicts that spell a serialised task / enum member / wrapped dict, completely or not, with truthy or falsy markers
                lambda: ['dict', False, [[['str', '_is_task'], ['bool', True]], [['str', '__class__'], ['str', 'lv_universe.V2']], [['str', 'x'], sub()]]],
                lambda: ['dict', True, [[['str', '_is_enum'], ['bool', True]], [['str', '__class__'], ['str', 'lv_universe.Color']], [['str', 'name'], ['str', 'RED']]]],
                lambda: ['dict', False, [[['str', '_is_dict'], ['bool', True]], [['str', 'items'], ['dict', False, [[['str', 'k'], sub()]]]]]],
                lambda: ['dict', False, [[['str', '_is_dict'], ['int', '1']], [['str', 'items'], ['int', '3']]]],
                lambda: ['dict', False, [[['str', '_is_task'], ['int', '1']], [['str', 'x'], sub()]]],
                lambda: ['dict', True, [[['str', '_is_task'], ['bool', False]], [['str', '_is_enum'], ['str', '']], [['str', 'k'], sub()]]],
                lambda: ['dict', False, [[['str', 'x'], sub()], [['str', '_is_enum'], ['tuple', [['int', '0']]]]]],
                # marker-using dicts that hold enum members and tasks (what is inside a wrapped dict is decoded like anything else)
                lambda: ['dict', False, [[['str', '_is_task'], ['bool', True]], [['str', 'e'], ['enum', 'lv_universe', 'Color', 'RED']],
                                         [['str', 't'], ['task', 'lv_universe', 'V2', [['x', ['int', '1']]]]]]],
                lambda: ['dict', True, [[['str', '_is_enum'], ['int', '1']], [['str', 'l'], ['tuple', [['enum', 'lv_universe', 'Shade', 'DARK'], ['task', 'lv_universe', 'V', [['x', ['none']]]]]]]]],
            ])()
        keys = rng.sample(KEY_POOL, rng.randint(0, 3))
        kvs = []
        for k in keys:
            ks = ['str', k]
            if rng.random() < bad:
                ks = rng.choice([['int', '3'], ['none'], ['tuple', []]])
            kvs.append([ks, gen_spec(rng, depth + 1, bad=bad, reserved=reserved, tasks=tasks, nan=nan, mixed=mixed)])
        return ['dict', rng.random() < 0.4, kvs]
    if tasks:
        mod, name, fields = rng.choice(TASK_TYPES)
        if name == 'VDef' and rng.random() < 0.7:
            return ['task', mod, name, [[f, rng.choice(NEAR_DEFAULT[f])] for f in fields]]
        return ['task', mod, name, [[f, gen_spec(rng, depth + 1, bad=0.0, reserved=reserved, tasks=tasks, nan=nan, mixed=mixed)] for f in fields]]
    return rng.choice(SCALAR_POOL[:14])


def build(spec):
    k = spec[0]
    if k == 'none':
        return None
    if k == 'bool':
        return bool(spec[1])
    if k == 'int':
        return int(spec[1])
    if k == 'float':
        return float('nan') if spec[1] == 'nan' else (float(spec[1]) if spec[1] in ('inf', '-inf') else float.fromhex(spec[1]))
    if k == 'str':
        return spec[1]
    if k == 'enum':
        return getattr(MODULES[spec[1]], spec[2])[spec[3]]
    if k == 'list':
        return [build(x) for x in spec[1]]
    if k == 'tuple':
        return tuple(build(x) for x in spec[1])
    if k == 'mytuple':
        return U.MyTuple(build(x) for x in spec[1])
    if k == 'dict':
        d = {build(ks): build(v) for ks, v in spec[2]}
        return frozendict(d) if spec[1] else d
    if k == 'task':
        cls = getattr(MODULES[spec[1]], spec[2])
        return cls(**{f: build(v) for f, v in spec[3]})
    if k == 'bad':
        import decimal
        import fractions
        return {'set': set(), 'bytes': b'x', 'object': object(), 'complex': 1j, 'type': int, 'faketask': FakeTask(),
                'fraction': fractions.Fraction(1, 3), 'decimal': decimal.Decimal('1.5'), 'bytearray': bytearray(b'x'),
                'range': range(3), 'frozenset': frozenset([1])}[spec[1]]
    raise ValueError(spec)


def respell(spec):
    """A spec whose value is == (and hashes like) the value of `spec` but is spelt differently: 1 / 1.0 / True, dict entries in
    the reverse insertion order, at every depth."""
    k = spec[0]
    if k == 'bool':
        return ['int', str(int(bool(spec[1])))]
    if k == 'int':
        n = int(spec[1])
        return ['float', float(n).hex()] if abs(n) < 2 ** 53 else spec
    if k == 'float' and spec[1] not in ('nan', 'inf', '-inf'):
        x = float.fromhex(spec[1])
        return ['int', str(int(x))] if x == int(x) and not (x == 0 and math.copysign(1, x) < 0) else spec
    if k in ('list', 'tuple', 'mytuple'):
        return [k, [respell(x) for x in spec[1]]]
    if k == 'dict':
        return ['dict', spec[1], [[ks, respell(v)] for ks, v in reversed(spec[2])]]
    if k == 'task':
        return ['task', spec[1], spec[2], [[f, respell(v)] for f, v in spec[3]]]
    return spec


def contains_bad(spec):
    k = spec[0]
    if k == 'bad':
        return True
    if k in ('list', 'tuple', 'mytuple'):
        return any(contains_bad(x) for x in spec[1])
    if k == 'dict':
        return any(ks[0] != 'str' or contains_bad(v) for ks, v in spec[2])
    return False


# ------------------------------------------------------------------ Gallina emission

def g_s(s):
    return '[' + '; '.join(f'{ord(ch)}%N' for ch in s) + ']'


def float_bits(x):
    if isinstance(x, float) and math.isnan(x):
        return CANON_NAN
    return struct.unpack('<Q', struct.pack('<d', x))[0]


def g_scalar_py(x):
    import enum
    if x is None:
        return 'SNone'
    if isinstance(x, enum.Enum):
        c = type(x)
        return f'SEnum {g_s(c.__module__ + "." + c.__qualname__)} {g_s(x.name)}'
    if isinstance(x, bool):
        return f'SBool {g_bool(x)}'
    if isinstance(x, int):
        return f'SInt {g_Z(x)}'
    if isinstance(x, float):
        return f'SFloat {g_N(float_bits(x))}'
    if isinstance(x, str):
        return f'SStr {g_s(x)}'
    raise TypeError(type(x))


def g_value_py(x):
    """A normalised Python parameter value -> Gallina `value`."""
    from dataclasses import fields
    if is_task(x):
        c = type(x)
        fs = g_list([f'({g_s(f.name)}, {g_value_py(getattr(x, f.name))})' for f in fields(x)])
        return f'(VTask {g_s(c.__module__ + "." + c.__qualname__)} {fs})'
    if isinstance(x, tuple):
        return f'(VTuple {g_list([g_value_py(i) for i in x])})'
    if isinstance(x, frozendict):
        return f'(VDict {g_list([f"({g_s(k)}, {g_value_py(v)})" for k, v in x.items()])})'
    if isinstance(x, (list, dict)):
        raise TypeError('mutable value in a normalised parameter')
    return f'(VScal ({g_scalar_py(x)}))'


def g_raw(spec):
    k = spec[0]
    if k in ('none', 'bool', 'int', 'float', 'str', 'enum'):
        return f'(RScal ({g_scalar_py(build(spec))}))'
    if k == 'list':
        return f'(RList {g_list([g_raw(x) for x in spec[1]])})'
    if k in ('tuple', 'mytuple'):
        return f'(RTuple {g_list([g_raw(x) for x in spec[1]])})'
    if k == 'dict':
        kvs = []
        for ks, v in spec[2]:
            gk = f'KStr {g_s(ks[1])}' if ks[0] == 'str' else 'KOther'
            kvs.append(f'({gk}, {g_raw(v)})')
        return f'(RDict {g_bool(spec[1])} {g_list(kvs)})'
    if k == 'task':
        t = build(spec)
        return '(RTask' + g_value_py(t)[len('(VTask'):]
    if k == 'bad':
        return f'(RBad {g_s(spec[1])})'
    raise ValueError(spec)


def g_json(j):
    if j is None:
        return 'JNull'
    if isinstance(j, bool):
        return f'JBool {g_bool(j)}'
    if isinstance(j, int):
        return f'JInt {g_Z(j)}'
    if isinstance(j, float):
        return f'JFloat {g_N(float_bits(j))}'
    if isinstance(j, str):
        return f'JStr {g_s(j)}'
    if isinstance(j, (list, tuple)):
        return f'JArr {g_list(["(" + g_json(x) + ")" for x in j])}'
    if isinstance(j, dict):
        return f'JObj {g_list([f"({g_s(k)}, {g_json(v)})" for k, v in j.items()])}'
    raise TypeError(type(j))


def g_opt(x):
    return 'None' if x is None else f'(Some {x})'


ENV = ('{| task_classes := ' + g_list([f'({g_s(m + "." + n)}, {g_list([g_s(f) for f in fs])})' for m, n, fs in TASK_TYPES]) +
       '; enum_classes := ' + g_list([f'({g_s("lv_universe.Color")}, {g_list([g_s("RED"), g_s("GREEN")])})',
                                      f'({g_s("lv_universe.Shade")}, {g_list([g_s("RED"), g_s("DARK")])})',
                                      f'({g_s("lv_universe.Heavy")}, {g_list([g_s("BIG"), g_s("SMALL")])})',
                                      f'({g_s("lv_universe2.Color")}, {g_list([g_s("RED"), g_s("GREEN")])})',
                                      f'({g_s("lv_pkg.sub.defs.Color")}, {g_list([g_s("RED"), g_s("GREEN")])})',
                                      f'({g_s("lv_pkg.other.Color")}, {g_list([g_s("RED"), g_s("GREEN")])})',
                                      f'({g_s("lv_universe.Level")}, {g_list([g_s("ONE"), g_s("TWO")])})',
                                      f'({g_s("lv_universe.Opt")}, {g_list([g_s("ADAM"), g_s("SGD")])})']) + ' |}')

VALUES_IMPORTS = ('Require Import LT.Model.Base LT.Model.Values LT.Model.ValuesCheck LT.Gen.SrcParams.\n'
                  f'Definition the_env : env := {ENV}.\n')


# ------------------------------------------------------------------ operations on the real code

def construct(spec):
    """V2(x=<spec>) through the real constructor: ('ok', task) | ('taskerror', msg) | ('other', repr)."""
    try:
        raw = build(spec)
    except TypeError as e:      # unhashable dict key while *building* the raw value
        return ('unbuildable', repr(e))
    except TaskError as e:      # a nested task's constructor rejected its parameters
        return ('taskerror', str(e))
    except BaseException as e:   # noqa  (a nested task's constructor raised something else)
        return ('other', repr(e))
    try:
        return ('ok', U.V2(x=raw))
    except TaskError as e:
        return ('taskerror', str(e))
    except BaseException as e:   # noqa
        return ('other', repr(e))


def ser_task(task):
    return Serializer().serialize_task(task)


def roundtrip(task):
    """What cached_tasks does with stored metadata: JSON text -> deserialize_task."""
    js = json.loads(json.dumps(ser_task(task)))
    try:
        return ('ok', Serializer().deserialize_task(js, result_meta=None))
    except BaseException as e:   # noqa
        return ('error', repr(e))
