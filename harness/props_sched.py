"""Checks for the scheduler-level properties C01-C05, C10, C11, C17: correspondence of the real coordinator
(under the L1 schedule-controlling runner and under the real serial/fork/spawn runners) with Model/Sched.v on
the projection each property speaks about, plus the property monitors that turn a deviation into a replay."""
import json
import os
from collections import Counter

import sched_h as S
import lv_universe as U
from common import coq_failing, rng_for, CoqError
from common import storage_of


def _proj(**kw):
    keys = ['outcome', 'submit', 'finish', 'values', 'capture', 'release', 'rmap', 'store']
    return '{| ' + '; '.join(f'pj_{k} := {"true" if kw.get(k) else "false"}' for k in keys) + ' |}'


def first_occ(xs):
    return S.first_occ(xs)


# ------------------------------------------------------------------ monitors (Python predicates on real traces)

def needed_all_ok(case):
    ref = S.py_ref(case)
    return all(ref[t] is not None for t in S.py_needed(case))


def mon_C01(case, obs):
    if not needed_all_ok(case):
        return None
    ref = S.py_ref(case)
    want = [[t, ref[t]] for t in first_occ([t for t, _ in case['req']])]
    if obs['outcome'] != 'returned':
        return ('not-returned', f"all tasks succeed but run_tasks ended with {obs['outcome']}: {obs.get('exc')}")
    got = [[t, v] for t, v in obs['returned']]
    if json.dumps(got) != json.dumps(want):
        return ('wrong-result', f'returned {got!r}, sequential evaluation gives {want!r}')
    if not obs.get('returned_identity_ok', True):
        return ('foreign-key', 'a returned key is not one of the requested objects')
    return None


def mon_C02(case, obs):
    fin = {}
    for e in obs['events']:
        if e[0] == 'finish':
            fin[e[1]] = e[2]
        elif e[0] == 'submit' and not e[2]:
            missing = [d for d in S.deps_of(case, e[1]) if d not in fin]
            if missing:
                return ('started-before-deps', f'task {e[1]} submitted for execution before dependencies {missing} finished')
    loaded = {e[1] for e in obs['events'] if e[0] == 'submit' and e[2]}
    done = {}
    for e in obs['events']:
        if e[0] != 'finish':
            continue
        t, v = e[1], e[2]
        done[t] = v
        if t in loaded:
            continue
        found = S.flat_spec(case['specs'][t])
        reads = [found[i] for i in case['reads'][t]]
        vals = [done.get(d) for d in reads]
        if any(x is None for x in vals):
            if v is not None:
                return ('read-of-failed-dep-succeeded', f'task {t} produced {v!r} although a dependency it reads failed')
        elif case['behs'][t] == 'ok':
            want = ('N', t, tuple(vals))
            if v is None:
                if obs['excs'].get(t) != 'TaskDiedError':
                    return ('read-raised', f'task {t} failed although all dependencies it reads had finished successfully')
            elif json.dumps(v) != json.dumps(want):
                return ('stale-or-foreign-read', f'task {t} computed {v!r} from its dependencies, expected {want!r}')
    return None


def mon_C03(case, obs):
    subs = [e for e in obs['events'] if e[0] == 'submit']
    tids = [e[1] for e in subs]
    dup = [t for t, n in Counter(tids).items() if n > 1]
    if dup:
        return ('submitted-twice', f'tasks {dup} were submitted more than once')
    need = S.py_needed(case)
    extra = [t for t in tids if t not in need]
    if extra:
        return ('outside-closure', f'tasks {extra} were run although nothing needs them')
    for e in subs:
        if e[2] != S.use_cache0(case, e[1]):
            return ('cache-bypass' if not e[2] else 'load-uncached',
                    f'task {e[1]} submitted with use_cache={e[2]}, cache pre-state says {S.use_cache0(case, e[1])}')
    if obs.get('unmarked'):
        return ('instance-unmarked', f"instances of finished tasks {obs['unmarked']} have no result_meta")
    if obs.get('meta_start_after_run'):
        return ('result-meta-wrong-time', f"the instances of tasks {obs['meta_start_after_run']} are marked with a start time that lies after the moment their run() "
                                          'had already finished (serial backend; the outcome a task is marked with is when it began and how long it took)')
    return None


def mon_C04(case, obs):
    if obs.get('serial_elsewhere'):
        return ('serial-ran-elsewhere', f"with runner_backend='serial', {obs['serial_elsewhere']} task executions did not happen in the calling thread of the calling process")
    inflight = []
    for e in obs['events']:
        if e[0] == 'submit':
            inflight.append(e[1])
            ty = case['types'][e[1]]
            m = S.MAXPAR[ty]
            n = sum(1 for t in inflight if case['types'][t] == ty)
            if m is not None and n > m:
                return ('type-limit-exceeded', f'{n} tasks of a max_parallel={m} type in flight after submitting {e[1]}')
        elif e[0] == 'finish' and e[1] in inflight:
            inflight.remove(e[1])
    return None


def mon_C05(case, obs):
    need = S.py_needed(case)
    submitted, finished = [], []
    stopped = False
    for e in obs['events']:
        if e[0] == 'submit':
            submitted.append(e[1])
        elif e[0] == 'finish':
            finished.append(e[1])
            if e[2] is None and not case['cont']:
                stopped = True
        elif e[0] in ('cancel', 'stop'):
            stopped = True
        elif e[0] == 'wait' and not stopped:
            inflight = [t for t in submitted if t not in finished]
            for t in need:
                if t in submitted:
                    continue
                pd = [] if S.use_cache0(case, t) else S.deps_of(case, t)
                if any(d not in finished for d in pd):
                    continue
                ty = case['types'][t]
                m = S.MAXPAR[ty]
                n = sum(1 for u in inflight if case['types'][u] == ty)
                if m is None or n < m:
                    return ('runnable-left-waiting', f'at a rest point task {t} is runnable (deps done, {n} of type limit {m} in flight) but was not submitted')
    return None


def mon_C10(case, obs):
    ref = S.py_ref(case)
    if case.get('runner') in ('serial', 'fork', 'spawn'):
        # a task that raises in run() is reported as failed with that very exception (not as a worker that died, say)
        for t, name in sorted((obs.get('excs') or {}).items()):
            if case['behs'][int(t)] == 'raise' and name != ('SystemExit' if int(t) % 4 == 3 else 'ValueError') and case['types'][int(t)] != 13:      # (type 13 fails in filter_context)
                return ('wrong-failure-cause', f"task {t} raises {'SystemExit' if int(t) % 4 == 3 else 'ValueError'} in run(); under the {case['runner']} backend it was reported as failed with {name}")
    if case['cont']:
        want = [[t, ref[t]] for t in first_occ([t for t, _ in case['req']]) if ref[t] is not None]
        if obs['outcome'] != 'returned':
            return ('continue-raised', f"continue_on_failure=True but run_tasks ended with {obs['outcome']}: {obs.get('exc')}")
        if json.dumps([[t, v] for t, v in obs['returned']]) != json.dumps(want):
            return ('continue-wrong-result', f"returned {obs['returned']!r}, expected {want!r}")
        if case['storage'] == 'local':
            executed_ok = {e[1] for e in obs['events'] if e[0] == 'finish' and e[2] is not None}
            must = {t for t in executed_ok if S.CACHEABLE[case['types'][t]]} | set(case['pre'])
            got = set(obs['final_store'])
            bad = [t for t in got if ref[t] is None and t not in case['pre']]
            if bad:
                return ('cached-failed-task', f'tasks {bad} failed but are reported cached')
            if not must <= got:
                return ('ok-task-not-cached', f'successful cacheable tasks {sorted(must - got)} are not cached')
    else:
        fails = [i for i, e in enumerate(obs['events']) if e[0] == 'finish' and e[2] is None]
        if fails:
            if obs['outcome'] != 'laberror':
                return ('failure-not-raised', f"continue_on_failure=False, a task failed, run_tasks ended with {obs['outcome']}")
            if obs.get('cause') not in ('ValueError', 'SystemExit', 'TaskError', 'TaskDiedError', 'PicklingError', 'LookupError'):
                return ('laberror-without-cause', f"LabError cause is {obs.get('cause')}")
            later = [e for e in obs['events'][fails[0]:] if e[0] == 'submit']
            if later:
                return ('started-after-raise', f'tasks {[e[1] for e in later]} submitted after the first failure')
        elif obs['outcome'] != 'returned':
            return ('raised-without-failure', f"no task failed but run_tasks ended with {obs['outcome']}: {obs.get('exc')}")
    return None


def mon_C11(case, obs):
    if obs['outcome'] == 'hang':
        return ('no-termination', f"run_tasks did not return or raise: {obs.get('exc')} (runner {case.get('runner')})")
    if obs['outcome'] == 'stuck':
        return ('deadlock', 'the coordinator called wait() with nothing in flight while tasks remained')
    if obs['outcome'] == 'other':
        return ('unexpected-exception', f"run_tasks raised {obs.get('exc')}")
    return None


def mon_C17(case, obs):
    need = S.py_needed(case)
    finished, okset, captured = [], set(), set()
    req = {t for t, _ in case['req']}
    raised = obs['outcome'] not in ('returned',)
    for e in obs['events']:
        if e[0] == 'finish':
            finished.append(e[1])
            if e[2] is not None:
                okset.add(e[1])
        elif e[0] == 'get':
            captured.add(e[1])
        elif e[0] == 'remove':
            for t in e[1]:
                if t in req and t in okset and t not in captured:
                    return ('released-before-capture', f'requested task {t} released before its result was captured')
        elif e[0] == 'map':
            inmap = set(e[1])
            for d in finished:
                dependents = [u for u in need if u not in finished and d in ([] if S.use_cache0(case, u) else S.deps_of(case, u))]
                if dependents and d in okset and d not in inmap:
                    return ('released-too-early', f'result of {d} gone while {dependents} still depend on it')
                if not dependents and d in inmap:
                    return ('not-released', f'result of {d} still in memory although no unfinished task depends on it')
    ref = S.py_ref(case)
    spurious = [e[1] for e in obs['events'] if e[0] == 'finish' and e[2] is None and ref[e[1]] is not None]
    if spurious:
        return ('result-unavailable', f'tasks {spurious} failed although nothing they depend on failed: a dependency result they read was not available '
                                      f"({[obs.get('excs', {}).get(t) for t in spurious]})")
    if obs['outcome'] == 'returned' and obs['final_rmap']:
        return ('results-left-at-return', f"runner still holds results of {obs['final_rmap']} after a normal return")
    if obs['outcome'] == 'returned' and obs.get('readable_after'):
        return ('results-alive-at-return', f"results of {obs['readable_after']} are still readable through the task objects (task.result) after a normal return")
    return None


PROPS = {
    'C01': dict(proj=_proj(outcome=True, finish=True, values=True), monitor=mon_C01, gen=dict(p_fail=0.0),
                what='returned dict vs sequential reference on all-succeed graphs'),
    'C02': dict(proj=_proj(submit=True, finish=True, values=True), monitor=mon_C02, gen=dict(p_fail=0.2),
                what='submit/finish order and values read'),
    'C03': dict(proj=_proj(submit=True), monitor=mon_C03, gen=dict(p_fail=0.1),
                what='submission multiset, use_cache flags, instance marks'),
    'C04': dict(proj=_proj(submit=True, finish=True), monitor=mon_C04, gen=dict(p_fail=0.1),
                what='in-flight sets per type at every submission'),
    'C05': dict(proj=_proj(submit=True, finish=True), monitor=mon_C05, gen=dict(p_fail=0.1),
                what='pending-but-runnable tasks at every rest point'),
    'C10': dict(proj=_proj(outcome=True, finish=True, store=True), monitor=mon_C10, gen=dict(p_fail=0.35, p_unpicklable=0.4),
                what='outcome, failures and cache contents under failures'),
    'C11': dict(proj=_proj(outcome=True), monitor=mon_C11, gen=dict(p_fail=0.25),
                what='outcome (never Stuck) under failures and tight limits'),
    'C17': dict(proj=_proj(capture=True, release=True, rmap=True), monitor=mon_C17, gen=dict(p_fail=0.25),
                what='capture/release events and results-map contents'),
}

VOLUME = {   # tier -> (L1 cases, serial, fork, spawn)
    'quick': (400, 40, 10, 3),
    'thorough': (6000, 400, 120, 30),
}
L2_VOLUME = {'quick': 24, 'thorough': 250}     # scripted real ProcessExecutor runs (C04, C05, C10, C11)
L2_PROPS = {'C01': [], 'C04': ['worker-limit-exceeded', 'executor-state-shared'], 'C05': ['idle-slot', 'dead-not-detected', 'executor-state-shared', 'done-not-reported', 'completion-withheld'], 'C11': ['dead-not-detected'], 'C10': ['started-after-failure']}


def nontrivial(case, obs):
    edges = sum(len(S.deps_of(case, t)) for t in range(case['n']))
    return case['n'] >= 3 and edges >= 2 and len([b for b in obs['batches'] if b]) >= 2


def stage_falsy_results(report, dist):
    """C01, directed: requested tasks whose run() returns None / 0 / False / '' / () are returned like any other — keys are
    exactly the requested tasks in request order — on every backend, on a cold and on a warm cache."""
    import shutil
    import tempfile
    from labtech.lab import Lab
    from common import subdir
    values = [None, 0, False, '', (), 0.0, 'ok', 1]
    d = tempfile.mkdtemp(dir=subdir('falsy'))
    try:
        for backend, mw in (('serial', None), ('fork', 2)):
            lab = Lab(storage=os.path.join(d, backend), runner_backend=backend, max_workers=mw, notebook=False)
            tasks = [U.VRet(x=v, i=i) for i, v in enumerate(values)]
            for phase in ('cold', 'warm'):
                res = lab.run_tasks(tasks, disable_progress=True, disable_top=True)
                dist['falsy_result_runs'] += 1
                keys_ok = len(res) == len(tasks) and all(k is t for k, t in zip(res.keys(), tasks))
                vals_ok = keys_ok and all(type(res[t]) is type(v) and res[t] == v for t, v in zip(tasks, values))
                if not vals_ok:
                    missing = [repr(v) for t, v in zip(tasks, values) if t not in res]
                    report.violation('C01:falsy-result-dropped' if missing else 'C01:wrong-result',
                                     f'run_tasks on {backend} ({phase} cache) with tasks returning {values!r}: '
                                     + (f'no entry for the tasks returning {missing}' if missing else f'returned {list(res.values())!r}'),
                                     dict(level='falsy', backend=backend, phase=phase))
                    return
    finally:
        shutil.rmtree(d, ignore_errors=True)


def stage_custom_cache(report, dist, prop):
    """C03 / C06, directed: whether a task is cached is for its type's cache to say.  A cache class that also finds results in a shared
    read-only store reports them as cached: such tasks (and what only they depend on) are loaded, not executed."""
    import shutil
    import tempfile
    from labtech.lab import Lab
    from common import subdir
    d = tempfile.mkdtemp(dir=subdir('customcache'))
    try:
        for backend in ('serial', 'fork'):
            leaf = U.V2(x=('leaf', backend))
            shared = U.VShared(x=leaf)
            top = U.VV(x=shared)
            U.FallbackCache.SHARED.clear()
            U.FallbackCache.SHARED[shared.cache_key] = ('from the shared store', backend)
            lab = Lab(storage=os.path.join(d, backend), runner_backend=backend, max_workers=2, notebook=False)
            before = U.VRUN_COUNT[0]
            cached = lab.is_cached(shared)
            res = lab.run_tasks([shared], disable_progress=True, disable_top=True)
            dist['custom_cache_runs'] += 1
            ran_in_caller = U.VRUN_COUNT[0] - before
            leaf_stored = lab.is_cached(leaf)
            if not cached or res.get(shared) != ('from the shared store', backend) or ran_in_caller or leaf_stored:
                report.violation(f'{prop}:cached-but-executed', f'{backend} backend: a task whose cache class reports it as cached (it finds the result in a shared read-only store) '
                                                                f'-> is_cached={cached}, run_tasks returned {res.get(shared)!r}, its dependency was {"executed and stored" if leaf_stored else "left alone"}: '
                                                                'the cache class was not asked', dict(level='custom-cache', backend=backend))
                return
    finally:
        U.FallbackCache.SHARED.clear()
        shutil.rmtree(d, ignore_errors=True)


def stage_displays_on(report, dist):
    """C01, directed: the value run_tasks returns does not depend on its display options: with the task monitor and the progress
    bars switched on, any top_n (fewer rows than active tasks, none), the same dict comes back."""
    import contextlib
    import io
    from labtech.lab import Lab
    for backend, mw, top_n in (('serial', None, 1), ('serial', None, 0), ('fork', 3, 1), ('fork', 3, 2), ('serial', None, 10)):
        tasks = [U.VRet(x=('v', i), i=i) for i in range(4)]
        lab = Lab(storage=None, runner_backend=backend, max_workers=mw, notebook=False)
        outcome, res = 'returned', None
        try:
            with S.watchdog(40), contextlib.redirect_stdout(io.StringIO()), contextlib.redirect_stderr(io.StringIO()):
                res = lab.run_tasks(tasks, disable_progress=False, disable_top=False, top_n=top_n)
        except S.HarnessTimeout:
            outcome = 'hang'
        except BaseException as e:   # noqa
            outcome = f'{type(e).__name__}: {e}'
        dist['display_option_runs'] += 1
        ok = res is not None and list(res.keys()) == tasks and all(res[t] == ('v', i) for i, t in enumerate(tasks))
        if outcome != 'returned' or not ok:
            report.violation('C01:not-returned' if outcome != 'returned' else 'C01:wrong-result',
                             f'run_tasks on {backend} with the task monitor and progress bars on and top_n={top_n} (4 independent tasks): ended with {outcome}, '
                             f'returned {None if res is None else list(res.values())!r}', dict(level='displays', backend=backend, top_n=top_n))
            return


def _nested_pair(report, dist, prop, lab, backend, pa, pb, want_a, want_b):
    ra = lab.run_tasks([pa], disable_progress=True, disable_top=True).get(pa)
    rb = lab.run_tasks([pb], disable_progress=True, disable_top=True).get(pb)
    both = lab.run_tasks([pa, pb], disable_progress=True, disable_top=True)
    dist['nested_name_runs'] += 3
    if (ra, rb, both.get(pa), both.get(pb)) != (want_a, want_b, want_a, want_b):
        sig = 'wrong-result' if prop == 'C01' else 'other-task-served'
        report.violation(f'{prop}:{sig}', f'backend {backend}: {pa!r} / {pb!r} (different tasks) returned {ra!r} / {rb!r}, then {both.get(pa)!r} / {both.get(pb)!r} '
                                          f'from the cache; expected {want_a!r} / {want_b!r}', dict(level='nested-names', backend=backend))
        return True
    return False


def stage_nested_names(report, dist, prop='C01'):
    """C01, directed: two task types with the same class name nested in different classes, used as dependencies of otherwise
    identical tasks, on one storage: what each dependent returns is what *its* dependency computes, whichever ran (and was
    cached) first."""
    import shutil
    import tempfile
    from labtech.lab import Lab
    from common import subdir
    d = tempfile.mkdtemp(dir=subdir('nested'))
    try:
        for backend in ('serial', 'fork'):
            lab = Lab(storage=os.path.join(d, backend), runner_backend=backend, max_workers=2, notebook=False)
            # (also: dict parameters with the same keys and different values)
            for pa, pb, want_a, want_b in ((U.VDep(x=U.NestA_Leaf(x=1)), U.VDep(x=U.NestB_Leaf(x=1)), ('dep-says', ('from-A', 1)), ('dep-says', ('from-B', 1))),
                                           (U.VRet(x={'k': 1, 'l': (2,)}, i=0), U.VRet(x={'k': 2, 'l': (3,)}, i=0), {'k': 1, 'l': (2,)}, {'k': 2, 'l': (3,)})):
                if _nested_pair(report, dist, prop, lab, backend, pa, pb, want_a, want_b):
                    return
            continue
            pa, pb = U.VDep(x=U.NestA_Leaf(x=1)), U.VDep(x=U.NestB_Leaf(x=1))
            ra = lab.run_tasks([pa], disable_progress=True, disable_top=True).get(pa)
            rb = lab.run_tasks([pb], disable_progress=True, disable_top=True).get(pb)
            both = lab.run_tasks([pa, pb], disable_progress=True, disable_top=True)
            dist['nested_name_runs'] += 3
            want_a, want_b = ('dep-says', ('from-A', 1)), ('dep-says', ('from-B', 1))
            if (ra, rb, both.get(pa), both.get(pb)) != (want_a, want_b, want_a, want_b):
                report.violation('C01:wrong-result', f'backend {backend}: tasks depending on NestA.Leaf(1) / NestB.Leaf(1) (same class name, different enclosing class) '
                                                     f'returned {ra!r} / {rb!r}, then {both.get(pa)!r} / {both.get(pb)!r} from the cache; expected {want_a!r} / {want_b!r}',
                                 dict(level='nested-names', backend=backend))
                return
    finally:
        shutil.rmtree(d, ignore_errors=True)


def stage_die_with_monitor(report, dist, prop):
    """C10 / C11, directed: real fork workers that die inside run() (os._exit with status 3 and with status 0), the task
    monitor display switched on (it looks processes up by pid): run_tasks returns, with exactly the tasks that do not
    depend on a dead one."""
    import contextlib
    import io
    import shutil
    import tempfile
    from labtech.lab import Lab
    from common import subdir
    d = tempfile.mkdtemp(dir=subdir('die'))
    try:
        for top in (True, False):
            dead = [U.TNx(label=1, beh='die'), U.TNx(label=2, beh='die')]       # labels 1 and 2: exit status 3 and 0
            ok = [U.TNx(label=10 + i) for i in range(3)]
            dependent = U.TNx(label=20, deps=(dead[0], ok[0]), reads=(0, 1))
            lab = Lab(storage=None, runner_backend='fork', max_workers=2, continue_on_failure=True, notebook=False)
            outcome, res = 'returned', None
            try:
                with S.watchdog(30), contextlib.redirect_stdout(io.StringIO()):
                    res = lab.run_tasks(ok[:1] + dead + ok[1:] + [dependent], disable_progress=True, disable_top=not top)
            except S.HarnessTimeout:
                outcome = 'hang'
            except BaseException as e:   # noqa
                outcome = f'{type(e).__name__}: {e}'
            dist['die_in_run_runs'] += 1
            want = {t.label for t in ok}
            got = None if res is None else {t.label for t in res}
            if outcome != 'returned' or got != want:
                sig = 'no-termination' if outcome == 'hang' else ('continue-raised' if outcome != 'returned' else 'continue-wrong-result')
                report.violation(f'{prop}:{sig}', f'fork backend, task monitor {"on" if top else "off"}, two workers dying inside run(): run_tasks ended with {outcome}, '
                                                  f'returned tasks {sorted(got) if got is not None else None}, expected {sorted(want)}',
                                 dict(level='die-in-run', top=top))
                return
    finally:
        shutil.rmtree(d, ignore_errors=True)


def stage_lingering_worker(report, dist, prop):
    """C11, directed: real fork workers that have handed back their result but whose process stays alive for a while (a
    non-daemon helper thread still running).  The task is finished: its dependent must be started and run_tasks must return
    without waiting for that process to go away."""
    import shutil
    import tempfile
    import time
    from labtech.lab import Lab
    from common import subdir
    d = tempfile.mkdtemp(dir=subdir('linger'))
    linger_max, bound = 14.0, 7.0
    try:
        for workers, chain in ((1, True), (2, False)):
            flag = os.path.join(d, f'flag_{workers}')
            os.environ['LV_LINGER_FLAG'], os.environ['LV_LINGER_MAX'] = flag, str(linger_max)
            a = U.TNx(label=1, beh='linger')
            tasks = [U.TNx(label=2, deps=(a,), reads=(0,))] if chain else [a, U.TNx(label=2, beh='linger'), U.TNx(label=3)]
            lab = Lab(storage=None, runner_backend='fork', max_workers=workers, continue_on_failure=True, notebook=False)
            outcome, res = 'returned', None
            t0 = time.monotonic()
            try:
                with S.watchdog(40):
                    res = lab.run_tasks(tasks, disable_progress=True, disable_top=True)
            except S.HarnessTimeout:
                outcome = 'hang'
            except BaseException as e:   # noqa
                outcome = f'{type(e).__name__}: {e}'
            took = time.monotonic() - t0
            open(flag, 'w').close()
            dist['lingering_worker_runs'] += 1
            if outcome != 'returned' or res is None or len(res) != len(tasks) or took > bound:
                report.violation(f'{prop}:no-termination',
                                 f'fork backend, max_workers={workers}: every task had handed back its result within moments, the worker process of '
                                 f'one stayed alive (a helper thread tidying up for up to {linger_max:.0f} s); run_tasks ended with {outcome} after {took:.1f} s '
                                 f'(bound {bound:.0f} s), returned {None if res is None else len(res)} of {len(tasks)} tasks: it waited for a process whose task was over',
                                 dict(level='lingering-worker', workers=workers, chain=chain, took=round(took, 2)))
                return
    finally:
        os.environ.pop('LV_LINGER_FLAG', None)
        os.environ.pop('LV_LINGER_MAX', None)
        shutil.rmtree(d, ignore_errors=True)


def run(prop, report, tier, seed, replay=None):
    spec = PROPS[prop]
    rng = rng_for(seed, prop, 'sched')
    cases = []
    if replay is not None:
        cases = [replay['input']['case']] if 'case' in replay['input'] else []
    else:
        corpus_dir = os.path.join(os.path.dirname(os.path.dirname(os.path.abspath(__file__))), 'corpus', prop)
        if os.path.isdir(corpus_dir):
            for f in sorted(os.listdir(corpus_dir)):
                if f.endswith('.json'):
                    cases.append(json.load(open(os.path.join(corpus_dir, f)))['case'])
        n_l1, n_ser, n_fork, n_spawn = VOLUME[tier]
        for runner, n in (('l1', n_l1), ('serial', n_ser), ('fork', n_fork), ('spawn', n_spawn)):
            for _ in range(n):
                big = rng.random() < 0.15
                cases.append(S.gen_case(rng, runner=runner, max_n=(14 if big else 8) if runner in ('l1', 'serial') else 6,
                                        **spec['gen']))
    if prop == 'C10' and replay is None:
        # directed: a task that fails while its context is filtered, under every real backend, with and without continue_on_failure
        for runner in ('serial', 'fork', 'spawn'):
            for cont in (True, False):
                cases.append(dict(n=3, types=[13, 0, 13], specs=[['tuple', []], ['tuple', []], ['tuple', [['task', 1, 0]]]], reads=[[], [], [0]],
                                  behs=['raise', 'ok', 'ok'], req=[[0, 0], [2, 0], [1, 0]], storage='local', bust=False, cont=cont, runner=runner,
                                  max_workers=2, sched_seed=rng.randrange(1 << 30), pre=[]))
    results, terms = [], []
    dist = Counter()
    if prop == 'C01' and (replay is None or replay['input'].get('level') == 'falsy'):
        stage_falsy_results(report, dist)
        if replay is not None:
            return
    if prop in ('C10', 'C11') and (replay is None or replay['input'].get('level') == 'die-in-run'):
        stage_die_with_monitor(report, dist, prop)
        if replay is not None:
            return
    if prop == 'C03' and (replay is None or replay['input'].get('level') == 'custom-cache'):
        stage_custom_cache(report, dist, prop)
        if replay is not None:
            return
    if prop == 'C01' and (replay is None or replay['input'].get('level') == 'displays'):
        stage_displays_on(report, dist)
        if replay is not None:
            return
    if prop == 'C11' and (replay is None or replay['input'].get('level') == 'lingering-worker'):
        stage_lingering_worker(report, dist, prop)
        if replay is not None:
            return
    if prop == 'C01' and (replay is None or replay['input'].get('level') == 'nested-names'):
        stage_nested_names(report, dist)
        if replay is not None:
            return
    if replay is not None and replay['input'].get('level') == 'runner-config':
        replay = None        # (the directed runner-configuration check lives in the L2 stage below: run the whole stage)
    if replay is not None and not cases:
        report.coverage.update(evaluations=0, distinct_nontrivial=0, rule='replay of an input of another stage', samples=[])
        return
    seen = set()
    distinct_nontrivial = 0
    xterms, xkept = [], []
    if prop in L2_PROPS and (replay is None or replay['input'].get('case', {}).get('runner') == 'l2'):
        import exec_h as X
        l2cases = [c for c in cases if c.get('runner') == 'l2'] if replay else []
        if replay is None:
            for _ in range(L2_VOLUME[tier]):
                gen = dict(spec['gen'])
                if prop == 'C05' and len(l2cases) % 2 == 1:
                    gen['p_fail'] = 0.3          # failures among the completions of one polling round (the others are handed over all the same)
                c = S.gen_case(rng, runner='l2', max_n=7, **gen)
                c['max_workers'] = rng.choice([1, 2, 3])
                c['pre'] = []
                c['top'] = (len(l2cases) % 3 == 1)          # the task monitor display is on in a third of the runs
                c['progress'] = (prop == 'C11' and len(l2cases) % 4 == 1)      # ... and the progress bars (default displays)
                if len(l2cases) % 3 == 2:
                    # wide graph: independent tasks, so that futures queue up behind the single worker slot
                    c['max_workers'], c['p_kill'] = 1, 0.5
                    c['specs'] = [['tuple', []] for _ in range(c['n'])]
                    c['reads'] = [[] for _ in range(c['n'])]
                    c['req'] = [[t, 0] for t in range(c['n'])]
                if prop == 'C01':
                    c['p_kill'] = 0.0           # every task succeeds
                l2cases.append(c)
            if prop == 'C10':
                # stop at the first failure: independent tasks queue up behind one or two worker slots, the first ones fail (by
                # an exception or by being killed), and nothing that was still queued may be started once run_tasks raises
                for mw, nn, kill in ((1, 5, 0.0), (2, 6, 0.0), (1, 4, 1.0)):
                    l2cases.append(dict(n=nn, types=[1] * nn, specs=[['tuple', []] for _ in range(nn)], reads=[[] for _ in range(nn)],
                                        behs=(['raise'] * mw + ['ok'] * (nn - mw)) if not kill else ['ok'] * nn,
                                        req=[[t, 0] for t in range(nn)], storage='none', bust=False, cont=False, runner='l2', max_workers=mw,
                                        sched_seed=rng.randrange(1 << 30), pre=[], p_kill=kill))
            if prop == 'C05':
                # more workers allowed than there are CPUs: every one of the independent tasks gets its own worker
                nn = os.cpu_count() + 2
                l2cases.append(dict(n=nn, types=[1] * nn, specs=[['tuple', []] for _ in range(nn)], reads=[[] for _ in range(nn)], behs=['ok'] * nn,
                                    req=[[t, 0] for t in range(nn)], storage='none', bust=False, cont=True, runner='l2', max_workers=nn,
                                    sched_seed=rng.randrange(1 << 30), pre=[], p_kill=0.0))
            if prop == 'C04':
                # what the runners of the three backends are told: the Lab's max_workers, unchanged
                from labtech.lab import Lab as _Lab
                for backend in ('fork', 'spawn'):
                    for mw in (1, 2, 5):
                        runner = _Lab(storage=None, runner_backend=backend, max_workers=mw, notebook=False).runner_backend.build_runner(
                            context={}, storage=storage_of(_Lab(storage=None, notebook=False)), max_workers=mw)
                        try:
                            seen_mw = getattr(getattr(runner, "executor", None), "max_workers", None)
                            if seen_mw != mw:
                                report.violation('C04:worker-limit-exceeded', f"the {backend} runner built for max_workers={mw} runs its executor with max_workers={seen_mw}",
                                                 dict(level='runner-config', backend=backend, max_workers=mw))
                        finally:
                            runner.close()
                # the default worker count: more independent tasks than CPUs, max_workers left unset
                nn = os.cpu_count() + 3
                l2cases.append(dict(n=nn, types=[1] * nn, specs=[['tuple', []] for _ in range(nn)], reads=[[] for _ in range(nn)], behs=['ok'] * nn,
                                    req=[[t, 0] for t in range(nn)], storage='none', bust=False, cont=True, runner='l2', max_workers=None,
                                    sched_seed=rng.randrange(1 << 30), pre=[], p_kill=0.0))
        cases = [c for c in cases if c.get('runner') != 'l2']
        hangs = 0
        for c in l2cases:
            if hangs >= 2:
                break           # every further run would only wait for the watchdog again
            c.setdefault('watchdog_s', 20)
            # every third run: a single worker slot and frequent kills (a death with futures still queued)
            obs, script = X.run_l2(c, p_kill=c.get('p_kill', 0.2 if prop in ('C10', 'C11') else 0.1))
            hangs += obs['outcome'] == 'hang'
            subs = [e[1] for e in obs['events'] if e[0] == 'submit']
            eff = dict(c, behs=list(c['behs']))
            for fid in script.killed_fids:
                if fid < len(subs):
                    eff['behs'][subs[fid]] = 'raise'
            eff['killed'] = sorted({subs[f] for f in script.killed_fids if f < len(subs)})
            if obs['outcome'] == 'laberror':
                # run_tasks raised at the first failure of a polling round: completions delivered by the executor in that
                # same round after the failure were never processed by the coordinator, yet their workers had already
                # saved their results (each worker saves on its own).  The run-level model has no term for them.
                seen_fin = {e[1] for e in obs['events'] if e[0] == 'finish'}
                exec_ok = {subs[e[1]] for op in script.ops if op[0] == 'wait' for e in op[1] if e[0] == 'finish' and e[2] and e[1] < len(subs)}
                # (a worker let go right after the drain of the last wait(): it finished and saved, the next wait never came)
                exec_ok |= {subs[e[1]] for e in script.carry if e[0] == 'finish' and e[1] < len(subs)}
                unseen = exec_ok - seen_fin
                if unseen:
                    obs['final_store'] = [t for t in obs.get('final_store', []) if t not in unseen]
                    dist['l2_completions_unseen_at_raise'] += 1
            results.append((eff, obs))
            terms.append(S.emit_case(eff, obs))
            xterms.append(X.emit_xcase(script, c['max_workers'] if c['max_workers'] is not None else os.cpu_count()))
            xkept.append((c, script.ops))
            dist['runner=l2'] += 1
            dist[f"l2_kills={min(len(script.killed_fids), 3)}"] += 1
            dist[f"outcome={obs['outcome']}"] += 1
            if not c['cont'] and obs['outcome'] == 'laberror' and 'started-after-failure' in L2_PROPS[prop]:
                # "once run_tasks has raised no further task is started": no worker process may be started after the
                # coordinator has been handed the failure it raises for (a queued task may be started in the same wait()
                # that delivers the failure, before the coordinator sees it)
                fail_pos = next((i for i, e in enumerate(obs['events']) if e[0] == 'finish' and e[2] is None), None)
                late = [fid for pos, fid in script.pstarts if fail_pos is not None and pos > fail_pos]
                if late:
                    report.violation(f'{prop}:started-after-failure', f'{len(late)} worker process(es) were started after the coordinator had been handed the '
                                                                      f'failure for which run_tasks raises LabError (continue_on_failure=False)',
                                     dict(case=c, executor_ops=script.ops[:60]))
            for sig, what in script.violations:
                if sig in L2_PROPS[prop]:
                    report.violation(f'{prop}:{sig}', what, dict(case=c, executor_ops=script.ops[:60]))
            v = spec['monitor'](eff, obs)
            if v is not None:
                report.violation(f'{prop}:{v[0]}', v[1], dict(case=c, killed=eff['killed'], observed=dict(outcome=obs['outcome'], exc=obs.get('exc'), events=obs['events'][:80])))
            if nontrivial(eff, obs):
                distinct_nontrivial += 1
    for case in cases:
        obs = S.run_case(case)
        if obs['outcome'] == 'laberror' and case.get('runner') in ('fork', 'spawn'):
            # real worker processes: a task that was executing when run_tasks raised keeps running and saves its result on its
            # own (it was started before the raise, which is all the property asks); whether that entry is already there when
            # the store is read afterwards is a race, and the run-level model has no term for it
            fin = {e[1] for e in obs['events'] if e[0] == 'finish'}
            inflight = {e[1] for e in obs['events'] if e[0] == 'submit'} - fin - set(case.get('pre', []))      # (entries that were there before stay)
            if inflight & set(obs.get('final_store', [])):
                obs['final_store'] = [t for t in obs['final_store'] if t not in inflight]
                dist['inflight_at_raise_saved_later'] += 1
        results.append((case, obs))
        terms.append(S.emit_case(case, obs))
        dist[f"runner={case['runner']}"] += 1
        dist[f"outcome={obs['outcome']}"] += 1
        dist[f"n={case['n']}"] += 1
        dist[f"failing={sum(1 for b in case['behs'] if b != 'ok')}"] += 1
        dist[f"precached={len(case['pre'])}"] += 1
        key = json.dumps(case, sort_keys=True)
        if key not in seen and nontrivial(case, obs):
            seen.add(key)
            distinct_nontrivial += 1
        v = spec['monitor'](case, obs)
        if v is not None:
            sig, what = v
            report.violation(f'{prop}:{sig}', what, dict(case=case, observed=dict(outcome=obs['outcome'], exc=obs.get('exc'),
                                                                                  events=obs['events'][:80])))
    # the same under other hash seeds (set iteration order decides, e.g., which result is released first): cases generated and
    # run in fresh interpreters, their observations compared with the model here
    if prop in ('C01', 'C17') and replay is None:
        import subprocess
        import tempfile
        from common import PY, subdir
        here = os.path.dirname(os.path.abspath(__file__))
        for hs in ((1, 4242) if tier == 'quick' else (1, 2, 7, 99, 4242)):
            outf = tempfile.mktemp(dir=subdir('hashseed'), suffix='.json')
            env = dict(os.environ, PYTHONHASHSEED=str(hs), PYTHONPATH=os.environ.get('LV_REPO', '/repo') + ':' + here)
            p = subprocess.run([PY, os.path.join(here, 'l3_hashseed.py'), prop, str(seed), str(40 if tier == 'quick' else 400), outf],
                               env=env, stdout=subprocess.PIPE, stderr=subprocess.PIPE, stdin=subprocess.DEVNULL, text=True, timeout=1800)
            if p.returncode != 0 or not os.path.exists(outf):
                report.broke(f'runs under PYTHONHASHSEED={hs} could not be carried out', p.stderr[-1500:])
                continue
            for row in json.load(open(outf)):
                dist[f'hashseed={hs}'] += 1
                case = dict(row['case'], hashseed=hs)
                obs = dict(outcome=row['outcome'], events=row['events'], batches=[], exc=None)
                results.append((case, obs))
                terms.append(row['term'])
                if row['verdict']:
                    report.violation(f"{prop}:{row['verdict'][0]}", f"(PYTHONHASHSEED={hs}) {row['verdict'][1]}", dict(case=row['case'], hashseed=hs))
    try:
        bad = coq_failing(f'corr_{prop}', S.SCHED_IMPORTS, terms, f'check_proj sched_params {spec["proj"]}')
    except CoqError as e:
        bad = None
        report.broke(f'correspondence Sched.check_proj could not be evaluated for {prop}', str(e))
    if bad:
        case, obs = results[bad[0]]
        report.broke(f'correspondence Model/Sched.v vs labtech coordinator on projection {prop} ({spec["what"]}): '
                     f'{len(bad)} of {len(terms)} cases differ',
                     first_case=dict(case=case, observed=dict(outcome=obs['outcome'], exc=obs.get('exc'),
                                                              events=obs['events'][:80], batches=obs['batches'])))
    # runs under the real serial backend, replayed by the serial strategy itself (no completion oracle; Model/Serial.v)
    ser = [(case, obs) for case, obs in results if case.get('runner') == 'serial' and obs.get('outcome') != 'hang']
    if ser:
        try:
            sbad = coq_failing(f'corr_{prop}_serial', S.SCHED_IMPORTS.replace('LT.Model.Sched', 'LT.Model.Sched LT.Model.Serial'),
                               [S.emit_case(case, obs) for case, obs in ser], f'check_serial sched_params {spec["proj"]}')
        except CoqError as e:
            sbad = []
            report.broke(f'correspondence Serial.check_serial could not be evaluated for {prop}', str(e))
        if sbad:
            case, obs = ser[sbad[0]]
            report.broke(f'correspondence Model/Serial.v (oldest submitted task first, one per polling round) vs the serial backend on projection {prop}: '
                         f'{len(sbad)} of {len(ser)} runs differ',
                         first_case=dict(case=case, observed=dict(outcome=obs['outcome'], events=obs['events'][:80], batches=obs['batches'])))
        dist['serial_strategy_runs_compared'] = len(ser)
    if prop == 'C03':
        # object layer: which task objects carry a result_meta after the run, against Model/ObjPlan.v
        okeep = [(case, obs) for case, obs in results if obs.get('outcome') in ('returned', 'laberror') and 'cls' in obs.get('objects', {})]
        oterms = [S.emit_ocase(case, obs) for case, obs in okeep]
        for case, obs in okeep:
            og = obs['objects']
            if og['kids_real'] != og['kids']:
                i = next(i for i in range(len(og['kids'])) if og['kids'][i] != og['kids_real'][i])
                report.violation('C03:dependency-instances-differ', f"get_direct_dependency_instances of an object of task {og['cls'][i]} returned objects {og['kids_real'][i]}, "
                                                                    f"its parameters hold {og['kids'][i]} (object ids in creation order; every occurrence counts)", dict(case=case))
                break
        try:
            obad = coq_failing('corr_C03_objects', 'Require Import LT.Model.Base LT.Model.Sched LT.Model.ObjPlan.\n', oterms, 'check_ocase')
        except CoqError as e:
            obad = []
            report.broke('correspondence ObjPlan.check_ocase could not be evaluated', str(e))
        if obad:
            case, obs = okeep[obad[0]]
            report.broke(f'correspondence Model/ObjPlan.v vs the marks left on task objects (result_meta): {len(obad)} of {len(oterms)} runs differ',
                         first_case=dict(case=case, objects=obs['objects']))
        dist['object_graphs_compared'] = len(oterms)
        dist['objects_total'] = sum(len(obs['objects']['cls']) for _, obs in okeep)
    if xterms:
        import exec_h as X
        try:
            xbad = coq_failing(f'corr_{prop}_exec', X.EXEC_IMPORTS, xterms, 'check_xcase start_policy_src wait_policy_src')
        except CoqError as e:
            xbad = []
            report.broke(f'correspondence Exec.check_xcase could not be evaluated for {prop}', str(e))
        if xbad:
            c, ops = xkept[xbad[0]]
            report.broke(f'correspondence Model/Exec.v vs ProcessExecutor (scripted gated workers): {len(xbad)} of {len(xterms)} runs differ',
                         first_case=dict(case=c, executor_ops=ops[:60]))
        dist['executor_runs_compared'] = len(xterms)
    report.coverage.update(
        evaluations=len(results), distinct_nontrivial=distinct_nontrivial,
        traces_validated_against_impl=len(results), correspondence_mismatches=(len(bad) if bad is not None else -1),
        rule=('generated DAGs (chains, diamonds, fans, shared leaves, duplicate and equal-but-distinct instances, '
              'nested tuple/list/dict parameters), random types/limits/cache pre-state/failures; L1 = real coordinator '
              'with seeded completion batches, serial/fork/spawn = real runners with recorded batches; a case is '
              'non-trivial when it has >=3 tasks, >=2 dependency edges and >=2 non-empty completion batches'),
        distribution=dict(sorted(dist.items())),
        samples=[dict(case=c, outcome=o['outcome'], batches=o['batches']) for c, o in results[:2]],
        projection=spec['what'])
    return results
