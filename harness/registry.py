"""Property id -> check function(prop, report, tier, seed, replay)."""
import props_sched

REGISTRY = {}
for _p in props_sched.PROPS:
    REGISTRY[_p] = props_sched.run

import props_values
for _p in ('C07', 'C09', 'C15'):
    REGISTRY[_p] = props_values.run

import props_paths
REGISTRY['C18'] = props_paths.run

import props_cache
for _p in ('C06', 'C08', 'C12', 'C13'):
    REGISTRY[_p] = props_cache.run


def _staged(*stages):
    """Run several stages for one property; numeric coverage counts add up, the rest is kept per stage."""
    def run(prop, report, tier, seed, replay=None):
        merged = {}
        for name, fn in stages:
            if replay is not None and replay.get('input') is not None:
                keys = set(replay['input'].keys())
                level = replay['input'].get('level')
                if name == 'values' and replay['input'].get('spec') is None and level != 'store':
                    continue
                if name == 'sched' and 'case' not in keys and level not in ('falsy', 'nested-names', 'die-in-run', 'lingering-worker', 'displays', 'custom-cache'):
                    continue
                if name == 'histories' and 'history' not in keys and level not in ('unreadable-entry', 'zero-duration', 'nested-names', 'second-interpreter', 'mimic', 'main-script'):
                    continue
                if name == 'interrupts' and level not in ('tick-hang', 'line-hang'):
                    continue
                if name != 'interrupts' and level in ('tick-hang', 'line-hang'):
                    continue
                if name == 'store' and level != 'store':
                    continue
            before = dict(report.coverage)
            fn(prop, report, tier, seed, replay)
            stage_cov = {k: v for k, v in report.coverage.items() if before.get(k) != v or k not in before}
            for k in ('evaluations', 'distinct_nontrivial', 'traces_validated_against_impl', 'correspondence_mismatches'):
                if isinstance(stage_cov.get(k), int):
                    merged[k] = merged.get(k, 0) + stage_cov[k]
            merged.setdefault('stages', {})[name] = {k: stage_cov.get(k) for k in ('evaluations', 'distinct_nontrivial', 'rule', 'distribution') if k in stage_cov}
            merged.setdefault('samples', [])
            merged['samples'] += list(stage_cov.get('samples', []))[:2]
        report.coverage.update(merged)
        report.coverage['rule'] = ' || '.join(f"{n}: {st.get('rule', '')}" for n, st in merged.get('stages', {}).items())
    return run


REGISTRY['C09'] = _staged(('values', props_values.run), ('histories', props_cache.run_histories))
REGISTRY['C08'] = _staged(('histories', props_cache.run), ('store', props_values.run_store_stage))
REGISTRY['C17'] = _staged(('sched', props_sched.run), ('histories', props_cache.run_histories))
REGISTRY['C03'] = _staged(('sched', props_sched.run), ('histories', props_cache.run_histories))
REGISTRY['C01'] = _staged(('sched', props_sched.run), ('histories', props_cache.run_histories))
REGISTRY['C02'] = _staged(('sched', props_sched.run), ('histories', props_cache.run_histories))
REGISTRY['C10'] = _staged(('sched', props_sched.run), ('histories', props_cache.run_histories))

import props_diagram
REGISTRY['C20'] = props_diagram.run

import props_env
REGISTRY['C16'] = props_env.run

import props_log
REGISTRY['C19'] = props_log.run

import props_intr
REGISTRY['C14'] = props_intr.run
REGISTRY['C11'] = _staged(('sched', props_sched.run), ('interrupts', props_intr.run_termination_stage))
