"""Property id -> check function(prop, report, tier, seed, replay)."""
import props_sched

REGISTRY = {}
for _p in props_sched.PROPS:
    REGISTRY[_p] = props_sched.run
