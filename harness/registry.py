"""Property id -> check function(prop, report, tier, seed, replay)."""
import props_sched

REGISTRY = {}
for _p in props_sched.PROPS:
    REGISTRY[_p] = props_sched.run

import props_values
for _p in ('C07', 'C09', 'C15'):
    REGISTRY[_p] = props_values.run

import props_paths
REGISTRY['C18'] = props_paths.run

import props_cache
for _p in ('C06', 'C08', 'C12', 'C13'):
    REGISTRY[_p] = props_cache.run
