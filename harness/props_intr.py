"""C14: interrupts.  (a) KeyboardInterrupt injected at every tick (method boundary) of the real coordinator +
ProcessRunner over gated workers, single and double, compared with Model/Intr.v; (b) KeyboardInterrupt injected at
every executed line of labtech code under the serial backend; (c) the same, sampled, under the process runner;
(d) real SIGINT delivery, single and double, at gate-controlled resting points in a fresh interpreter."""
import json
import logging
import os
import random
import shutil
import subprocess
import sys
import tempfile
import threading
import time
from collections import Counter

import labtech
from labtech.exceptions import LabError
from labtech.lab import Lab

import exec_h as X
import intr_h as I
import lv_universe as U
import sched_h as S
from common import coq_failing, rng_for, CoqError, subdir, PY

logging.getLogger('labtech').setLevel(logging.CRITICAL)

PARAMS = ('{| ip := sched_params; ip_gen := gen_mode_src; ip_drain_swallows := drain_swallows_src; '
          'ip_stop_swallows := stop_swallows_src; ip_stop_cancels := stop_cancels_src |}')


HANGS = [0]


def too_many_hangs(obs=None):
    """Runs that only end when the watchdog fires cost its full time-out each: after a handful of them (each one reported) a
    stage stops sampling more positions of the same kind."""
    if obs is not None and obs.get('outcome') == 'hang':
        HANGS[0] += 1
    return HANGS[0] >= 4


def monitor_interrupted(obs, fired, what):
    if fired >= 1 and obs['outcome'] != 'interrupt':
        kind = {'returned': 'returned-normally', 'laberror': 'raised-laberror', 'keyerror': 'raised-keyerror'}.get(obs['outcome'], 'raised-other')
        return (kind, f"{what}: run_tasks ended with {obs['outcome']} ({obs.get('exc')}) instead of KeyboardInterrupt")
    return None


# ------------------------------------------------------------------ (a) tick level, process runner

def small_case(rng, p_fail):
    c = S.gen_case(rng, runner='l2', max_n=5, p_fail=p_fail, allow_dups=False)
    c['max_workers'] = rng.choice([1, 2, 3])
    c['pre'] = []
    return c


def stage_ticks(report, tier, rng, dist):
    n_cases = 3 if tier == 'quick' else 24
    terms, kept = [], []
    for ci in range(n_cases):
        case = small_case(rng, 0.25)
        if ci == 0:
            case['cont'] = False
        if ci == 1:
            # several workers busy when the interrupt arrives: each of them is waited for, however many polling rounds that takes
            nn = 4
            case.update(n=nn, types=[0] * nn, specs=[['tuple', []] for _ in range(nn)], reads=[[] for _ in range(nn)], behs=['ok'] * nn,
                        req=[[t, 0] for t in range(nn)], storage='local', bust=False, cont=True, pre=[], max_workers=3)
        base_obs, _, ticker, _ = I.run_interrupt(case, None, None)
        total = ticker.n
        points = [(k1, None) for k1 in range(total)]
        dbl = [(k1, k2) for k1 in range(total) for k2 in range(0, 10)]
        points += rng.sample(dbl, min(len(dbl), 25 if tier == 'quick' else 100))
        for k1, k2 in points:
            if too_many_hangs():
                dist['stopped_after_repeated_hangs'] = 1
                break
            obs, oracle, ticker, script = I.run_interrupt(case, k1, k2)
            too_many_hangs(obs)
            dist['tick_runs'] += 1
            dist[f"tick_outcome={obs['outcome']}"] += 1
            dist[f'tick_fired={ticker.fired}'] += 1
            v = monitor_interrupted(obs, ticker.fired, f'interrupt at tick {k1}' + (f' and {k1 + 1 + k2}' if k2 is not None else ''))
            pos = ticker.pos_first
            if v is None and pos is not None and any(e[0] == 'submit' for e in obs['events'][pos:]):
                v = ('submitted-after-interrupt', f"tasks {[e[1] for e in obs['events'][pos:] if e[0] == 'submit']} were submitted after the interrupt at tick {k1}")
            if v is None and ticker.fired == 1 and case['storage'] == 'local':
                ref = S.py_ref(case)
                lost = [t for t in ticker.running_at_first if S.CACHEABLE[case['types'][t]] and ref[t] is not None and t not in obs['final_store']]
                if lost:
                    v = ('running-task-not-cached', f'tasks {lost} were executing when the interrupt arrived but their results were not cached')
            if ticker.fired == 1 and obs['outcome'] == 'interrupt' and getattr(script, 'alive_after_single', 0):
                # (not a violation by itself: the property lets executing tasks finish and be cached, it does not say that run_tasks waits
                # for them; a worker whose future the runner had not registered yet when the interrupt landed is not waited for)
                dist['single_interrupt_raised_while_workers_executing'] += 1
            if v is None and ticker.fired >= 2 and script.leftover_alive:
                v = ('worker-left-running', f'{script.leftover_alive} worker processes were still alive after the second interrupt')
            if v is not None:
                report.violation(f'C14:{v[0]}', v[1], dict(case=case, k1=k1, k2=k2, level='tick'))
            term_tids = [script.submit_tids[f] for f in script.terminated_fids if f < len(script.submit_tids)]
            terms.append(I.emit_icase(case, obs, oracle, k1, k2, term_tids, getattr(script, 'nstarted', 0)))
            kept.append(dict(case=case, k1=k1, k2=k2, outcome=obs['outcome']))
    try:
        bad = coq_failing('corr_C14_ticks', I.INTR_IMPORTS, terms, f'check_icase {PARAMS}', shard=150)
    except CoqError as e:
        bad = []
        report.broke('correspondence Intr.check_icase could not be evaluated', str(e))
    if bad:
        report.broke(f'correspondence Model/Intr.v vs coordinator+ProcessRunner under injected interrupts: {len(bad)} of {len(terms)} runs differ',
                     first_case=kept[bad[0]])
    return len(terms), len(bad), kept[:2]


# ------------------------------------------------------------------ (b), (c) line level

class LineInjector:
    """Raises KeyboardInterrupt in the calling thread at the n-th 'line' event inside /repo/labtech code."""

    def __init__(self, target, second=None):
        self.target = target
        self.second = second          # a second interrupt, this many line events after the first
        self.where2 = None
        self.files = []
        self.count = 0
        self.fired = 0
        self.where = None
        self.funcs = []
        self.thread = threading.get_ident()
        self.pid = os.getpid()
        self.prefix = os.path.join(os.environ.get('LV_REPO', '/repo'), 'labtech')

    def _local(self, frame, event, arg):
        if os.getpid() != self.pid:
            return None
        if event == 'line':
            n = self.count
            self.count += 1
            if self.target is None:
                self.files.append(os.path.basename(frame.f_code.co_filename))
                self.funcs.append(frame.f_code.co_name)
            if self.target is not None and n == self.target:
                self.fired += 1
                self.fired_at = time.monotonic()
                self.where = f'{os.path.relpath(frame.f_code.co_filename, self.prefix)}:{frame.f_lineno} ({frame.f_code.co_name})'
                raise KeyboardInterrupt(f'injected at line event {n}')
            if self.target is not None and self.second is not None and n == self.target + 1 + self.second:
                self.fired += 1
                self.where2 = f'{os.path.relpath(frame.f_code.co_filename, self.prefix)}:{frame.f_lineno} ({frame.f_code.co_name})'
                raise KeyboardInterrupt(f'second interrupt injected at line event {n}')
        return self._local

    def _global(self, frame, event, arg):
        if threading.get_ident() != self.thread or os.getpid() != self.pid:
            return None         # (a forked worker inherits the trace function: it must stay inert there)
        if frame.f_code.co_filename.startswith(self.prefix):
            return self._local
        return None

    def __enter__(self):
        if self.second is not None:
            # Python drops a trace function that raises: for a second interrupt the tracing is switched on again when the
            # coordinator announces that it has handled the first one (its "Interrupted." log record), for new calls and for
            # the labtech frames already on the stack
            import logging
            inj = self

            class Rearm(logging.Handler):
                def emit(self, record):
                    if record.getMessage().startswith('Interrupted.') and threading.get_ident() == inj.thread and os.getpid() == inj.pid:
                        f = sys._getframe()
                        while f is not None:
                            if f.f_code.co_filename.startswith(inj.prefix):
                                f.f_trace = inj._local
                            f = f.f_back
                        sys.settrace(inj._global)
            lg = logging.getLogger('labtech')
            self._saved_log = (lg.level, list(lg.handlers), lg.propagate)
            lg.handlers = [Rearm()]
            lg.propagate = False
            lg.setLevel(logging.INFO)
        sys.settrace(self._global)
        return self

    def __exit__(self, *a):
        sys.settrace(None)
        if self.second is not None:
            import logging
            lg = logging.getLogger('labtech')
            lg.setLevel(self._saved_log[0])
            lg.handlers = self._saved_log[1]
            lg.propagate = self._saved_log[2]


def run_lines(case, target, runner, second=None):
    inj = LineInjector(target, second)
    if runner == 'serial':
        import contextlib
        import io
        with (contextlib.redirect_stdout(io.StringIO()) if case.get('top') else contextlib.nullcontext()):
            obs = S.run_case(dict(case, runner='serial'), catch_ki=True, around_run=inj)
        return obs, inj
    X.SCRIPT = X.Script(random.Random(case['sched_seed']), p_kill=0.0, p_idle=0.1)
    try:
        with X.patched():
            obs = S.run_case(dict(case, runner='l2'), backend_factory=lambda rec: S.SpyBackend(X.L2Backend(), rec), catch_ki=True,
                             around_run=inj)
    finally:
        X.SCRIPT = None
    return obs, inj


def stage_lines(report, tier, rng, dist, runner):
    n_cases = {('serial', 'quick'): 3, ('serial', 'thorough'): 5, ('l2', 'quick'): 1, ('l2', 'thorough'): 3}[(runner, tier)]
    runs = 0
    for ci in range(n_cases):
        case = S.gen_case(rng, runner=runner, max_n=4, p_fail=0.2, allow_dups=False)
        case['pre'] = []
        case['max_workers'] = 2
        case['watchdog_s'] = 15
        if ci == 0:
            # independent tasks queueing behind two workers (queued tasks are launched from inside wait()) / behind the one
            # task the serial backend runs at a time
            nn = 4
            case.update(n=nn, types=[0] * nn, specs=[['tuple', []] for _ in range(nn)], reads=[[] for _ in range(nn)], behs=['ok'] * nn,
                        req=[[t, 0] for t in range(nn)], storage='local', bust=False, cont=True)
        if ci == 1:
            case['cont'] = False
        if runner == 'serial' and ci == 2:
            # the task monitor display is on (it samples process statistics from inside the polling loop of the caller)
            case['top'] = True
        if runner == 'serial':
            case['storage'] = 'local'
            case['types'] = [0 if ci % 2 == 0 else t for t in case['types']]     # caching types: the save path is exercised
        _, inj = run_lines(case, None, runner)
        total = inj.count
        save_path = [i for i, f in enumerate(inj.files) if f in ('cache.py', 'storage.py', 'base.py')]
        dist[f'{runner}_line_events'] += total
        # under the process runner: the few-line windows inside the executor (a result being applied, a worker being
        # launched, futures being cancelled or stopped) are targeted on top of the uniform sample
        exec_lines = [i for i, (f, fn) in enumerate(zip(inj.files, inj.funcs)) if f == 'process.py' and 'log' not in fn and 'monitor' not in fn.lower()]
        # every line boundary inside the executor's own state changes (launching a worker, applying a result, cancel, stop)
        critical = [i for i in exec_lines if inj.funcs[i] in ('_start_processes', '_consume_result_queue', '_consume', 'submit', 'cancel', 'stop',
                                                               'set_result', 'set_exception', 'result', 'join', 'close')]
        dist[f'{runner}_executor_line_events'] += len(exec_lines) if runner == 'l2' else 0
        if (runner == 'serial' and tier == 'thorough') or (runner == 'l2' and tier == 'thorough' and ci == 0):
            targets = list(range(total))          # every line event of the run (serial; the wide case under the process runner)
        else:
            k = {('serial', 'quick'): 90, ('l2', 'quick'): 40, ('l2', 'thorough'): 200}[(runner, tier)]
            if runner == 'serial':
                extra = rng.sample(save_path, min(len(save_path), 60))
                if case.get('top'):
                    mon = [i for i, f in enumerate(inj.files) if f == 'monitor.py']
                    extra += rng.sample(mon, min(len(mon), 60))
                    dist['serial_monitor_line_events_targeted'] += min(len(mon), 60)
                    k = 30
            else:
                rest = [i for i in exec_lines if i not in critical]
                extra = (critical if (ci == 0 or tier == 'thorough') else rng.sample(critical, min(len(critical), 40))) + \
                    rng.sample(rest, min(len(rest), 40 if tier == 'quick' else 150))
                dist['l2_critical_line_events_targeted'] += len(critical) if (ci == 0 or tier == 'thorough') else min(len(critical), 40)
            targets = sorted(set(rng.sample(range(total), min(total, k)) + extra))
        for tgt in targets:
            if too_many_hangs():
                dist['stopped_after_repeated_hangs'] = 1
                break
            obs, inj = run_lines(case, tgt, runner)
            too_many_hangs(obs)
            runs += 1
            dist[f"{runner}_line_outcome={obs['outcome']}"] += 1
            def judge(obs, inj):
                v = monitor_interrupted(obs, inj.fired, f'interrupt at {inj.where} under the {runner} runner')
                if v is None and inj.fired == 1 and obs.get('unloadable'):
                    v = ('cache-inconsistent', f"after an interrupt at {inj.where} tasks {obs['unloadable']} are reported cached but cannot be loaded")
                if v is None and inj.fired == 1 and runner == 'serial' and obs.get('start_times'):
                    # under the serial backend tasks run one after the other in the caller: whatever starts executing after
                    # the interrupt was started after it
                    late = sorted(t for t, ts in obs['start_times'].items() if ts > inj.fired_at)
                    if late:
                        v = ('started-after-interrupt', f'tasks {late} began to execute after the interrupt at {inj.where} (serial backend)')
                return v
            v = judge(obs, inj)
            if v is not None:
                # a violation must replay: the same interrupt once more (an outcome that depends on how the runtime's own
                # threads and finalisers interleave, e.g. a sporadic OSError(EBADF) out of a Manager proxy, is not a replay)
                obs2, inj2 = run_lines(case, tgt, runner)
                if judge(obs2, inj2) is None:
                    dist['line_violation_not_reproduced'] += 1
                    report.notes.append(f'line-level run not reproduced on a second attempt: {v[1][:200]}')
                    continue
                report.violation(f'C14:{v[0]}@{(inj.where or "?").split(" ")[0].split(":")[0]}', v[1], dict(case=case, line_event=tgt, where=inj.where, runner=runner, level='line'))
        # two interrupts at line level under the process runner: the second one lands in the handler of the first (cancel,
        # the draining loop, wait, the executor) a few line events later; whatever the pair, KeyboardInterrupt and no hang
        if runner == 'l2':
            firsts = rng.sample(critical, min(len(critical), 30 if tier == 'quick' else 80))
            for tgt in firsts:
                for k2 in rng.sample(range(0, 90), 2 if tier == 'quick' else 4):
                    if too_many_hangs():
                        dist['stopped_after_repeated_hangs'] = 1
                        break
                    obs, inj = run_lines(case, tgt, runner, second=k2)
                    too_many_hangs(obs)
                    runs += 1
                    dist[f'l2_double_line_fired={inj.fired}'] += 1
                    v = monitor_interrupted(obs, inj.fired, f'interrupts at {inj.where} and {inj.where2} under the l2 runner')
                    if v is not None:
                        obs2, inj2 = run_lines(case, tgt, runner, second=k2)
                        if monitor_interrupted(obs2, inj2.fired, '') is None:
                            dist['line_violation_not_reproduced'] += 1
                            continue
                        report.violation(f'C14:{v[0]}@{(inj.where2 or inj.where or "?").split(" ")[0].split(":")[0]}', v[1],
                                         dict(case=case, line_event=tgt, second=k2, where=inj.where, where2=inj.where2, runner=runner, level='line'))
    return runs


# ------------------------------------------------------------------ (d) real signals

def stage_signals(report, tier, rng, dist, only=None):
    cfgs = []
    for backend in (['fork'] if tier == 'quick' else ['fork', 'fork', 'spawn']):
        for double in (False, True):
            cfgs.append(dict(backend=backend, double=double, n=3, max_workers=2, wait_started=2, gap=0.3))
    # a terminal's Ctrl-C goes to the whole foreground process group: the workers receive it too
    cfgs.append(dict(backend='fork', double=False, n=3, max_workers=2, wait_started=2, group=True))
    # tasks that honour SIGTERM only after 8 s: the second interrupt must not wait for them
    cfgs.append(dict(backend='fork', double=True, n=3, max_workers=2, wait_started=2, gap=0.3, term_grace=8))
    if tier == 'thorough':
        cfgs.append(dict(backend='serial', double=False, n=2, max_workers=1, wait_started=1))
        cfgs.append(dict(backend='fork', double=False, n=3, max_workers=2, wait_started=2, no_progress=False, no_top=False))
    if only is not None:
        cfgs = [{k: v for k, v in only.items() if k not in ('gatedir', 'storage', 'result_file')}]
    here = os.path.dirname(os.path.abspath(__file__))
    for cfg in cfgs:
        d = tempfile.mkdtemp(dir=subdir('sig'))
        try:
            cfg = dict(cfg, gatedir=os.path.join(d, 'gates'), storage=os.path.join(d, 'store'), result_file=os.path.join(d, 'result.json'))
            os.makedirs(cfg['gatedir'])
            env = dict(os.environ, PYTHONPATH=os.environ.get('LV_REPO', '/repo') + ':' + here)
            with open(os.path.join(d, 'out.txt'), 'w') as fo:
                p = subprocess.Popen([PY, os.path.join(here, 'l3_sigint.py'), json.dumps(cfg)], env=env, stdout=fo, stderr=fo,
                                     stdin=subprocess.DEVNULL, start_new_session=True)
                try:
                    p.wait(timeout=90)
                except subprocess.TimeoutExpired:
                    pass
                finally:
                    try:
                        os.killpg(p.pid, 9)
                    except OSError:
                        pass
            dist['signal_runs'] += 1
            if not os.path.exists(cfg['result_file']):
                tail = open(os.path.join(d, 'out.txt')).read()[-300:]
                report.violation('C14:signal-run-hung', f'the interrupted run_tasks did not end within 90 s (rc={p.returncode}) {tail}', dict(config=cfg, level='signal'))
                continue
            out = json.load(open(cfg['result_file']))
            dist[f"signal_outcome={out['outcome']}"] += 1
            if out['outcome'] != 'interrupt':
                report.violation('C14:signal-not-keyboardinterrupt', f"real SIGINT ({'double' if cfg['double'] else 'single'}, {cfg['backend']}): run_tasks ended with {out['outcome']}", dict(config=cfg, level='signal'))
            if out['unloadable'] and not cfg['double']:
                report.violation('C14:cache-inconsistent', f"after a single interrupt tasks {out['unloadable']} are reported cached but cannot be loaded", dict(config=cfg, level='signal'))
            if not cfg['double'] and cfg['backend'] != 'serial':
                missing = [t for t in out['started_at_interrupt'] if t not in out['cached']]
                if missing:
                    report.violation('C14:running-task-not-cached', f'tasks {missing} were executing at the interrupt but were not cached', dict(config=cfg, level='signal'))
                extra = [t for t in out['started_total'] if t not in out['started_at_interrupt']]
                if extra:
                    report.violation('C14:started-after-interrupt', f'tasks {extra} were started after the interrupt', dict(config=cfg, level='signal'))
            if cfg['double'] and out['elapsed_after_last_signal'] > 5.0:
                report.violation('C14:second-interrupt-waited', f"run_tasks took {out['elapsed_after_last_signal']:.1f}s to raise after the second interrupt (tasks were blocked)", dict(config=cfg, level='signal'))
        finally:
            shutil.rmtree(d, ignore_errors=True)
    return len(cfgs)


def run_termination_stage(prop, report, tier, seed, replay=None):
    """C11: run_tasks also ends when it is interrupted — one KeyboardInterrupt at every tick of a few small process-runner
    runs (tasks queued behind a single worker included); only non-termination is judged here (the rest is C14)."""
    rng = rng_for(seed, prop, 'intr-termination')
    cases = []
    if replay is not None and replay['input'].get('level') == 'line-hang':
        inp = replay['input']
        obs, inj = run_lines(inp['case'], inp['line_event'], 'l2')
        if obs['outcome'] == 'hang':
            report.violation('C11:no-termination', f"after a KeyboardInterrupt at {inj.where} run_tasks neither returned nor raised: {obs.get('exc')}", inp)
        report.coverage.update(evaluations=1, distinct_nontrivial=1, rule='replay', distribution={})
        return
    if replay is not None:
        cases = [(replay['input']['case'], [replay['input']['k1']])]
    else:
        for ci in range(2 if tier == 'quick' else 10):
            case = small_case(rng, 0.2)
            if ci == 0:
                # independent tasks behind one worker slot: some are still queued when the interrupt arrives
                case.update(max_workers=1, specs=[['tuple', []] for _ in range(case['n'])], reads=[[] for _ in range(case['n'])],
                            req=[[t, 0] for t in range(case['n'])])
            base_obs, _, ticker, _ = I.run_interrupt(case, None, None)
            cases.append((case, list(range(ticker.n))))
    runs = 0
    line_runs = 0
    if replay is None:
        # ... and one at every line boundary of the executor's worker launch (queued tasks are launched from inside wait(): a future
        # that is lost there is never finished, cancelled or failed, and the drain of the first interrupt waits for it for ever)
        nn = 4
        wide = S.gen_case(rng, runner='l2', max_n=4, p_fail=0.0, allow_dups=False)
        wide.update(n=nn, types=[0] * nn, specs=[['tuple', []] for _ in range(nn)], reads=[[] for _ in range(nn)], behs=['ok'] * nn,
                    req=[[t, 0] for t in range(nn)], storage='local', bust=False, cont=True, pre=[], max_workers=2, watchdog_s=12)
        _, inj0 = run_lines(wide, None, 'l2')
        launch = [i for i, fn in enumerate(inj0.funcs) if fn == '_start_processes']
        if tier == 'quick' and len(launch) > 90:
            launch = sorted(rng.sample(launch, 90))
        hung = 0
        for tgt in launch:
            obs, inj = run_lines(wide, tgt, 'l2')
            line_runs += 1
            if obs['outcome'] == 'hang':
                hung += 1
                report.violation('C11:no-termination', f"after a KeyboardInterrupt at {inj.where} (a queued task being launched) run_tasks neither returned nor "
                                                       f"raised: {obs.get('exc')}", dict(case=wide, line_event=tgt, where=inj.where, level='line-hang'))
                if hung >= 2:
                    break
    for case, ks in cases:
        case = dict(case, watchdog_s=12)
        hung = 0
        for k1 in ks:
            obs, oracle, ticker, script = I.run_interrupt(case, k1, None)
            runs += 1
            if obs['outcome'] == 'hang':
                hung += 1
                report.violation('C11:no-termination', f"after a KeyboardInterrupt at tick {k1} run_tasks neither returned nor raised: {obs.get('exc')}",
                                 dict(case=case, k1=k1, level='tick-hang'))
                if hung >= 2:
                    break
    report.coverage.update(evaluations=runs, distinct_nontrivial=runs, traces_validated_against_impl=runs, correspondence_mismatches=0,
                           rule='one KeyboardInterrupt at every tick of small process-runner runs, and at the line boundaries of the executor\'s worker launch; termination only',
                           distribution={'interrupted_runs': runs, 'interrupted_launch_lines': line_runs})


def run(prop, report, tier, seed, replay=None):
    rng = rng_for(seed, prop, 'intr')
    dist = Counter()
    if replay is not None:
        inp = replay['input']
        if inp.get('level') == 'tick':
            obs, oracle, ticker, script = I.run_interrupt(inp['case'], inp['k1'], inp['k2'])
            v = monitor_interrupted(obs, ticker.fired, 'replay')
            if v:
                report.violation(f'C14:{v[0]}', v[1], inp)
        elif inp.get('level') == 'line':
            obs, inj = run_lines(inp['case'], inp['line_event'], inp['runner'], second=inp.get('second'))
            v = monitor_interrupted(obs, inj.fired, f'replay at {inj.where}')
            if v is None and inj.fired == 1 and obs.get('unloadable'):
                v = ('cache-inconsistent', f"tasks {obs['unloadable']} are reported cached but cannot be loaded")
            if v is None and inj.fired == 1 and inp['runner'] == 'serial' and obs.get('start_times'):
                late = sorted(t for t, ts in obs['start_times'].items() if ts > inj.fired_at)
                if late:
                    v = ('started-after-interrupt', f'tasks {late} began to execute after the interrupt at {inj.where} (serial backend)')
            if v:
                report.violation(f'C14:{v[0]}', v[1], inp)
        elif inp.get('level') == 'signal':
            stage_signals(report, tier, rng, dist, only=inp['config'])
        report.coverage.update(evaluations=1, distinct_nontrivial=2, rule='replay', samples=[inp])
        return
    n_t, bad, samples = stage_ticks(report, tier, rng, dist)
    n_ls = stage_lines(report, tier, rng, dist, 'serial')
    n_lp = stage_lines(report, tier, rng, dist, 'l2')
    n_s = stage_signals(report, tier, rng, dist)
    report.coverage.update(
        evaluations=n_t + n_ls + n_lp + n_s, distinct_nontrivial=n_t + n_ls + n_lp + n_s,
        traces_validated_against_impl=n_t, correspondence_mismatches=bad,
        rule=('(a) every tick (entry/exit of start_task, submit_task, executor.submit, wait, Future.result, complete_task, '
              'remove_results, cancel, stop) of runs of generated graphs (<=5 tasks, failures, max_workers 1-3) under the real '
              'ProcessRunner with gated workers: all single interrupts, sampled double interrupts, compared with Model/Intr.v; '
              '(b) KeyboardInterrupt at executed lines of labtech code under the serial runner (thorough: every line event), '
              '(c) sampled under the process runner; (d) real SIGINT, single and double, in a fresh interpreter with tasks blocked '
              'on gates; every run is distinct (graph x interrupt position) and non-trivial (an interrupt is delivered)'),
        distribution=dict(sorted(dist.items())), samples=samples)
