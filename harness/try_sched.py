import sys, random, json
sys.path.insert(0,'/verif/harness')
import sched_h as S, common as C
rng = random.Random(int(sys.argv[1]) if len(sys.argv)>1 else 0)
N = int(sys.argv[2]) if len(sys.argv)>2 else 50
runner = sys.argv[3] if len(sys.argv)>3 else 'l1'
cases=[]; terms=[]
from collections import Counter
oc=Counter()
for i in range(N):
    c = S.gen_case(rng, runner=runner)
    o = S.run_case(c)
    oc[o['outcome']]+=1
    cases.append((c,o)); terms.append(S.emit_case(c,o))
print(oc)
bad = C.coq_failing('try', S.SCHED_IMPORTS, terms, 'check_case sched_params')
print('mismatch', bad)
for b in bad[:3]:
    c,o=cases[b]; print(json.dumps(c)); print(o['outcome'], o.get('exc')); print(o['events']); print(terms[b])
