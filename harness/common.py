"""Shared machinery of the check driver: scratch space, Coq build/evaluation, Gallina literal emission,
known findings, verdict and evidence."""
import atexit
import fcntl
import hashlib
import json
import os
import random
import re
import shutil
import subprocess
import sys
import time

VERIF = os.path.dirname(os.path.dirname(os.path.abspath(__file__)))
COQ = os.path.join(VERIF, 'coq')
REPO = os.environ.get('LV_REPO', '/repo')
SCRATCH_ROOT = os.environ.get('LV_SCRATCH', '/root/.cache/labtech-verif')
PY = '/venv/bin/python'

_scratch = None


def scratch():
    global _scratch
    if _scratch is None:
        _scratch = os.path.join(SCRATCH_ROOT, f'{os.getpid()}')
        os.makedirs(_scratch, exist_ok=True)
        atexit.register(lambda: shutil.rmtree(_scratch, ignore_errors=True))
    return _scratch


def subdir(name):
    d = os.path.join(scratch(), name)
    os.makedirs(d, exist_ok=True)
    return d


# ---------------------------------------------------------------- Gallina literals

def g_bool(b):
    return 'true' if b else 'false'


def g_list(xs):
    return '[' + '; '.join(xs) + ']'


def g_nats(xs):
    return '[' + '; '.join(str(int(x)) for x in xs) + ']'


def g_opt(x):
    return 'None' if x is None else f'(Some {x})'


def g_pair(a, b):
    return f'({a}, {b})'


def g_N(n):
    return f'{int(n)}%N'


def g_Z(n):
    n = int(n)
    return f'({n})%Z'


def g_str(s):
    """Python str -> list N of code points."""
    return '[' + '; '.join(f'{ord(ch)}%N' for ch in s) + ']'


def g_val(v):
    """('N', label, (args...)) -> Node label [args]"""
    assert isinstance(v, tuple) and v[0] == 'N', v
    return f'(Node {int(v[1])} {g_list([g_val(a) for a in v[2]])})'


# ---------------------------------------------------------------- Coq build and evaluation

class CoqError(Exception):
    pass


def _run(cmd, timeout, cwd=None, env=None):
    t0 = time.time()
    try:
        p = subprocess.run(cmd, cwd=cwd, env=env, stdout=subprocess.PIPE, stderr=subprocess.STDOUT,
                           timeout=timeout, text=True)
        return p.returncode, p.stdout, time.time() - t0
    except subprocess.TimeoutExpired as e:
        out = e.stdout if isinstance(e.stdout, str) else (e.stdout or b'').decode('utf8', 'replace')
        return 124, out + '\n[timeout]', time.time() - t0


def coq_files():
    out = []
    for sub in ('Model', 'Gen', 'Proofs', 'Properties'):
        d = os.path.join(COQ, sub)
        if os.path.isdir(d):
            out += sorted(os.path.join(sub, f) for f in os.listdir(d) if f.endswith('.v'))
    return out


class Lock:
    def __enter__(self):
        self.f = open(os.path.join(COQ, '.lock'), 'w')
        fcntl.flock(self.f, fcntl.LOCK_EX)
        return self

    def __exit__(self, *a):
        fcntl.flock(self.f, fcntl.LOCK_UN)
        self.f.close()


def coq_build(target=None, jobs=8, timeout=1500):
    """(Re)generate the Makefile and build `target` (e.g. Properties/C04.vo) or everything.
    Returns (ok, log)."""
    with Lock():
        files = coq_files()
        rc, out, _ = _run(['coq_makefile', '-f', '_CoqProject', '-o', 'Makefile'] + files, 60, cwd=COQ)
        if rc != 0:
            return False, out
        cmd = ['make', f'-j{jobs}'] + (target.split() if target else [])
        rc, out, dt = _run(cmd, timeout, cwd=COQ)
        return rc == 0, out


def coq_cone(target_v):
    """The .v files `target_v` (relative to coq/) depends on, itself included, via coqdep."""
    seen, todo = [], [target_v]
    while todo:
        f = todo.pop()
        if f in seen:
            continue
        seen.append(f)
        try:
            src = open(os.path.join(COQ, f)).read()
        except OSError:
            continue
        for m in re.finditer(r'LT\.(Model|Gen|Proofs|Properties)\.(\w+)', src):
            todo.append(f'{m.group(1)}/{m.group(2)}.v')
    return sorted(seen)


def count_obligations(files):
    n = 0
    for f in files:
        try:
            src = open(os.path.join(COQ, f)).read()
        except OSError:
            continue
        n += len(re.findall(r'\b(?:Qed|Defined)\.', src))
    return n


def coq_compile_capture(rel_v, timeout=600):
    """Re-compile one file of the development, returning (ok, stdout) — used to capture Print Assumptions."""
    with Lock():
        rc, out, _ = _run(['coqc', '-Q', '.', 'LT', '-w', '-deprecated-hint-without-locality,-notation-overridden',
                           rel_v], timeout, cwd=COQ)
    return rc == 0, out


def parse_assumptions(out):
    """Split coqc output of a Properties file into {theorem: 'Closed under the global context' | axioms text}."""
    res = []
    blocks = re.split(r'\n(?=Closed under the global context|Axioms:)', '\n' + out)
    for b in blocks:
        b = b.strip()
        if b.startswith('Closed under the global context'):
            res.append('closed')
        elif b.startswith('Axioms:'):
            res.append(b)
    return res


def coq_eval(name, text, timeout=900):
    """Compile a scratch file that imports the development; return its stdout."""
    d = subdir('corr')
    path = os.path.join(d, f'{name}.v')
    with open(path, 'w') as f:
        f.write(text)
    if os.environ.get('LV_KEEP_COQ'):            # debugging aid: keep a copy of every evaluated scratch file
        os.makedirs(os.environ['LV_KEEP_COQ'], exist_ok=True)
        shutil.copy(path, os.environ['LV_KEEP_COQ'])
    rc, out, dt = _run(['coqc', '-Q', COQ, 'LT', '-w', '-deprecated-hint-without-locality,-notation-overridden',
                        path], timeout, cwd=d)
    if rc != 0:
        raise CoqError(out[-4000:])
    return out


def parse_nat_list(out, marker=None):
    """Parse the first `= [..] : list nat` printed by Eval/Compute."""
    m = re.search(r'=\s*(\[[^\]]*\]|nil)\s*:\s*list nat', out.replace('\n', ' '))
    if not m:
        raise CoqError('cannot parse: ' + out[-2000:])
    body = m.group(1)
    if body in ('nil', '[]'):
        return []
    return [int(x) for x in re.findall(r'\d+', body)]


def storage_of(lab):
    """The Storage object of a Lab (held in a private attribute)."""
    st = getattr(lab, '_storage', None)
    if st is not None:
        return st
    from labtech.types import Storage
    for v in vars(lab).values():
        if isinstance(v, Storage):
            return v
    raise AttributeError('no Storage found on the Lab object')


def decode_strs(out):
    """Coq prints a [str] as a list of code points: turn every such list in `out` back into a quoted string."""
    def one(m):
        try:
            return json.dumps(''.join(chr(int(x)) for x in re.findall(r'(\d+)%N', m.group(0))))
        except (ValueError, OverflowError):
            return m.group(0)
    return re.sub(r'\[\s*\d+%N(?:;\s*\d+%N)*\s*\]', one, out)


def coq_failing(name, imports, case_terms, checker, shard=400, timeout=900, jobs=8):
    """Evaluate `checker` on every case term inside Coq; return indices of cases where it is false."""
    from concurrent.futures import ThreadPoolExecutor
    shards = [(i, case_terms[i:i + shard]) for i in range(0, len(case_terms), shard)]
    # the modules the evaluation imports must be compiled (they need not be in the cone of the property file)
    mods = sorted({f'{kind}/{mod}.vo' for kind, mod in re.findall(r'LT\.(Model|Gen|Proofs)\.(\w+)', imports)})
    if mods:
        # always through make: a compiled module may be stale because something it depends on changed
        ok, log = coq_build(' '.join(mods))
        if not ok:
            raise CoqError('could not build ' + ' '.join(mods) + '\n' + log[-1500:])

    def one(arg):
        off, terms = arg
        text = imports + '\nDefinition cases := ' + g_list(['\n  ' + t for t in terms]) + '.\n' + \
            f'Eval vm_compute in (failing ({checker}) cases).\n'
        out = coq_eval(f'{name}_{off}', text, timeout=timeout)
        return [off + i for i in parse_nat_list(out)]
    bad = []
    with ThreadPoolExecutor(max_workers=jobs) as ex:
        for r in ex.map(one, shards):
            bad += r
    return sorted(bad)


# ---------------------------------------------------------------- known findings, verdict, evidence

def load_known():
    p = os.path.join(VERIF, 'known_findings.json')
    if not os.path.exists(p):
        return []
    return json.load(open(p)).get('findings', [])


def write_replay(prop, payload):
    d = os.path.join(VERIF, 'replays', prop)
    os.makedirs(d, exist_ok=True)
    h = hashlib.sha1(json.dumps(payload, sort_keys=True, default=repr).encode()).hexdigest()[:12]
    path = os.path.join(d, f'{h}.json')
    with open(path, 'w') as f:
        json.dump(payload, f, indent=1, sort_keys=True, default=repr)
    return path


class Report:
    """Collected during one check run; `finish` decides the verdict and writes the evidence."""

    def __init__(self, prop, tier, seed):
        self.prop, self.tier, self.seed = prop, tier, seed
        self.t0 = time.time()
        self.violations = []          # dicts {signature, what, input, kind}
        self.broken = []              # dicts {what: theorem/correspondence name, detail, first_case}
        self.coverage = {}
        self.assumptions = []
        self.notes = []

    def violation(self, signature, what, input, kind='monitor'):
        self.violations.append(dict(signature=signature, what=what, input=input, kind=kind))

    def broke(self, what, detail='', first_case=None):
        self.broken.append(dict(what=what, detail=detail[-3000:], first_case=first_case))

    def finish(self, level='proof'):
        known = [k for k in load_known() if k.get('property') == self.prop and k.get('status') == 'open']
        known_sigs = {k['signature']: k for k in known}
        lines, unlisted, listed = [], [], {}
        for v in self.violations:
            if v['signature'] in known_sigs:
                listed.setdefault(v['signature'], v)
            else:
                unlisted.append(v)
        for sig, v in listed.items():
            lines.append(f"KNOWN-FINDING: property={self.prop} {known_sigs[sig]['what']}")
        rc = 0
        seen_sig = set()
        for v in unlisted:
            if v['signature'] in seen_sig:
                continue
            seen_sig.add(v['signature'])
            path = write_replay(self.prop, dict(property=self.prop, kind=v['kind'], seed=self.seed, tier=self.tier,
                                                signature=v['signature'], what=v['what'], input=v['input'],
                                                broken=[b['what'] for b in self.broken]))
            lines.append(f'VIOLATION property={self.prop} replay={path}')
            rc = 1
        if self.broken and not unlisted:
            # a proof obligation or the correspondence no longer checks; is it explained by a listed finding?
            unexplained = [b for b in self.broken if not b.get('explained_by_known')]
            if unexplained:
                path = write_replay(self.prop, dict(property=self.prop, kind='proof-or-correspondence', tier=self.tier,
                                                    seed=self.seed, broken=unexplained))
                lines.append(f'VIOLATION property={self.prop} replay={path} no-failing-input-found')
                rc = 1
        cov = dict(self.coverage)
        ev = dict(property_id=self.prop, tier=self.tier, seed=self.seed, level=level, coverage=cov,
                  assumptions=self.assumptions, wall_s=round(time.time() - self.t0, 2),
                  violations=len(unlisted) + (1 if rc and not unlisted else 0))
        ev['coverage'].setdefault('known_findings_seen', sorted(listed))
        ev['coverage'].setdefault('broken', [b['what'] for b in self.broken])
        ev['coverage'].setdefault('notes', self.notes)
        os.makedirs(os.path.join(VERIF, 'evidence'), exist_ok=True)
        with open(os.path.join(VERIF, 'evidence', f'{self.prop}.json'), 'w') as f:
            json.dump(ev, f, indent=1, default=repr)
        for ln in lines:
            print(ln)
        print(f'[{self.prop}] tier={self.tier} seed={self.seed} exit={rc} wall={ev["wall_s"]}s '
              f'broken={len(self.broken)} violations={len(unlisted)} known={len(listed)}')
        sys.stdout.flush()
        return rc


TRUSTED_BASE = [
    'Coq 8.16.1 kernel incl. vm_compute (no native_compute)',
    'hand-written Gallina models under /verif/coq/Model (tie: correspondence runs + Gen/SrcParams.v)',
    'harness/srcparams.py (ast extraction of constants/operators from /repo; where a shape is not recognised, harness/srcprobe.py\'s behavioural probe of the function, listed under srcparams_inferred)',
    'harness emit/canonicalisation code and the Python runtime below labtech (pickle, json, sha1, pathlib, multiprocessing)',
]


def proof_stage(report, prop):
    """Steps 1-2 of the driver: regenerate SrcParams.v, build the property's cone, capture assumptions."""
    import srcparams
    changed = srcparams.regenerate()
    target_v = f'Properties/{prop}.v'
    ok, log = coq_build(f'Properties/{prop}.vo')
    cone = coq_cone(target_v)
    obligations = count_obligations(cone)
    discharged = obligations if ok else 0
    assumptions = []
    if ok:
        ok2, out = coq_compile_capture(target_v)
        assumptions = parse_assumptions(out)
        if not ok2:
            ok, log = False, out
        bad = [a for a in assumptions if a != 'closed']
        if bad:
            report.broke(f'Print Assumptions of {target_v} is not closed', '\n'.join(bad))
    if not ok:
        m = re.search(r'File "\./([^"]+)", line (\d+)', log)
        where = f'{m.group(1)}:{m.group(2)}' if m else target_v
        report.broke(f'proof obligation does not check: {where}', log)
    report.coverage.update(obligations=obligations, discharged=discharged,
                           checker_cmd=f'make -C coq Properties/{prop}.vo && coqc Properties/{prop}.v (Print Assumptions)',
                           trusted_base=TRUSTED_BASE, cone=cone,
                           print_assumptions=assumptions, srcparams_changed=changed,
                           srcparams_inferred=list(srcparams.INFERRED))
    return ok


def rng_for(seed, *salt):
    return random.Random(f'{seed}:' + ':'.join(map(str, salt)))
