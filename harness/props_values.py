"""Checks for the value-grammar properties C07 (cache keys), C09 (reconstruction), C15 (immutability, equality,
copying): correspondence of the real constructor / find_tasks_in_param / Serializer / == with Model/Values.v, plus
the property monitors."""
import dataclasses
import hashlib
import json
import os
import pickle
import subprocess
import sys
import tempfile
from collections import Counter

from frozendict import frozendict

import labtech
from labtech.storage import LocalStorage
from labtech.exceptions import TaskError
from labtech.tasks import find_tasks_in_param, get_direct_dependencies
from labtech.types import is_task

import lv_universe as U
import values_h as V
from common import coq_failing, rng_for, CoqError, g_list, g_bool, subdir, PY
from common import storage_of


def has_nan(spec):
    if spec == ['float', 'nan']:
        return True
    k = spec[0]
    if k in ('list', 'tuple', 'mytuple'):
        return any(has_nan(x) for x in spec[1])
    if k == 'dict':
        return any(has_nan(v) for _, v in spec[2])
    if k == 'task':
        return any(has_nan(v) for _, v in spec[3])
    return False


def has_mutable(x):
    if isinstance(x, frozendict):
        return any(has_mutable(i) for i in x.values())
    if isinstance(x, (list, dict)):
        return True
    if isinstance(x, tuple):
        return any(has_mutable(i) for i in x)
    return False


def depth(spec):
    k = spec[0]
    if k in ('list', 'tuple', 'mytuple'):
        return 1 + max([depth(x) for x in spec[1]] + [0])
    if k == 'dict':
        return 1 + max([depth(v) for _, v in spec[2]] + [0])
    if k == 'task':
        return 1 + max([depth(v) for _, v in spec[3]] + [0])
    return 0


def vcase_term(spec, st, t):
    if st == 'ok':
        norm = V.g_opt(V.g_value_py(t.x))
        found = g_list([V.g_value_py(x) for x in find_tasks_in_param(t.x)])
        ser = V.g_json(V.ser_task(t))
        rs, rt = V.roundtrip(t)
        try:
            des = V.g_opt(V.g_value_py(rt)) if rs == 'ok' else 'None'
        except TypeError:
            des = 'None'
    else:
        norm, found, ser, des = 'None', '[]', 'JNull', 'None'
    return '{| vc_raw := %s; vc_norm := %s; vc_found := %s; vc_ser := %s; vc_deser := %s |}' % (V.g_raw(spec), norm, found, ser, des)


# ------------------------------------------------------------------ monitors

def mon_C15(spec, st, t):
    bad = V.contains_bad(spec)
    if bad and st != 'unbuildable':
        # the same tree handed to a task type without a cache (no serialisation happens at construction) is rejected too
        try:
            U.VN(x=V.build(spec))
            return ('accepted-unsupported', 'an unsupported value or non-string dict key was accepted by a task type with cache=None')
        except TaskError:
            pass
        except BaseException as e:   # noqa
            return ('wrong-exception', f'constructor of a cache=None task type raised {e!r} instead of TaskError')
    if st == 'other':
        return ('wrong-exception', f'constructor raised {t} instead of TaskError')
    if st == 'taskerror':
        return None if bad else ('rejected-supported', f'a supported parameter tree was rejected: {t}')
    if bad:
        return ('accepted-unsupported', 'an unsupported value or non-string dict key was accepted')
    if has_mutable(t.x):
        return ('mutable-left', f'normalised parameter still contains a list or dict: {t.x!r}')
    try:
        t.x = 1
        return ('not-frozen', 'attribute assignment on a task succeeded')
    except dataclasses.FrozenInstanceError:
        pass
    try:
        h = hash(t)
    except TypeError as e:
        return ('unhashable', f'hash(task) raised {e}')
    nan = has_nan(spec)
    if not nan:
        t2 = U.V2(x=V.build(spec))
        if not (t2 == t) or hash(t2) != h:
            return ('equal-params-unequal-tasks', 'two tasks built from equal parameters differ in ==/hash')
        try:
            t3 = U.V2(x=V.build(V.respell(spec)))
        except BaseException as e:   # noqa
            return ('rejected-supported', f'the same parameters spelt differently (1 / 1.0 / True, dict entries in another order) were rejected: {e!r}')
        if not (t3 == t and t == t3) or hash(t3) != h:
            return ('equal-params-unequal-tasks', 'two tasks built from equal parameters spelt differently (1 / 1.0 / True, dict entries in another '
                                                  'insertion order) differ in ==/hash')
        other = U.V(x=V.build(spec))
        if other == t:
            return ('equal-across-types', 'tasks of different types compare equal')
    # a copy through pickling, with results/context attached to the original
    t._set_results_map({t: 'R'})
    t.set_context({'c': 1})
    for proto in range(2, pickle.HIGHEST_PROTOCOL + 1):
        try:
            c = pickle.loads(pickle.dumps(t, protocol=proto))
        except BaseException as e:   # noqa
            return ('unpicklable', f'pickle protocol {proto}: {e!r}')
        if not nan and not (c == t and hash(c) == h):
            return ('copy-unequal', f'pickled copy (protocol {proto}) is not equal to the original')
        if c.cache_key != t.cache_key:
            return ('copy-key-differs', 'pickled copy has another cache_key')
        if not nan and list(get_direct_dependencies(c)) != list(get_direct_dependencies(t)):
            return ('copy-deps-differ', 'pickled copy finds other dependencies')
        if getattr(c, '_results_map', None) is not None or hasattr(c, '_result') or getattr(c, 'context', None) is not None:
            return ('copy-carries-state', 'pickled copy carries a results map, result or context')
        if not hasattr(c, 'context') or not hasattr(c, 'result_meta'):
            return ('copy-attrs-missing', 'pickled copy lacks the context/result_meta attributes every task has')
    tp = U.VPost(x=V.build(spec))
    cp = pickle.loads(pickle.dumps(tp))
    if getattr(cp, 'derived', None) != tp.derived:
        return ('copy-post-init-lost', 'pickled copy of a post_init task lacks the attribute post_init derives')
    # post_init inherited from a mixin, and from a parent task type: it runs at construction and in every copy
    for ty in (U.VPostMix, U.VPostSub):
        ti = ty(x=V.build(spec))
        want = ('derived', repr(ti.x))
        if getattr(ti, 'derived', None) != want:
            return ('post-init-not-run', f'{ty.__qualname__} inherits its post_init; the constructed task lacks what post_init derives')
        if getattr(pickle.loads(pickle.dumps(ti)), 'derived', None) != want:
            return ('copy-post-init-lost', f'pickled copy of a {ty.__qualname__} (inherited post_init) lacks the attribute post_init derives')
    # a task type whose post_init canonicalises its own parameter (strings lower-cased, tuples sorted)
    tr = U.VRewrite(x=V.build(spec))
    cr = pickle.loads(pickle.dumps(tr))
    if cr.cache_key != tr.cache_key:
        return ('copy-key-differs', f'pickled copy of a task whose post_init rewrites its parameter has another cache_key ({tr.cache_key} -> {cr.cache_key})')
    if not nan and not (cr == tr and hash(cr) == hash(tr)):
        return ('copy-unequal', 'pickled copy of a task whose post_init rewrites its parameter is not equal to the original')
    if getattr(cr, 'derived', None) != tr.derived:
        return ('copy-post-init-lost', 'pickled copy of a parameter-rewriting task lacks the attribute post_init derives')
    return None


def expected_key(t):
    js = json.dumps(V.ser_task(t)).encode('utf-8')
    return f'{t._lt.cache.KEY_PREFIX}{type(t).__qualname__}__{hashlib.sha1(js).hexdigest()}'


_STORAGE = None


def storage():
    global _STORAGE
    if _STORAGE is None:
        _STORAGE = LocalStorage(tempfile.mkdtemp(dir=subdir('vals')))
    return _STORAGE


def mon_C07(spec, st, t, seen):
    if st == 'other' and not V.contains_bad(spec):
        return ('construct-raised', f'a task over supported parameter values cannot be constructed (so it has no key): {t}')
    if st != 'ok':
        return None
    key = t.cache_key
    if key != expected_key(t):
        return ('key-shape', f'cache_key {key} is not prefix+qualname+__+sha1(json(serialised task))')
    t2 = U.V2(x=V.build(spec))
    if t2.cache_key != key:
        return ('unstable', 'building the same task twice gives different keys')
    if pickle.loads(pickle.dumps(t)).cache_key != key:
        return ('unstable-pickle', 'key changes after pickling')
    rs, rt = V.roundtrip(t)
    if rs == 'ok' and rt.cache_key != key:
        return ('unstable-reconstruct', 'key changes after reconstruction from cache metadata')
    # a type whose post_init canonicalises its parameter: the key is that of the task as it ends up
    tr = U.VRewrite(x=V.build(spec))
    if tr.cache_key != U.VRewrite(x=tr.x).cache_key:
        return ('unstable-reconstruct', 'a task whose post_init rewrites its parameter has another cache_key than the equal task built from the rewritten value')
    try:
        storage().exists(key)
    except BaseException as e:  # noqa
        return ('key-rejected', f'LocalStorage rejects key {key!r}: {e!r}')
    for ty in (U.Vuni1, U.Vuni2):          # module-level types whose names are not ASCII
        try:
            storage().exists(ty(x=t.x).cache_key)
        except BaseException as e:  # noqa
            return ('key-rejected', f'LocalStorage rejects the key of a module-level task type named {ty.__qualname__!r}: {e!r}')
    ident = V.g_value_py(t)
    prev = seen.get(key)
    if prev is not None and prev[0] != ident:
        sig = 'reserved-key-collision' if (spec_reserved(spec) or spec_reserved(prev[1])) else 'collision'
        return (sig, f'distinct tasks share cache_key {key}: {prev[1]!r} vs {spec!r}')
    seen[key] = (ident, spec)
    # same parameter under another type / a same-named type in another module / a prefix-named type
    import lv_universe2 as U2
    import lv_pkg.sub.defs as PD
    import lv_pkg.other as PO
    others = [U.V(x=t.x), U2.V2(x=t.x), U.VV(x=t.x), PD.V2(x=t.x), PO.V2(x=t.x), U.NestA_V2(x=t.x), U.NestB_V2(x=t.x)]
    if len({o.cache_key for o in others}) != len(others):
        return ('type-collision', 'two different task types (same class name in different modules / enclosing classes) share a cache key for equal parameters')
    for other in others:
        if other.cache_key == key:
            return ('type-collision', f'{type(other).__module__}.{type(other).__qualname__} shares the key of lv_universe.V2')
    return None


def spec_reserved(spec):
    k = spec[0]
    if k == 'dict':
        keys = [ks[1] for ks, _ in spec[2] if ks[0] == 'str']
        if '_is_task' in keys or '_is_enum' in keys:
            return True
        return any(spec_reserved(v) for _, v in spec[2])
    if k in ('list', 'tuple', 'mytuple'):
        return any(spec_reserved(x) for x in spec[1])
    if k == 'task':
        return any(spec_reserved(v) for _, v in spec[3])
    return False


def mon_C09(spec, st, t):
    if st != 'ok':
        return None
    rs, rt = V.roundtrip(t)
    sig_prefix = 'reserved-' if spec_reserved(spec) else ''
    if rs != 'ok':
        return (sig_prefix + 'reconstruct-raised', f'deserialize_task raised {rt}')
    try:
        same = V.g_value_py(rt) == V.g_value_py(t)
    except TypeError:
        same = False
    if not same:
        return (sig_prefix + 'reconstruct-differs', f'reconstructed task {rt!r} differs from the original {t!r}')
    if rt.cache_key != t.cache_key:
        return (sig_prefix + 'reconstruct-key-differs', 'reconstructed task has another cache_key')
    if not has_nan(spec) and not (rt == t):
        return (sig_prefix + 'reconstruct-unequal', 'reconstructed task is not == to the original')
    return None


FRESH = r'''
import sys, json
sys.path.insert(0, %r)
import values_h as V
specs = json.load(open(sys.argv[1]))
out = []
for s in specs:
    st, t = V.construct(s)
    out.append(t.cache_key if st == 'ok' else None)
print(json.dumps(out))
'''


CROSS_A = r'''
import sys, json, pickle
sys.path.insert(0, %r)
import values_h as V
specs = json.load(open(sys.argv[1]))
tasks = [V.construct(s)[1] for s in specs]
for t in tasks:
    hash(t)
pickle.dump(tasks, open(sys.argv[2], 'wb'))
'''
CROSS_B = r'''
import sys, json, pickle
sys.path.insert(0, %r)
import values_h as V
from labtech.tasks import get_direct_dependencies
specs = json.load(open(sys.argv[1]))
copies = pickle.load(open(sys.argv[2], 'rb'))
out = []
for i, (s, c) in enumerate(zip(specs, copies)):
    f = V.construct(s)[1]
    if not (c == f):
        out.append([i, 'copy-unequal-across-processes'])
    elif hash(c) != hash(f):
        out.append([i, 'copy-hash-differs-across-processes'])
    elif c not in {f} or f not in {c: 1}:
        out.append([i, 'copy-not-found-in-set'])
    elif c.cache_key != f.cache_key:
        out.append([i, 'copy-key-differs'])
    elif list(get_direct_dependencies(c)) != list(get_direct_dependencies(f)):
        out.append([i, 'copy-deps-differ'])
print(json.dumps(out))
'''


def cross_process_copies(specs):
    """Pickle tasks in one interpreter, unpickle them in another one with a different hash seed, compare with freshly
    built tasks there (as happens when a task crosses a process boundary under the spawn backend)."""
    here = os.path.dirname(os.path.abspath(__file__))
    d = subdir('vals')
    sp, pk = os.path.join(d, 'cross_specs.json'), os.path.join(d, 'cross.pickle')
    with open(sp, 'w') as f:
        json.dump(specs, f)
    for code, seed_ in ((CROSS_A, 11), (CROSS_B, 22)):
        env = dict(os.environ, PYTHONHASHSEED=str(seed_), PYTHONPATH=os.environ.get('LV_REPO', '/repo') + ':' + here)
        out = subprocess.run([PY, '-c', code % here, sp, pk], env=env, stdout=subprocess.PIPE, stderr=subprocess.PIPE, text=True, timeout=600)
        if out.returncode != 0:
            raise RuntimeError(out.stderr[-2000:])
    return json.loads(out.stdout.strip().splitlines()[-1])


def fresh_keys(specs, hashseed):
    d = subdir('vals')
    p = os.path.join(d, f'specs_{hashseed}.json')
    with open(p, 'w') as f:
        json.dump(specs, f)
    env = dict(os.environ, PYTHONHASHSEED=str(hashseed), PYTHONPATH=os.environ.get('LV_REPO', '/repo') + ':' + os.path.dirname(os.path.abspath(__file__)))
    out = subprocess.run([PY, '-c', FRESH % os.path.dirname(os.path.abspath(__file__)), p], env=env,
                         stdout=subprocess.PIPE, stderr=subprocess.PIPE, text=True, timeout=600)
    if out.returncode != 0:
        raise RuntimeError(out.stderr[-2000:])
    return json.loads(out.stdout.strip().splitlines()[-1])


VOLUME = {'quick': 700, 'thorough': 12000}


def stage_store_roundtrip(report, tier, rng, dist, prop='C09'):
    """C09 through the real save / cached_tasks path: tasks of several types (same name in two modules, prefix-related
    names, a second cache format) with generated parameter trees are run and cached in one storage; cached_tasks per
    type must return exactly the cached tasks of that type, each once, structurally identical, same key, with the
    stored result_meta, and running them must load."""
    import shutil
    import lv_universe2 as U2
    from labtech.lab import Lab
    n = (120 if tier == 'quick' else 1500) if prop == 'C09' else (80 if tier == 'quick' else 600)
    import lv_pkg.sub.defs as PD
    import lv_pkg.other as PO
    types = [U.V2, U.V, U.VV, U2.V2, U.VJ, U.V1, U.VPost, PD.V2, PO.V2, U.VRewrite, U.VDef]
    d = tempfile.mkdtemp(dir=subdir('vals'))
    done = 0
    try:
        for batch in range(0, n, 40):
            storage = os.path.join(d, f's{batch}')
            lab = Lab(storage=storage, runner_backend='serial', notebook=False)
            tasks = []
            for _ in range(40):
                spec = V.gen_spec(rng, bad=0.0, reserved=0.1, nan=False, mixed=True)
                try:
                    raw = V.build(spec)
                    t = rng.choice(types)(x=raw)
                except BaseException:   # noqa
                    continue
                tasks.append((t, spec))
            uniq = []
            for t, spec in tasks:
                if not any(t == u for u, _ in uniq):
                    uniq.append((t, spec))
            lab.run_tasks([t for t, _ in uniq], disable_progress=True, disable_top=True)
            # nested tasks are executed and cached as well
            todo = [t for t, _ in uniq]
            everything = [t for t, _ in uniq]
            while todo:
                t = todo.pop()
                for sub in [x for f in dataclasses.fields(t) for x in find_tasks_in_param(getattr(t, f.name))]:
                    everything.append(sub)
                    # (every object is explored, also one that is == to a task met before: what is nested inside it may be spelt
                    # differently, and which of the spellings the coordinator ran and stored is its business)
                    todo.append(sub)
                    if not any(sub == u for u, _ in uniq):
                        uniq.append((sub, ['nested-in', V.g_value_py(t)[:200]]))
            # Python's == conflates False / 0 / 0.0 (and 1 / 1.0 / True): two tasks of one batch that are == but not
            # structurally identical are one task for the coordinator (whichever it met first is the one that was run and
            # stored), so such tasks are left out of the comparison
            ambiguous = [t for t in everything if any(t == u and V.g_value_py(t) != V.g_value_py(u) for u in everything)]
            dist['store_roundtrip_ambiguous_skipped'] += len([1 for t, _ in uniq if any(t == a for a in ambiguous)])
            uniq = [(t, spec) for t, spec in uniq if not any(t == a for a in ambiguous)]
            done += len(uniq)
            for ty in types:
                want = [(t, spec) for t, spec in uniq if type(t) is ty]
                try:
                    got = lab.cached_tasks([ty])
                    got = [g for g in got if not any(g == a for a in ambiguous)]
                except BaseException as e:   # noqa
                    report.violation(f'{prop}:cached-tasks-raised', f'cached_tasks([{ty.__module__}.{ty.__qualname__}]) raised {e!r}', dict(spec=want[0][1] if want else None))
                    continue
                want_ids = sorted((V.g_value_py(t), t.cache_key) for t, _ in want)
                try:
                    got_ids = sorted((V.g_value_py(t), t.cache_key) for t in got)
                except TypeError:
                    got_ids = None
                if got_ids != want_ids:
                    bad_spec = None
                    for t, spec in want:
                        if got_ids is None or (V.g_value_py(t), t.cache_key) not in got_ids:
                            bad_spec = spec
                            break
                    extra = len(got) - len(want)
                    if os.environ.get('LV_DEBUG'):
                        print('WANT-GOT', [x for x in want_ids if got_ids is None or x not in got_ids][:2], '\nGOT-WANT', [x for x in (got_ids or []) if x not in want_ids][:2])
                    sig = 'store-reconstruct-differs' if bad_spec is not None else ('listed-twice-or-foreign' if extra > 0 else 'store-reconstruct-differs')
                    report.violation(f'{prop}:{sig}', f'cached_tasks([{ty.__qualname__}]) returned {len(got)} tasks for {len(want)} cached ones; a cached task is not returned '
                                                   f'identically (structure or cache_key differs)', dict(spec=bad_spec, type=ty.__qualname__, level='store'))
                    continue
                if any(t.result_meta is None or t.result_meta.start is None for t in got):
                    report.violation(f'{prop}:no-stored-meta', 'a task returned by cached_tasks carries no stored result_meta', dict(type=ty.__qualname__, level='store'))
                else:
                    # ... and it is the one recorded when the task ran (start and duration, to the microsecond)
                    recorded = {t.cache_key: t.result_meta for t, _ in want if t.result_meta is not None}
                    for g in got:
                        r = recorded.get(g.cache_key)
                        if r is not None and (g.result_meta.start != r.start or abs((g.result_meta.duration - r.duration).total_seconds()) > 2e-6):
                            report.violation(f'{prop}:stored-meta-differs', f'cached_tasks returned result_meta {g.result_meta} for a task whose run recorded {r}', dict(type=ty.__qualname__, level='store'))
                            break
                # listing a type twice, or together with other types, still returns each cached task exactly once
                try:
                    again = [g for g in lab.cached_tasks([ty, ty]) if not any(g == a for a in ambiguous)] if len(want) else []
                    if len(again) != len(got):
                        report.violation(f'{prop}:listed-twice-or-foreign', f'cached_tasks([T, T]) returned {len(again)} tasks, cached_tasks([T]) {len(got)}', dict(type=ty.__qualname__, level='store'))
                except BaseException as e:   # noqa
                    report.violation(f'{prop}:cached-tasks-raised', f'cached_tasks([T, T]) raised {e!r}', dict(type=ty.__qualname__, level='store'))
                before = U.VRUN_COUNT[0]
                lab.run_tasks(got, disable_progress=True, disable_top=True)
                if U.VRUN_COUNT[0] != before:
                    report.violation(f'{prop}:rerun-executed', 'running the tasks returned by cached_tasks executed them instead of loading the stored results', dict(type=ty.__qualname__, level='store'))
            # the same Lab object once more, after entries were replaced and removed: a listing reflects the storage as it is now
            sub = [t for t, _ in uniq if type(t) in types and not V_is_nested_only(t, tasks)][:6]
            if sub:
                try:
                    lab.run_tasks(sub, bust_cache=True, disable_progress=True, disable_top=True)
                    listed = {g.cache_key: g for ty in {type(t) for t in sub} for g in lab.cached_tasks([ty])}
                    for t in sub:
                        g = listed.get(t.cache_key)
                        if g is None:
                            report.violation(f'{prop}:not-listed-after-rerun', 'a task re-run with bust_cache=True is missing from cached_tasks on the same Lab',
                                             dict(type=type(t).__qualname__, level='store'))
                            break
                        if (t.result_meta is not None and g.result_meta is not None and
                                (g.result_meta.start != t.result_meta.start or abs((g.result_meta.duration - t.result_meta.duration).total_seconds()) > 2e-6)):
                            report.violation(f'{prop}:stored-meta-differs', f'after a bust_cache re-run on the same Lab, cached_tasks returns result_meta {g.result_meta} '
                                                                            f'while the entry now records {t.result_meta}', dict(type=type(t).__qualname__, level='store'))
                            break
                    lab.uncache_tasks(sub[:2])
                    still = {g.cache_key for ty in {type(t) for t in sub[:2]} for g in lab.cached_tasks([ty])}
                    if any(t.cache_key in still for t in sub[:2]):
                        report.violation(f'{prop}:listed-after-uncache', 'cached_tasks on the same Lab still lists a task after uncache_tasks removed it',
                                         dict(type=type(sub[0]).__qualname__, level='store'))
                except BaseException as e:   # noqa
                    report.violation(f'{prop}:cached-tasks-raised', f'rerun / listing / uncache sequence on one Lab raised {e!r}', dict(level='store'))
            dist['store_roundtrip_tasks'] = done
    finally:
        shutil.rmtree(d, ignore_errors=True)
    return done


def run_store_stage(prop, report, tier, seed, replay=None):
    """The store-level stages on their own (for properties whose main harness is another one): real save / cached_tasks round
    trips with their monitors, and the listing correspondence."""
    rng = rng_for(seed, prop, 'store')
    dist = Counter()
    n = stage_store_roundtrip(report, tier, rng, dist, prop=prop)
    q = stage_listing(report, tier, rng, dist, prop=prop) if replay is None else 0
    report.coverage.update(evaluations=n + q, traces_validated_against_impl=q,
                           rule='store stage: tasks of ten types with generated parameter trees run and cached in one storage, cached_tasks per type; '
                                'listing queries on storages salted with foreign entries against Model/Listing.v',
                           distribution=dict(sorted(dist.items())))


def V_is_nested_only(t, tasks):
    """True when t was only met as a parameter of another task (it was then stored by a run of its parent)."""
    return not any(t is u for u, _ in tasks)

def stage_listing(report, tier, rng, dist, prop='C09'):
    """Lab.cached_tasks against Model/Listing.v: storages filled by real runs of tasks of ten types (prefix-related names, the
    same name in several modules, two cache formats), then salted with foreign entries (an entry copied under a key that
    starts with another type's name, an entry whose metadata names another cache class or none, and - in some storages - an
    entry whose stored task cannot be rebuilt); the entries are read back from the storage directory and handed to the model
    together with each query (single types, pairs in both orders, a type twice, everything)."""
    import shutil
    import lv_universe2 as U2
    import lv_pkg.sub.defs as PD
    import lv_pkg.other as PO
    from labtech.lab import Lab
    types = [U.V2, U.V, U.VV, U2.V2, U.VJ, U.V1, U.VPost, PD.V2, PO.V2, U.VRewrite, U.VDef]

    def tt(ty):
        return ('{| tt_cls := %s; tt_prefix := %s; tt_cache := %s |}' % (
            V.g_s(f'{ty.__module__}.{ty.__qualname__}'), V.g_s(ty._lt.cache.KEY_PREFIX), V.g_s(type(ty._lt.cache).__qualname__)))
    d = tempfile.mkdtemp(dir=subdir('listing'))
    # the class environment of the other stages, plus the two types only this stage stores
    extra = g_list([f'({V.g_s("lv_universe.VJ")}, {g_list([V.g_s("x")])})', f'({V.g_s("lv_universe.VRewrite")}, {g_list([V.g_s("x")])})'])
    imports = (V.VALUES_IMPORTS + 'Require Import LT.Model.Listing.\n'
               f'Definition env2 : env := {{| task_classes := task_classes the_env ++ {extra}; enum_classes := enum_classes the_env |}}.\n')
    defs, terms, kept = [], [], []
    try:
        for b in range(3 if tier == 'quick' else 24):
            storage = os.path.join(d, f's{b}')
            lab = Lab(storage=storage, runner_backend='serial', notebook=False)
            tasks = []
            for _ in range(rng.randint(8, 30)):
                spec = V.gen_spec(rng, bad=0.0, reserved=0.1, nan=False, mixed=True)
                try:
                    ty = rng.choice(types)
                    tasks.append(ty(a=V.build(spec), b=None) if ty is U.V1 else ty(x=V.build(spec)))
                except BaseException:   # noqa
                    continue
            uniq = []
            for t in tasks:
                if not any(t == u for u in uniq):
                    uniq.append(t)
            lab.run_tasks(uniq, disable_progress=True, disable_top=True)
            # equal tasks spelt differently are one task for == and hash but have entries (keys) of their own: each is stored by a
            # call of its own, and each entry is listed
            twins = [U.V2(x=1), U.V2(x=1.0), U.V2(x=True), U.V2(x={'a': 1, 'b': (2, 3)}), U.V2(x={'b': (2, 3), 'a': 1})]
            for tw in twins:
                lab.run_tasks([tw], disable_progress=True, disable_top=True)
            twin_keys = {tw.cache_key for tw in twins}
            keys = sorted(os.listdir(storage))
            keys = [k for k in keys if os.path.isdir(os.path.join(storage, k))]
            salted = []
            if keys:
                def copy_as(src, dst, edit=None):
                    if os.path.exists(os.path.join(storage, dst)):
                        return
                    shutil.copytree(os.path.join(storage, src), os.path.join(storage, dst))
                    if edit:
                        mp = os.path.join(storage, dst, 'metadata.json')
                        md = json.load(open(mp))
                        edit(md)
                        json.dump(md, open(mp, 'w'))
                    salted.append(dst)
                k = rng.choice(keys)
                copy_as(k, 'V' + k)                                             # starts with V (and VV, V1, V2 ... when k does)
                copy_as(rng.choice(keys), 'V2__' + 'f' * 40)
                copy_as(rng.choice(keys), rng.choice(keys) + 'x', lambda md: md.__setitem__('cache', 'OtherCache'))
                copy_as(rng.choice(keys), rng.choice(keys) + 'y', lambda md: md.pop('cache'))
                if b % 4 == 3:
                    copy_as(rng.choice(keys), rng.choice(keys) + 'z', lambda md: md['task'].__setitem__('__class__', 'lv_universe.Gone'))
                if b % 4 == 2:
                    copy_as(rng.choice(keys), rng.choice(keys) + 'w', lambda md: md['task'].__setitem__('surplus', 1))
            dist['listing_salted_entries'] += len(salted)
            # the storage as load_metadata sees it, in find_keys order
            tokens = {}
            entries = []
            for key in storage_of(lab).find_keys():
                try:
                    md = json.load(open(os.path.join(storage, key, 'metadata.json')))
                except (OSError, ValueError):
                    continue
                tok = tokens.setdefault((md.get('start_timestamp'), md.get('duration_seconds')), len(tokens))
                cache = md.get('cache')
                entries.append('{| en_key := %s; en_cache := %s; en_task := %s; en_meta := %d |}' % (
                    V.g_s(key), V.g_opt(V.g_s(cache)) if isinstance(cache, str) else 'None', V.g_json(md['task']), tok))
            dist['listing_entries'] += len(entries)
            defs.append(f'Definition store_{b} : list entry := {g_list(entries)}.')
            queries = [[ty] for ty in types] + [[U.V, U.VV], [U.VV, U.V], [U.V, U.V], [U.V2, U2.V2, PD.V2, PO.V2], [U.VJ, U.V], list(types), list(reversed(types))]
            queries += [rng.sample(types, rng.randint(1, 4)) for _ in range(4)]
            queries += [[U.VN], [U.VN, U.V2], [U.V2, U.VN]]          # a task type that is not cached at all lists nothing, and spoils nothing
            for q in queries:
                try:
                    got = lab.cached_tasks(q)
                    if U.V2 in q and not twin_keys <= {g.cache_key for g in got}:
                        report.violation(f'{prop}:stored-not-listed', f'cached_tasks({[ty.__qualname__ for ty in q]}) does not list every entry stored for V2: '
                                                                      f'{len(twin_keys - {g.cache_key for g in got})} of the {len(twin_keys)} entries of equal tasks spelt differently '
                                                                      '(1 / 1.0 / True, dict entries in another order) are missing', dict(level='store', stage='listing', storage_batch=b))
                    obs = []
                    for g in got:
                        rm = g.result_meta
                        tk = (rm.start.isoformat() if rm is not None and rm.start is not None else None,
                              rm.duration.total_seconds() if rm is not None and rm.duration is not None else None)
                        obs.append(f'({V.g_value_py(g)}, {tokens.setdefault(tk, len(tokens))})')
                    got_term = f'(Some {g_list(obs)})'
                    dist['listing_listed'] += len(got)
                except BaseException as e:   # noqa
                    got_term = 'None'
                    dist['listing_raised'] += 1
                    if b % 4 not in (2, 3):
                        report.violation(f'{prop}:listing-raised', f'cached_tasks({[ty.__qualname__ for ty in q]}) raised {e!r} on a storage in which every entry is either '
                                                                   'well-formed or must be passed over (other cache class, other type)', dict(level='store', stage='listing', storage_batch=b))
                terms.append('{| lc_types := %s; lc_store := store_%d; lc_got := %s |}' % (g_list([tt(ty) for ty in q if hasattr(ty._lt.cache, 'KEY_PREFIX')]), b, got_term))   # (a NullCache type finds nothing under any key)
                kept.append(dict(storage_batch=b, query=[f'{ty.__module__}.{ty.__qualname__}' for ty in q], salted=salted))
        dist['listing_queries'] = len(terms)
        bad = coq_failing(f'corr_{prop}_listing', imports + '\n'.join(defs) + '\n', terms, 'check_lcase deser_mode_src env2')
        if bad:
            from common import coq_eval, decode_strs
            shown = coq_eval(f'corr_{prop}_listing_show', imports + '\n'.join(defs) + '\n'
                             + f'Definition c := {terms[bad[0]]}.\n'
                             + 'Eval vm_compute in (option_map (map (fun tm => (task_cls (fst tm), snd tm))) (cached_tasks deser_mode_src env2 (lc_types c) (lc_store c)),'
                               ' option_map (map (fun tm => (task_cls (fst tm), snd tm))) (lc_got c), map en_key (lc_store c)).\n')
            report.broke(f'correspondence Model/Listing.v vs Lab.cached_tasks: {len(bad)} of {len(terms)} queries differ',
                         json.dumps(dict(first=kept[bad[0]], model_then_code_then_keys=' '.join(decode_strs(shown).split())[:3000])))
            # which clause of the property does the real listing break on that storage?  the store-level monitors of
            # stage_store_roundtrip run on every check; here only the disagreement itself is recorded
    finally:
        shutil.rmtree(d, ignore_errors=True)
    return len(terms)


# the D9 witnesses (repaired in 6f0f3a0): dict parameters spelling a serialised enum / task, and the real ones
WITNESSES = [
    ['enum', 'lv_universe', 'Color', 'RED'],
    ['dict', True, [[['str', '_is_enum'], ['bool', True]], [['str', '__class__'], ['str', 'lv_universe.Color']], [['str', 'name'], ['str', 'RED']]]],
    ['task', 'lv_universe', 'V2', [['x', ['int', '1']]]],
    ['dict', False, [[['str', '_is_task'], ['bool', True]], [['str', '__class__'], ['str', 'lv_universe.V2']], [['str', 'x'], ['int', '1']]]],
    ['dict', False, [[['str', '_is_task'], ['int', '1']], [['str', 'x'], ['int', '1']]]],
]


def run(prop, report, tier, seed, replay=None):
    rng = rng_for(seed, prop, 'values')
    n = VOLUME[tier]
    specs = []
    if replay is not None:
        specs = [replay['input']['spec']] if replay['input'].get('spec') is not None else []      # (store-level replays carry no spec)
    else:
        if prop in ('C07', 'C09'):
            specs += WITNESSES       # the listed known-finding inputs always run first
        for i in range(n):
            bad = 0.1 if (prop == 'C15' and i % 3 == 0) else 0.0
            reserved = 0.3 if (prop in ('C07', 'C09') and i % 5 == 0) else 0.0
            specs.append(V.gen_spec(rng, bad=bad, reserved=reserved, mixed=(prop in ('C07', 'C09'))))
    terms, kept = [], []
    dist = Counter()
    seen_keys = {}
    distinct = set()
    for spec in specs:
        st, t = V.construct(spec)
        dist[f'status={st}'] += 1
        dist[f'depth={depth(spec)}'] += 1
        if st == 'unbuildable':
            continue
        try:
            if prop == 'C15':
                v = mon_C15(spec, st, t)
            elif prop == 'C07':
                v = mon_C07(spec, st, t, seen_keys)
            else:
                v = mon_C09(spec, st, t)
        except BaseException as e:   # noqa  (building an equal task, pickling, ... raised where the first construction had not)
            v = ('operation-raised', f'{type(e).__name__}: {e}')
        if v is not None:
            report.violation(f'{prop}:{v[0]}', v[1], dict(spec=spec))
        # fresh objects for emission (the monitor attached state to t)
        st2, t2 = V.construct(spec)
        terms.append(vcase_term(spec, st2, t2))
        kept.append(spec)
        if depth(spec) >= 2:
            distinct.add(json.dumps(spec))
    if prop == 'C15' and replay is None:
        okspecs = [sp for sp in kept if V.construct(sp)[0] == 'ok' and not has_nan(sp)][:200 if tier == 'quick' else 3000]
        for i, sig in cross_process_copies(okspecs):
            report.violation(f'C15:{sig}', 'a task pickled in one interpreter and unpickled in another (different hash seed) does not behave '
                                           'like an equal freshly built task there (==, hash, set membership, cache_key, dependencies)', dict(spec=okspecs[i]))
        dist['cross_process_copies'] = len(okspecs)
    if prop == 'C09' and (replay is None or replay['input'].get('level') == 'store'):
        stage_store_roundtrip(report, tier, rng, dist)
    if prop == 'C09' and replay is None:
        stage_listing(report, tier, rng, dist)
    if prop == 'C07' and (replay is None or replay['input'].get('level') == 'store'):
        # "... or reconstruction from cache metadata": through the real metadata file, not only the serializer
        stage_store_roundtrip(report, tier, rng, dist, prop='C07')
    if prop == 'C07' and (replay is None or replay['input'].get('level') == 'main-script'):
        # "the same key in every process": task types defined in the started script, run by spawned and forked workers
        import props_cache
        props_cache.stage_main_script_types(report, 'C07')
    if prop == 'C07' and replay is None:
        # same-named classes nested in different outer classes (enum members and tasks as parameter values)
        pairs = [(U.V2(x=U.NestA.Kind.FAST), U.V2(x=U.NestB.Kind.FAST)), (U.V2(x=(U.NestA.Kind.FAST,)), U.V2(x=(U.NestB.Kind.FAST,))),
                 (U.V2(x=U.NestA_V2(x=1)), U.V2(x=U.NestB_V2(x=1))), (U.V2(x={'k': U.NestA_V2(x=1)}), U.V2(x={'k': U.NestB_V2(x=1)}))]
        for a, b in pairs:
            if a.cache_key == b.cache_key:
                report.violation('C07:type-collision', f'{a!r} and {b!r} (same class name, different enclosing class) share the cache key {a.cache_key}', dict(level='nested-names'))
                break
        okspecs = [s for s in kept if V.construct(s)[0] == 'ok'][:400 if tier == 'quick' else 4000]
        base = [V.construct(s)[1].cache_key for s in okspecs]
        for hs in ((1, 4242) if tier == 'quick' else (1, 7, 4242)):
            other = fresh_keys(okspecs, hs)
            for s, a, b in zip(okspecs, base, other):
                if a != b:
                    report.violation('C07:unstable-across-sessions', f'key differs in a fresh interpreter with PYTHONHASHSEED={hs}: {a} vs {b}', dict(spec=s))
                    break
        dist['fresh_interpreter_keys'] = len(okspecs)
    checkers = {
        'C07': [('check_ser', 'Values.ser vs Serializer.serialize_task')],
        'C09': [('check_ser', 'Values.ser vs Serializer.serialize_task'),
                ('check_deser deser_mode_src the_env', 'Values.deser vs Serializer.deserialize_task(json round trip)')],
        'C15': [('check_norm', 'Values.normalize vs the task constructor'),
                ('check_find', 'Values.find_tasks vs find_tasks_in_param')],
    }[prop]
    mism = 0
    for chk, what in checkers:
        try:
            bad = coq_failing(f'corr_{prop}_{chk.split()[0]}', V.VALUES_IMPORTS, terms, chk)
        except CoqError as e:
            report.broke(f'correspondence {what} could not be evaluated', str(e))
            continue
        if bad:
            mism += len(bad)
            report.broke(f'correspondence {what}: {len(bad)} of {len(terms)} cases differ', first_case=dict(spec=kept[bad[0]]))
    if prop == 'C15':
        # == against Model veq on pairs (a value and a structural mutation of it)
        eq_terms, eq_specs = [], []
        for _ in range(n // 2):
            a = V.gen_spec(rng, nan=True)
            b = mutate(rng, a) if rng.random() < 0.7 else a
            sa, ta = V.construct(a)
            sb, tb = V.construct(b)
            if sa != 'ok' or sb != 'ok':
                continue
            ta2 = U.V2(x=V.build(a)) if a == b else tb
            obs = bool(ta.x == ta2.x) if a == b else bool(ta.x == tb.x)
            eq_terms.append('{| ec_a := %s; ec_b := %s; ec_eq := %s |}' % (V.g_value_py(ta.x), V.g_value_py(ta2.x if a == b else tb.x), g_bool(obs)))
            eq_specs.append([a, b])
        try:
            bad = coq_failing('corr_C15_eq', V.VALUES_IMPORTS, eq_terms, 'check_eqcase')
        except CoqError as e:
            bad = []
            report.broke('correspondence Values.veq vs == could not be evaluated', str(e))
        if bad:
            mism += len(bad)
            report.broke(f'correspondence Values.veq vs Python == on parameter values: {len(bad)} of {len(eq_terms)} pairs differ',
                         first_case=dict(pair=eq_specs[bad[0]]))
        dist['eq_pairs'] = len(eq_terms)
    report.coverage.update(
        evaluations=len(specs), distinct_nontrivial=len(distinct), traces_validated_against_impl=len(terms),
        correspondence_mismatches=mism,
        rule=('random parameter trees over scalars (edge floats, big ints, surrogate/NUL/unicode strings, enums incl. '
              'same-named members/classes), lists/tuples/tuple subclasses, dicts/frozendicts, nested tasks of several '
              'types (same name in two modules, prefix names), plus a malformed stream (unsupported objects, non-string '
              'keys) and a reserved-key stream; non-trivial = nesting depth >= 2, distinct by spec'),
        distribution=dict(sorted(dist.items())), samples=kept[:3])


def mutate(rng, spec):
    """A small structural change somewhere in the tree (or the same tree)."""
    k = spec[0]
    if k in ('list', 'tuple', 'mytuple') and spec[1] and rng.random() < 0.7:
        i = rng.randrange(len(spec[1]))
        items = list(spec[1])
        items[i] = mutate(rng, items[i])
        return [k, items]
    if k == 'dict' and spec[2] and rng.random() < 0.7:
        kvs = [list(x) for x in spec[2]]
        if rng.random() < 0.3:
            rng.shuffle(kvs)          # same mapping, other insertion order
            return ['dict', spec[1], kvs]
        i = rng.randrange(len(kvs))
        kvs[i] = [kvs[i][0], mutate(rng, kvs[i][1])]
        return ['dict', spec[1], kvs]
    if k == 'task' and rng.random() < 0.7:
        fs = [list(x) for x in spec[3]]
        i = rng.randrange(len(fs))
        fs[i] = [fs[i][0], mutate(rng, fs[i][1])]
        return ['task', spec[1], spec[2], fs]
    return rng.choice(V.SCALAR_POOL)
