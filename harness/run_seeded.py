"""Confirm seeded breaking changes and run the checks against them.

  python3 harness/run_seeded.py import /tmp/seed/C18/out C18        copy patch/demo/meta of a sub-agent into seeded/<name>/
  python3 harness/run_seeded.py confirm <name>...                   scratch worktree: applies, suite passes, demo fails with / passes without
  python3 harness/run_seeded.py check <name>... [--props C01,C02]   apply to /repo, run ./check for the property (and others), undo
  python3 harness/run_seeded.py params [<name>...]                      what srcparams/srcprobe extract from each changed tree
  python3 harness/run_seeded.py iso <name>... [--props=..] [-j4]     same, but in a scratch worktree + scratch copy of /verif (parallel, /repo untouched)
  python3 harness/run_seeded.py table                               regenerate seeded/RESULTS.md

Nothing is ever committed to /repo; every apply is undone with `git -C /repo checkout -- .` in a finally block."""
import json
import os
import shutil
import subprocess
import sys
import time

VERIF = os.path.dirname(os.path.dirname(os.path.abspath(__file__)))
SEEDED = os.environ.get('LV_SEEDED_DIR', os.path.join(VERIF, 'seeded'))      # (harmless refactorings live in /verif/harmless)
REPO = '/repo'
REPLAYCHECK = False
PY = '/venv/bin/python'


def sh(cmd, cwd=None, env=None, timeout=900):
    import signal
    import tempfile
    with tempfile.TemporaryFile('w+') as out:
        p = subprocess.Popen(cmd, cwd=cwd, env=env, stdout=out, stderr=subprocess.STDOUT, stdin=subprocess.DEVNULL, start_new_session=True)
        try:
            rc = p.wait(timeout=timeout)
        except subprocess.TimeoutExpired:
            rc = 124
        finally:
            try:
                os.killpg(p.pid, signal.SIGKILL)       # also reaps workers / managers the command left behind
            except OSError:
                pass
        out.seek(0)
        return rc, out.read()


def sh_plain(cmd, cwd=None, env=None, timeout=300):
    """Same process group as the caller (demonstrations that send signals to their own process group need that)."""
    try:
        p = subprocess.run(cmd, cwd=cwd, env=env, stdout=subprocess.PIPE, stderr=subprocess.STDOUT, stdin=subprocess.DEVNULL, text=True, timeout=timeout)
        return p.returncode, p.stdout
    except subprocess.TimeoutExpired as e:
        return 124, (e.stdout or b'').decode(errors='replace') if isinstance(e.stdout, bytes) else (e.stdout or '')


def load_meta(name):
    p = os.path.join(SEEDED, name, 'meta.json')
    return json.load(open(p)) if os.path.exists(p) else {}


def save_meta(name, meta):
    with open(os.path.join(SEEDED, name, 'meta.json'), 'w') as f:
        json.dump(meta, f, indent=1)


def cmd_import(src, name):
    dst = os.path.join(SEEDED, name)
    os.makedirs(dst, exist_ok=True)
    for f in ('patch.diff', 'demo.py', 'meta.json'):
        if os.path.exists(os.path.join(src, f)):
            shutil.copy(os.path.join(src, f), os.path.join(dst, f))
    meta = load_meta(name)
    meta['origin'] = 'fresh sub-agent given only the property text and its own scratch worktree'
    save_meta(name, meta)
    print('imported', name)


def cmd_confirm(names, jobs=6):
    from concurrent.futures import ThreadPoolExecutor
    with ThreadPoolExecutor(jobs) as ex:
        list(ex.map(confirm_one, names))
    sh(['git', '-C', REPO, 'worktree', 'prune'])


def confirm_one(name):
    if True:
        d = os.path.join(SEEDED, name)
        wt = f'/tmp/lv_confirm_{name}_{os.getpid()}'
        sh(['git', '-C', REPO, 'worktree', 'add', '-q', '--detach', wt, 'HEAD'])
        meta = load_meta(name)
        res = {}
        try:
            env = dict(os.environ, PYTHONPATH=wt, PYTHONDONTWRITEBYTECODE='1')
            rc, out = sh(['git', '-C', wt, 'apply', os.path.join(d, 'patch.diff')])
            res['applies'] = rc == 0
            rc, out = sh([PY, '-m', 'pytest', '-q', '-p', 'no:cacheprovider', '--timeout=900', 'tests'], cwd=wt, env=env, timeout=1200)
            res['suite_passes_with_change'] = rc == 0
            res['suite_tail'] = out.strip().splitlines()[-1] if out.strip() else ''
            rc, out = sh([PY, os.path.join(d, 'demo.py')], cwd=wt, env=env, timeout=300)
            res['demo_fails_with_change'] = rc != 0
            res['demo_with_change_tail'] = out.strip().splitlines()[-1][:300] if out.strip() else ''
            sh(['git', '-C', wt, 'checkout', '--', '.'])
            rc, out = sh([PY, os.path.join(d, 'demo.py')], cwd=wt, env=env, timeout=300)
            res['demo_passes_without_change'] = rc == 0
            if rc != 0:
                # signal-based demonstrations misbehave as session leaders: repeat both runs in the caller's process group
                rc, out = sh_plain([PY, os.path.join(d, 'demo.py')], cwd=wt, env=env)
                res['demo_passes_without_change'] = rc == 0
                sh(['git', '-C', wt, 'apply', os.path.join(d, 'patch.diff')])
                rc, out = sh_plain([PY, os.path.join(d, 'demo.py')], cwd=wt, env=env)
                res['demo_fails_with_change'] = rc != 0
                res['demo_mode'] = 'same process group as the caller'
                sh(['git', '-C', wt, 'checkout', '--', '.'])
        finally:
            sh(['git', '-C', REPO, 'worktree', 'remove', '--force', wt])
        res['confirmed'] = all(res.get(k) for k in ('applies', 'suite_passes_with_change', 'demo_fails_with_change', 'demo_passes_without_change'))
        meta['confirmation'] = res
        meta['confirmation']['ran'] = ('scratch worktree of /repo HEAD: git apply patch.diff; pytest tests; demo.py (must exit != 0); '
                                       'git checkout -- .; demo.py (must exit 0); worktree removed')
        save_meta(name, meta)
        print(name, json.dumps(res))


def cmd_check(names, props=None, tier='quick'):
    for name in names:
        d = os.path.join(SEEDED, name)
        meta = load_meta(name)
        plist = props or [meta.get('property', name[:3])]
        results = meta.setdefault('checks', {})
        try:
            rc, out = sh(['git', '-C', REPO, 'apply', os.path.join(d, 'patch.diff')])
            if rc != 0:
                print(name, 'does not apply to /repo:', out[-300:])
                continue
            for prop in plist:
                t0 = time.time()
                rc, out = sh([os.path.join(VERIF, 'check'), prop, '--tier', tier], cwd=VERIF, timeout=1500)
                lines = [l for l in out.splitlines() if l.startswith('VIOLATION') or l.startswith('KNOWN-FINDING')]
                viol = [l for l in lines if l.startswith('VIOLATION')]
                sigs = []
                for l in viol:
                    path = l.split('replay=')[1].split()[0]
                    try:
                        r = json.load(open(path))
                        sigs.append(r.get('signature') or ('broken: ' + '; '.join(str(b.get('what') if isinstance(b, dict) else b)[:120] for b in r.get('broken', []))))
                    except Exception:
                        sigs.append('?')
                results[prop] = dict(tier=tier, exit=rc, detected=(rc == 1 and bool(viol)),
                                     concrete_input=any('no-failing-input-found' not in l for l in viol),
                                     signatures=sigs[:6], wall_s=round(time.time() - t0, 1))
                print(name, prop, json.dumps(results[prop]), flush=True)
        finally:
            sh(['git', '-C', REPO, 'checkout', '--', '.'])
            rc, out = sh(['git', '-C', REPO, 'status', '--short'])
            if out.strip():
                print('WARNING: /repo not clean after undo:', out)
        save_meta(name, meta)
    # leave the generated SrcParams.v in the state of the unchanged tree
    sh([PY, os.path.join(VERIF, 'harness', 'srcparams.py')], env=dict(os.environ, PYTHONPATH='/repo:' + os.path.join(VERIF, 'harness')))


def _run_checks(name, plist, tier, verif, env, results, mode):
    for prop in plist:
        t0 = time.time()
        rc, out = sh([os.path.join(verif, 'check'), prop, '--tier', tier], cwd=verif, env=env, timeout=1500)
        viol = [l for l in out.splitlines() if l.startswith('VIOLATION')]
        sigs = []
        for l in viol:
            path = l.split('replay=')[1].split()[0]
            try:
                r = json.load(open(path))
                sigs.append(r.get('signature') or ('broken: ' + '; '.join(str(b.get('what') if isinstance(b, dict) else b)[:120] for b in r.get('broken', []))))
            except Exception:
                sigs.append('?')
        replay_rt = None
        if REPLAYCHECK:
            concrete = [l for l in viol if 'no-failing-input-found' not in l]
            if concrete:
                path = concrete[0].split('replay=')[1].split()[0]
                rc_s, _ = sh([os.path.join(verif, 'check'), prop, '--replay', path], cwd=verif, env=env, timeout=600)
                rc_c, _ = sh([os.path.join(verif, 'check'), prop, '--replay', path], cwd=verif, env=dict(env, LV_REPO=REPO), timeout=600)
                replay_rt = dict(on_changed_tree=rc_s, on_clean_tree=rc_c, ok=(rc_s == 1 and rc_c == 0))
        replay_rt = None
        if REPLAYCHECK:
            concrete = [l for l in viol if 'no-failing-input-found' not in l]
            if concrete:
                path = concrete[0].split('replay=')[1].split()[0]
                rc_s, _ = sh([os.path.join(verif, 'check'), prop, '--replay', path], cwd=verif, env=env, timeout=600)
                rc_c, _ = sh([os.path.join(verif, 'check'), prop, '--replay', path], cwd=verif, env=dict(env, LV_REPO=REPO), timeout=600)
                replay_rt = dict(on_changed_tree=rc_s, on_clean_tree=rc_c, ok=(rc_s == 1 and rc_c == 0))
        results[prop] = dict(tier=tier, exit=rc, detected=(rc == 1 and bool(viol)), replay_round_trip=replay_rt,
                             concrete_input=any('no-failing-input-found' not in l for l in viol),
                             signatures=sigs[:6], wall_s=round(time.time() - t0, 1), mode=mode)
        if rc not in (0, 1) or (rc == 1 and not viol):
            results[prop]['tail'] = out[-400:]
        print(name, prop, json.dumps(results[prop]), flush=True)


def iso_one(name, props, tier, source=VERIF):
    """Run the checks against the seeded change without touching /repo or /verif: a scratch worktree of /repo with
    the patch applied (LV_REPO) and a scratch copy of /verif (its own coq build directory, evidence and replays)."""
    d = os.path.join(SEEDED, name)
    base = f'/tmp/lv_iso/{name}_{os.getpid()}'
    wt, vf = base + '/repo', base + '/verif'
    meta = load_meta(name)
    plist = props or [meta.get('property', name[:3])]
    if props == ['auto']:
        plist = sorted(set(touched_props(os.path.join(d, 'patch.diff'))) | {meta.get('property', name[:3])})
    results = {}
    os.makedirs(base, exist_ok=True)
    try:
        sh(['git', '-C', REPO, 'worktree', 'add', '-q', '--detach', wt, 'HEAD'])
        rc, out = sh(['git', '-C', wt, 'apply', os.path.join(d, 'patch.diff')])
        if rc != 0:
            print(name, 'does not apply:', out[-300:])
            return name, results
        sh(['rsync', '-a', '--exclude', '.git', '--exclude', 'seeded', '--exclude', 'replays', source + '/', vf + '/'])
        env = dict(os.environ, LV_REPO=wt, LV_SCRATCH=base + '/scratch')
        _run_checks(name, plist, tier, vf, env, results, 'isolated copy of /verif against a scratch worktree (LV_REPO)')
    finally:
        sh(['git', '-C', REPO, 'worktree', 'remove', '--force', wt])
        shutil.rmtree(base, ignore_errors=True)
    return name, results


FILE_PROPS = {
    'labtech/lab.py': 'C01 C02 C03 C04 C05 C10 C11 C14 C17',
    'labtech/runners/process.py': 'C04 C05 C10 C11 C14 C16 C17 C19',
    'labtech/runners/serial.py': 'C01 C02 C14 C16 C17',
    'labtech/runners/base.py': 'C01 C14 C16',
    'labtech/cache.py': 'C06 C08 C12 C13',
    'labtech/storage.py': 'C06 C12 C13 C18',
    'labtech/tasks.py': 'C03 C07 C09 C15',
    'labtech/serialization.py': 'C07 C08 C09',
    'labtech/diagram.py': 'C20',
    'labtech/utils.py': 'C19',
}


def touched_props(patch):
    """The properties whose modelled code lives in a file the patch touches (--props=auto)."""
    out = []
    for line in open(patch):
        if line.startswith('+++ b/'):
            out += FILE_PROPS.get(line[6:].strip(), '').split()
    return out


PARAMS_SNIPPET = '''
import difflib, sys, srcparams
text = srcparams.render()
base = open(sys.argv[1]).read() if len(sys.argv) > 1 else ''
if len(sys.argv) > 1:
    d = [l[:160] for l in difflib.unified_diff(base.splitlines(), text.splitlines(), lineterm='', n=0)
         if l[0] in '+-' and not l.startswith(('+++', '---')) and 'inferred by behavioural probe' not in l]
    print('inferred=%s changed=%s' % (srcparams.INFERRED, d))
else:
    sys.stdout.write(text)
'''


def cmd_params(names):
    """What harness/srcparams.py (ast extraction, then behavioural probes) makes of each change, against the unchanged
    tree: which parameters were probed, and which lines of Gen/SrcParams.v come out differently."""
    import tempfile
    work = tempfile.mkdtemp(prefix='lv_params')
    try:
        env = dict(os.environ, LV_REPO=REPO, PYTHONPATH=f'{REPO}:{VERIF}/harness')
        rc, base = sh([PY, '-c', PARAMS_SNIPPET], cwd=VERIF, env=env)
        basef = os.path.join(work, 'base.v')
        open(basef, 'w').write(base)
        for name in names:
            tree = os.path.join(work, name)
            os.makedirs(tree)
            shutil.copytree(os.path.join(REPO, 'labtech'), os.path.join(tree, 'labtech'))
            rc, out = sh(['git', 'apply', '--include=labtech/*', os.path.join(SEEDED, name, 'patch.diff')], cwd=tree)
            if rc != 0:
                print(name, 'does not apply')
            else:
                env = dict(os.environ, LV_REPO=tree, PYTHONPATH=f'{tree}:{VERIF}/harness')
                rc, out = sh([PY, '-c', PARAMS_SNIPPET, basef], cwd=VERIF, env=env)
                print(name, out.strip().splitlines()[-1] if out.strip() else 'no output')
            shutil.rmtree(tree, ignore_errors=True)
    finally:
        shutil.rmtree(work, ignore_errors=True)


def cmd_htable():
    """RESULTS.md for a directory of harmless refactorings: which checks ran against each, which of them alarmed."""
    rows, quiet, total = [], 0, 0
    for name in sorted(n for n in os.listdir(SEEDED) if os.path.isdir(os.path.join(SEEDED, n))):
        meta = load_meta(name)
        checks = {k: v for k, v in (meta.get('checks') or {}).items() if isinstance(v, dict)}
        alarms = {k: v for k, v in checks.items() if v.get('exit')}
        total += len(checks)
        quiet += len(checks) - len(alarms)
        what = '; '.join(f"{k}: {'concrete' if v.get('concrete_input') else 'no-failing-input'} {', '.join(s[:70] for s in v.get('signatures', [])[:2])}"
                         for k, v in sorted(alarms.items())) or 'quiet'
        rows.append(f"| {name} | {(meta.get('summary') or '')[:110].replace('|', '/')} | {' '.join(sorted(checks))} | {what} |")
    with open(os.path.join(SEEDED, 'RESULTS.md'), 'w') as f:
        f.write('# Behaviour-preserving refactorings against the checks\n\n'
                f'{len(rows)} refactorings, {total} check runs, {quiet} quiet. Regenerated by `LV_SEEDED_DIR=<this dir> harness/run_seeded.py htable` '
                'from the meta.json files that `iso --props=auto` updates.\n\n'
                '| id | refactoring | checks run | outcome |\n|---|---|---|---|\n' + '\n'.join(rows) + '\n')
    print(f'{len(rows)} refactorings, {total} check runs, {quiet} quiet')


def cmd_iso(names, props=None, tier='quick', jobs=4):
    from concurrent.futures import ThreadPoolExecutor
    # one snapshot of /verif for the whole batch, so that edits made while it runs do not leak into it
    snap = f'/tmp/lv_iso/snapshot_{os.getpid()}'
    os.makedirs(snap, exist_ok=True)
    sh(['rsync', '-a', '--exclude', '.git', '--exclude', 'seeded', '--exclude', 'replays', VERIF + '/', snap + '/'])
    try:
        with ThreadPoolExecutor(jobs) as ex:
            for name, results in ex.map(lambda n: iso_one(n, props, tier, snap), names):
                meta = load_meta(name)
                meta.setdefault('checks', {}).update(results)
                save_meta(name, meta)
    finally:
        shutil.rmtree(snap, ignore_errors=True)
    sh(['git', '-C', REPO, 'worktree', 'prune'])


def cmd_table():
    rows = []
    for name in sorted(os.listdir(SEEDED)):
        if not os.path.isdir(os.path.join(SEEDED, name)):
            continue
        m = load_meta(name)
        conf = m.get('confirmation', {})
        chk = m.get('checks', {})
        own = m.get('property', name[:3])
        det = chk.get(own, {})
        others = [p for p, r in chk.items() if p != own and r.get('detected')]
        quiet = [p for p, r in chk.items() if p != own and not r.get('detected')]
        fa = (m.get('first_attempt') or {}).get(own)
        first = '-' if fa is None else (('caught' + ('' if fa.get('concrete_input') else ' (no-failing-input-found)')) if fa.get('detected') else 'MISSED')
        rows.append(f"| {name} | {own} | {str(m.get('summary', ''))[:150].replace('|', '/')} | {str(m.get('needs_to_manifest', ''))[:110].replace('|', '/')} | "
                    f"{'yes' if conf.get('confirmed') else 'NO'} | {'**caught**' if det.get('detected') else ('missed' if det else 'not run')}"
                    f"{' (concrete replay)' if det.get('concrete_input') else (' (no-failing-input-found)' if det.get('detected') else '')} | "
                    f"{('; '.join(det.get('signatures', [])[:2])[:160] + (' — NOTE: ' + m['note'] if m.get('note') else '')).replace('|', '/')} | {first} | {', '.join(others) or '-'} | {', '.join(quiet) or '-'} |")
    text = ('# Seeded changes and which checks catch them\n\n'
            'Generated by `harness/run_seeded.py table`. Each change was written by a fresh sub-agent that saw only the property\n'
            'text and its own scratch worktree; "confirmed" = applies, existing suite passes with it, demo fails with it and passes without it.\n\n'
            '| seed | property | change | needs | confirmed | own check (quick), now | signature / broken obligation | first attempt (before strengthening) | also alarmed | stayed quiet |\n'
            '|---|---|---|---|---|---|---|---|---|---|\n' + '\n'.join(rows) + '\n')
    with open(os.path.join(SEEDED, 'RESULTS.md'), 'w') as f:
        f.write(text)
    print(text)


if __name__ == '__main__':
    a = sys.argv[1:]
    if '--replaycheck' in a:
        REPLAYCHECK = True
        a = [x for x in a if x != '--replaycheck']
    if a[0] == 'import':
        cmd_import(a[1], a[2])
    elif a[0] == 'confirm':
        cmd_confirm(a[1:])
    elif a[0] == 'check':
        props, tier, names = None, 'quick', []
        for x in a[1:]:
            if x.startswith('--props'):
                props = x.split('=')[1].split(',')
            elif x.startswith('--tier'):
                tier = x.split('=')[1]
            else:
                names.append(x)
        cmd_check(names, props, tier)
    elif a[0] == 'iso':
        props, tier, names, jobs = None, 'quick', [], 4
        for x in a[1:]:
            if x.startswith('--props'):
                props = x.split('=')[1].split(',')
            elif x.startswith('--tier'):
                tier = x.split('=')[1]
            elif x.startswith('-j'):
                jobs = int(x[2:])
            elif x == '--replaycheck':
                REPLAYCHECK = True
            else:
                names.append(x)
        cmd_iso(names, props, tier, jobs)
    elif a[0] == 'params':
        cmd_params(a[1:] or sorted(n for n in os.listdir(SEEDED) if os.path.isdir(os.path.join(SEEDED, n))))
    elif a[0] == 'table':
        cmd_table()
    elif a[0] == 'htable':
        cmd_htable()
