"""./check <PROPERTY> [--tier quick|thorough] [--replay FILE]"""
import argparse
import json
import os
import sys

HERE = os.path.dirname(os.path.abspath(__file__))
sys.path.insert(0, HERE)


def main():
    # start from the signal dispositions of an interactive run, whatever the caller's were (a background job of a
    # non-interactive shell ignores SIGINT/SIGQUIT, and every child inherits that)
    import signal
    signal.signal(signal.SIGINT, signal.default_int_handler)
    for sig in (signal.SIGTERM, signal.SIGQUIT):
        signal.signal(sig, signal.SIG_DFL)
    signal.pthread_sigmask(signal.SIG_UNBLOCK, {signal.SIGINT, signal.SIGTERM, signal.SIGQUIT})
    ap = argparse.ArgumentParser()
    ap.add_argument('prop')
    ap.add_argument('--tier', default=os.environ.get('VERIF_TIER', 'quick'))
    ap.add_argument('--replay')
    args = ap.parse_args()
    seed = int(os.environ.get('VERIF_SEED', '0') or 0)
    tier = args.tier if args.tier in ('quick', 'thorough') else 'quick'
    import common
    # temporary files of the runs (multiprocessing manager sockets, sandboxes) live in the per-process scratch
    # directory, which is removed at exit, instead of piling up under /tmp
    import tempfile
    tmp = os.path.join(common.scratch(), 'tmp')
    os.makedirs(tmp, exist_ok=True)
    os.environ['TMPDIR'] = tmp
    tempfile.tempdir = tmp
    report = common.Report(args.prop, tier, seed)
    replay = json.load(open(args.replay)) if args.replay else None
    if replay is not None and (replay.get('kind') == 'proof-or-correspondence' or 'input' not in replay):
        # a replay that names a theorem / correspondence which no longer checked: there is no single input to run again, the
        # whole check is repeated with the recorded tier and seed
        tier = replay.get('tier', tier) if replay.get('tier') in ('quick', 'thorough') else tier
        seed = replay.get('seed', seed)
        report = common.Report(args.prop, tier, seed)
        replay = None
    import registry
    entry = registry.REGISTRY.get(args.prop)
    if entry is None:
        print(f'unknown property {args.prop}')
        return 2
    try:
        common.proof_stage(report, args.prop)
        entry(args.prop, report, tier, seed, replay)
        if (replay is not None and replay.get('kind') == 'monitor' and not report.violations and not report.broken
                and not os.environ.get('LV_REPLAY_ISOLATED_ONLY')):
            # The recorded input did not fail on its own: the failure may depend on what the process had done before it (state
            # kept across calls) or on the inputs around it.  The whole check is run again with the recorded tier and seed; it
            # regenerates the same inputs in the same order.
            report.notes.append('the recorded input was quiet in isolation; the check was re-run with the recorded tier and seed')
            entry(args.prop, report, replay.get('tier', tier) if replay.get('tier') in ('quick', 'thorough') else tier,
                  replay.get('seed', seed), None)
    except Exception as e:   # the check itself failed: never report success
        import traceback
        report.broke(f'check machinery error: {type(e).__name__}: {e}', traceback.format_exc())
    return report.finish(level='proof')


def _reap_children():
    """Worker processes that a (broken) implementation left behind must not keep the check from ending: interpreter exit joins
    every non-daemon child."""
    import multiprocessing
    for p in multiprocessing.active_children():
        try:
            p.kill()
            p.join(2)
        except Exception:   # noqa
            pass


if __name__ == '__main__':
    import faulthandler
    import signal
    faulthandler.register(signal.SIGUSR1, all_threads=True)       # (kill -USR1 <pid>: where is the check right now?)
    code = main()
    sys.stdout.flush()
    _reap_children()
    sys.exit(code)
