"""./check <PROPERTY> [--tier quick|thorough] [--replay FILE]"""
import argparse
import json
import os
import sys

HERE = os.path.dirname(os.path.abspath(__file__))
sys.path.insert(0, HERE)


def main():
    # start from the signal dispositions of an interactive run, whatever the caller's were (a background job of a
    # non-interactive shell ignores SIGINT/SIGQUIT, and every child inherits that)
    import signal
    signal.signal(signal.SIGINT, signal.default_int_handler)
    for sig in (signal.SIGTERM, signal.SIGQUIT):
        signal.signal(sig, signal.SIG_DFL)
    signal.pthread_sigmask(signal.SIG_UNBLOCK, {signal.SIGINT, signal.SIGTERM, signal.SIGQUIT})
    ap = argparse.ArgumentParser()
    ap.add_argument('prop')
    ap.add_argument('--tier', default=os.environ.get('VERIF_TIER', 'quick'))
    ap.add_argument('--replay')
    args = ap.parse_args()
    seed = int(os.environ.get('VERIF_SEED', '0') or 0)
    tier = args.tier if args.tier in ('quick', 'thorough') else 'quick'
    import common
    # temporary files of the runs (multiprocessing manager sockets, sandboxes) live in the per-process scratch
    # directory, which is removed at exit, instead of piling up under /tmp
    import tempfile
    tmp = os.path.join(common.scratch(), 'tmp')
    os.makedirs(tmp, exist_ok=True)
    os.environ['TMPDIR'] = tmp
    tempfile.tempdir = tmp
    report = common.Report(args.prop, tier, seed)
    replay = json.load(open(args.replay)) if args.replay else None
    import registry
    entry = registry.REGISTRY.get(args.prop)
    if entry is None:
        print(f'unknown property {args.prop}')
        return 2
    try:
        common.proof_stage(report, args.prop)
        entry(args.prop, report, tier, seed, replay)
    except Exception as e:   # the check itself failed: never report success
        import traceback
        report.broke(f'check machinery error: {type(e).__name__}: {e}', traceback.format_exc())
    return report.finish(level='proof')


if __name__ == '__main__':
    sys.exit(main())
