"""C18: LocalStorage on sandbox layouts with symlinks and adversarial key/filename strings.  The real
exists/file_handle/delete run on a freshly built sandbox; a before/after snapshot gives the touched paths; the
results of pathlib's resolve on the same layout are recorded and handed to Model/Paths.v as its oracle."""
import json
import os
import shutil
import tempfile
from collections import Counter
from pathlib import Path

from labtech.exceptions import StorageError
from labtech.storage import LocalStorage

from common import coq_failing, rng_for, CoqError, g_list, g_bool, subdir

KEYS = ['', '.', '..', 'k1', 'k2', 'new', 'a/b', '/abs', '../outside', 'k1/../k1', 'lnk_out', 'lnk_sib', 'lnk_self',
        'lnk_loop_a', 'lnk_dangling', 'lnk_dangling_out', 'lnk_abs', 'lnk_up', 'lnk_file', 'k1\x00', 'a\\b', 'é', ' ', 'k1/', './k1', 'plainfile',
        'pickle__T__0123abcd', '.gitignore', '~', 'k1/f1', 'lnk_deep', '*', 'k 1', '-rf', 'K1', ' lnk_ws ', 'lnk_ws', ' k1', 'k1 ']
FILES = ['', '.', '..', 'f1', 'newfile', 'sub/inner', '/etc/passwd_lv', '../k2/g', '../../outside/canary', 'flnk_out',
         'flnk_in', 'flnk_self', 'flnk_dangling', 'flnk_sib', 'sub', 'f1\x00', 'a\\b', 'metadata.json', 'data.pickle',
         'sub/../f1', './f1', 'flnk_dir', 'é', ' ', '../k1x/g', 'flnk_px', '../../escaped/x', '../newsib/x', 'newsub/x']
MODES = ['r', 'w', 'wb', 'a', 'x', 'r+', 'rb', 'w+']
CWD0 = os.getcwd()


def build_sandbox(base, variant):
    """store/ is the storage directory; outside/ holds canaries."""
    store = os.path.join(base, 'store')
    outside = os.path.join(base, 'outside')
    os.makedirs(os.path.join(store, 'k1', 'sub'))
    os.makedirs(os.path.join(store, 'k2'))
    os.makedirs(os.path.join(store, 'k1x'))         # a sibling key whose name extends 'k1'
    os.makedirs(os.path.join(outside, 'odir'))
    for p, c in (('store/k1/f1', 'one'), ('store/k1/sub/inner', 'in'), ('store/k2/g', 'g'), ('store/k1x/g', 'gx'), ('store/plainfile', 'pf'),
                 ('outside/canary', 'canary'), ('outside/odir/deep', 'deep')):
        with open(os.path.join(base, p), 'w') as f:
            f.write(c)
    L = os.symlink
    L('../outside', os.path.join(store, 'lnk_out'))
    L('k1', os.path.join(store, 'lnk_sib'))
    L('lnk_self', os.path.join(store, 'lnk_self'))
    L('lnk_loop_b', os.path.join(store, 'lnk_loop_a'))
    L('lnk_loop_a', os.path.join(store, 'lnk_loop_b'))
    L('nowhere', os.path.join(store, 'lnk_dangling'))
    L(os.path.join(outside, 'odir'), os.path.join(store, 'lnk_abs'))
    L('..', os.path.join(store, 'lnk_up'))
    L('k1/f1', os.path.join(store, 'lnk_file'))
    L('k1/sub', os.path.join(store, 'lnk_deep'))
    L('../outside/newdir', os.path.join(store, 'lnk_dangling_out'))      # dangling, and its target would lie outside
    L('../outside/odir', os.path.join(store, ' lnk_ws '))                 # a link whose name is a valid key only once stripped
    k1 = os.path.join(store, 'k1')
    L('../../outside/canary', os.path.join(k1, 'flnk_out'))
    L('f1', os.path.join(k1, 'flnk_in'))
    L('flnk_self', os.path.join(k1, 'flnk_self'))
    L('nothing', os.path.join(k1, 'flnk_dangling'))
    L('../k2/g', os.path.join(k1, 'flnk_sib'))
    L('sub', os.path.join(k1, 'flnk_dir'))
    L('../k1x/g', os.path.join(k1, 'flnk_px'))
    L('../../outside/odir', os.path.join(k1, 'dlnk_out'))        # directory links inside a key directory: deleting the key
    L('../k2', os.path.join(k1, 'dlnk_sib'))                     # removes the links, never what they point to
    # read-only canaries: an operation that follows a link must not even change their permission bits
    os.chmod(os.path.join(outside, 'canary'), 0o444)
    os.chmod(os.path.join(outside, 'odir'), 0o555)
    if variant == 1:      # the storage directory itself is reached through a symlink
        os.rename(store, os.path.join(base, 'realstore'))
        os.symlink('realstore', store)
    return store


def snapshot(base):
    snap = {}
    for root, dirs, files in os.walk(base, followlinks=False):
        for name in dirs + files:
            p = os.path.join(root, name)
            rel = os.path.relpath(p, base)
            st = os.lstat(p)
            if os.path.islink(p):
                snap[rel] = ('l', os.readlink(p))
            elif os.path.isdir(p):
                snap[rel] = ('d', st.st_mode & 0o7777)
            else:
                with open(p, 'rb') as f:
                    snap[rel] = ('f', f.read(), st.st_mtime_ns, st.st_mode & 0o7777)
    return snap


def diff(a, b):
    return sorted(k for k in set(a) | set(b) if a.get(k) != b.get(k))


def classify(e):
    if isinstance(e, StorageError):
        return 'StorageErr'
    if isinstance(e, ValueError):
        return 'ValueErr'
    if isinstance(e, RuntimeError):
        return 'RuntimeErr'
    if isinstance(e, OSError):
        return 'OSErr'
    return 'Other:' + type(e).__name__


def try_resolve(p):
    try:
        return ('ok', str(p.resolve()))
    except BaseException as e:   # noqa
        return ('err', classify(e))


def _do(storage, step):
    if step['op'] == 'exists':
        storage.exists(step['key'])
    elif step['op'] == 'delete':
        storage.delete(step['key'])
    else:
        fh = storage.file_handle(step['key'], step['filename'], mode=step['mode'])
        with fh:
            if any(c in step['mode'] for c in 'wax+'):
                fh.write(b'W' if 'b' in step['mode'] else 'W')
            else:
                fh.read()


def _mutate(store, mut):
    """['symlink', relative path below the storage directory, link target]: whatever is there becomes a symlink."""
    p = os.path.join(store, mut[1])
    if os.path.islink(p) or os.path.isfile(p):
        os.unlink(p)
    elif os.path.isdir(p):
        shutil.rmtree(p)
    os.makedirs(os.path.dirname(p), exist_ok=True)
    os.symlink(mut[2], p)


def run_op(case):
    """Returns the observation dict for one case on a fresh sandbox.  case['pre'] (earlier calls on the same LocalStorage
    instance) and case['mutate'] (the layout changes after them) come before the observed call: whatever an instance did
    earlier, every call is judged on the layout it meets."""
    base = tempfile.mkdtemp(dir=subdir('fsbox'))
    try:
        store = build_sandbox(base, 0 if case['variant'] == 2 else case['variant'])
        if case['variant'] == 2:
            # the storage directory is given as a relative path; afterwards the process changes its working directory to a
            # place that has a directory of the same relative name (a decoy with the same layout)
            os.makedirs(os.path.join(base, 'other'))
            build_sandbox(os.path.join(base, 'other'), 0)
            os.chdir(base)
            storage = LocalStorage('store', with_gitignore=False)
            os.chdir(os.path.join(base, 'other'))
        else:
            storage = LocalStorage(store, with_gitignore=False)
        for step in case.get('pre', []):
            try:
                _do(storage, step)
            except BaseException:   # noqa
                pass
        for mut in case.get('mutate', []):
            _mutate(store, mut)
        root = storage._storage_path
        obs = dict(root=str(root))
        obs['rroot'] = try_resolve(root)
        obs['rs_key'] = try_resolve(root / case['key']) if '\x00' not in case['key'] else ('err', 'ValueErr')
        kp = Path(obs['rs_key'][1]) if obs['rs_key'][0] == 'ok' else None
        obs['exists'] = bool(kp is not None and kp.exists())
        obs['rs_file'] = ('err', 'OSErr')
        before = snapshot(base)
        before_etc = os.path.exists('/etc/passwd_lv')
        try:
            _do(storage, case)
            obs['outcome'] = None
        except BaseException as e:   # noqa
            obs['outcome'] = classify(e)
            obs['exc'] = repr(e)[:200]
        after = snapshot(base)
        obs['escaped_abs'] = (not before_etc) and os.path.exists('/etc/passwd_lv')
        if case['op'] == 'file' and kp is not None:
            # resolve of the filename as file_handle saw it (after its mkdir): re-evaluate on the "after" layout,
            # which differs from that moment only by what open() itself did to the final path
            try:
                fp = (kp / case['filename'])
                obs['rs_file'] = try_resolve(fp) if '\x00' not in case['filename'] else ('err', 'ValueErr')
            except BaseException as e:   # noqa
                obs['rs_file'] = ('err', classify(e))
        base_real = os.path.realpath(base)
        obs['touched'] = [os.path.join(base_real, rel) for rel in diff(before, after)]
        obs['touched_rel'] = diff(before, after)
        obs['removed_kinds'] = {rel: before[rel][0] for rel in diff(before, after) if rel in before and rel not in after}
        obs['base'] = base_real
        return obs
    finally:
        os.chdir(CWD0)
        shutil.rmtree(base, ignore_errors=True)


def g_s(s):
    return '[' + '; '.join(f'{ord(ch)}%N' for ch in s) + ']'


def g_path(p):
    comps = [c for c in p.split('/') if c != '']
    return g_list([g_s(c) for c in comps])


def g_res(r):
    return f'Ok {g_path(r[1])}' if r[0] == 'ok' else f'Err {r[1] if not r[1].startswith("Other") else "OSErr"}'


def emit(case, obs):
    if case['op'] == 'exists':
        op = 'OpExists'
    elif case['op'] == 'delete':
        op = 'OpDelete'
    else:
        op = f'OpFile {g_s(case["filename"])} {g_s(case["mode"])}'
    outcome = 'None' if obs['outcome'] is None else f'(Some {obs["outcome"] if not obs["outcome"].startswith("Other") else "OSErr"})'
    return ('{| pc_root := %s; pc_key := %s; pc_op := %s; pc_rs_key := %s; pc_rroot := %s; pc_rs_file := %s; '
            'pc_exists := %s; pc_outcome := %s; pc_touched := %s |}' % (
                g_path(obs['root']), g_s(case['key']), op, g_res(obs['rs_key']), g_res(obs['rroot']), g_res(obs['rs_file']),
                g_bool(obs['exists']), outcome, g_list([g_path(p) for p in obs['touched']])))


def monitor(case, obs):
    """The property itself on the observed effects."""
    store_rel = 'realstore' if case['variant'] == 1 else 'store'
    outside = [r for r in obs['touched_rel'] if not (r == store_rel or r.startswith(store_rel + '/'))]
    if outside or obs.get('escaped_abs'):
        return ('touched-outside', f'paths outside the storage directory changed: {outside or "/etc/passwd_lv"}')
    inside = [r[len(store_rel) + 1:] for r in obs['touched_rel'] if r.startswith(store_rel + '/')]
    tops = {r.split('/')[0] for r in inside}
    if len(tops) > 1:
        return ('several-key-dirs', f'one call touched several children of the storage directory: {sorted(tops)}')
    deep = [r for r in inside if r.count('/') > 1]
    if deep and case['op'] != 'delete':
        return ('nested-write', f'a file below a sub-directory of the key directory was touched: {deep}')
    if case['op'] == 'delete':
        # delete removes the one key *directory* (with what is in it), never a plain file or a link that sits in the storage directory
        odd = [r for r, kind in obs.get('removed_kinds', {}).items() if r.startswith(store_rel + '/') and r.count('/') == 1 and kind != 'd']
        if odd:
            return ('deleted-non-directory', f'delete({case["key"]!r}) removed {odd}, which is not a key directory')
    if case['op'] == 'exists' and inside:
        return ('exists-modified', f'exists() modified {inside}')
    if case['op'] == 'file' and obs['outcome'] is None and obs['rs_file'][0] == 'ok' and obs['rs_key'][0] == 'ok':
        if os.path.dirname(obs['rs_file'][1]) != obs['rs_key'][1]:
            return ('opened-outside-key-dir', f"file_handle opened {obs['rs_file'][1]}, which is not directly inside the key directory {obs['rs_key'][1]}")
    if obs['outcome'] and obs['outcome'].startswith('Other'):
        return ('unexpected-exception', f"raised {obs.get('exc')}")
    return None


IMPORTS = 'Require Import LT.Model.Values LT.Model.ValuesCheck LT.Model.Paths LT.Gen.SrcParams.\n'
VOLUME = {'quick': 500, 'thorough': 6000}


def gen_sequence(rng):
    """An instance that has already served a key (or a file of it) meets the same name again after it became a symlink."""
    key = rng.choice(['k1', 'k2', 'new', 'k1'])
    def some_op():
        op = rng.choice(['exists', 'file', 'file', 'delete'])
        st = dict(op=op, key=key)
        if op == 'file':
            st.update(filename=rng.choice(['f1', 'newfile', 'g', 'canary', 'deep']), mode=rng.choice(['r', 'w', 'a', 'wb']))
        return st
    pre = [some_op() for _ in range(rng.randint(1, 3))]
    pre = [st for st in pre if st['op'] != 'delete' or rng.random() < 0.3] or [dict(op='exists', key=key)]
    if rng.random() < 0.7:
        mutate = [['symlink', key, rng.choice(['../outside/odir', '../outside', 'k2', '..'])]]
    else:
        mutate = [['symlink', 'k1/f1', rng.choice(['../../outside/canary', '../k2/g'])]]
        key = 'k1'
        pre = [dict(op='file', key='k1', filename='f1', mode=rng.choice(['r', 'a']))] + [st for st in pre if st['key'] == 'k1']
    case = some_op()
    case['key'] = key
    if mutate[0][1] == 'k1/f1':
        case.update(op='file', filename='f1', mode=rng.choice(['r', 'w', 'a']))
    case.update(variant=rng.choice([0, 0, 1]), pre=pre, mutate=mutate)
    return case


def gen_case(rng):
    if rng.random() < 0.2:
        return gen_sequence(rng)
    op = rng.choice(['exists', 'file', 'file', 'file', 'delete'])
    key = rng.choice(KEYS)
    if rng.random() < 0.1:
        key = rng.choice(KEYS) + rng.choice(['', '/', '.', 'x', '\\'])
    case = dict(op=op, key=key, variant=rng.choice([0, 0, 0, 1, 2]))
    if op == 'file':
        case['filename'] = rng.choice(FILES)
        case['mode'] = rng.choice(MODES)
    return case


DIRECTED = [dict(op='file', key=k, filename=f, mode=m, variant=v)
            for k, f in (('k1', 'flnk_out'), ('k1', 'flnk_dangling'), ('k1', 'flnk_sib'), ('k1', 'flnk_dir'), ('k1', 'flnk_in'),
                         ('k1', '../k2/g'), ('k1', '../k1x/g'), ('k1', 'flnk_px'), ('k1', '../../escaped/x'), ('k1', '../newsib/x'), ('lnk_dangling_out', 'f'), ('k1', '/etc/passwd_lv'), ('k1', 'sub/inner'), ('lnk_sib', 'f1'), ('lnk_out', 'canary'),
                         ('lnk_abs', 'deep'), ('lnk_deep', 'inner'), ('lnk_up', 'plainfile'), ('new', 'newfile'), ('k2', 'g'))
            for m in ('r', 'w', 'a') for v in (0, 1)] + \
           [dict(op=o, key=k, variant=v) for o in ('delete', 'exists')
            for k in ('lnk_out', 'lnk_sib', 'lnk_abs', 'lnk_up', 'lnk_deep', 'lnk_file', 'k1', '..', 'k1/../k2', 'lnk_dangling', 'lnk_dangling_out') for v in (0, 1)]


def run(prop, report, tier, seed, replay=None):
    rng = rng_for(seed, prop, 'paths')
    cases = [replay['input']['case']] if replay else DIRECTED + [gen_case(rng) for _ in range(VOLUME[tier])]
    if not replay:
        cases += [dict(op=o, key=k, variant=0) for k in KEYS for o in ('exists', 'delete')]        # every key string, both key-only operations
    if tier == 'thorough' and not replay:
        cases += [dict(op='file', key=k, filename=f, mode=m, variant=0) for k in KEYS for f in FILES for m in ('r', 'w')]
        cases += [dict(op=o, key=k, variant=v) for k in KEYS for o in ('exists', 'delete') for v in (0, 1)]
    terms, kept = [], []
    dist = Counter()
    distinct = set()
    for case in cases:
        obs = run_op(case)
        dist[f"op={case['op']}"] += 1
        dist[f"outcome={obs['outcome']}"] += 1
        dist[f"touched={min(len(obs['touched']), 3)}"] += 1
        v = monitor(case, obs)
        if v is not None:
            report.violation(f'C18:{v[0]}', v[1], dict(case=case, observed=dict(outcome=obs['outcome'], touched=obs['touched_rel'])))
        terms.append(emit(case, obs))
        kept.append((case, obs))
        if obs['outcome'] is None or obs['touched']:
            distinct.add(json.dumps(case, sort_keys=True))
    try:
        bad = coq_failing('corr_C18', IMPORTS, terms, 'check_pcase storage_guards_src')
    except CoqError as e:
        bad = []
        report.broke('correspondence Paths.check_pcase could not be evaluated', str(e))
    if bad:
        case, obs = kept[bad[0]]
        report.broke(f'correspondence Model/Paths.v vs LocalStorage: {len(bad)} of {len(terms)} cases differ',
                     first_case=dict(case=case, observed={k: obs[k] for k in ('outcome', 'touched_rel', 'rs_key', 'rs_file', 'rroot', 'exists')}))
    report.coverage.update(
        evaluations=len(cases), distinct_nontrivial=len(distinct), traces_validated_against_impl=len(terms),
        correspondence_mismatches=len(bad),
        rule=('operation x key string x filename string x mode over an adversarial path grammar (empty, separators, dot '
              'segments, absolute paths, NUL, backslash, unicode, names of symlinks to outside/sibling/self/loop/dangling/'
              'absolute/parent/file targets) on sandbox layouts (storage dir plain or itself behind a symlink); non-trivial = '
              'the call succeeded or changed the filesystem'),
        distribution=dict(sorted(dist.items())),
        samples=[dict(case=c, outcome=o['outcome'], touched=o['touched_rel']) for c, o in kept[:3]])
