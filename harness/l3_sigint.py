"""Run in a fresh interpreter: a real run_tasks under a real backend, interrupted by real SIGINTs at gate-controlled
resting points.  Prints one JSON line describing what happened."""
import json
import logging
import os
import signal
import sys
import threading
import time

sys.path.insert(0, os.path.dirname(os.path.abspath(__file__)))
import labtech  # noqa
from labtech.lab import Lab  # noqa

import lv_universe as U  # noqa
from common import storage_of


def main():
    cfg = json.loads(sys.argv[1])
    # a check started from a background job inherits SIGINT = ignored (and Python then installs no handler for it), or a
    # blocked signal mask: this program is about Ctrl-C, so it starts from the dispositions an interactive run has
    signal.signal(signal.SIGINT, signal.default_int_handler)
    signal.signal(signal.SIGTERM, signal.SIG_DFL)
    signal.pthread_sigmask(signal.SIG_UNBLOCK, {signal.SIGINT, signal.SIGTERM})
    # the coordinator announces that it has *handled* the first interrupt; the driver waits for that (not for a fixed delay)
    # before it lets the running tasks finish or sends the second interrupt: under load the signal may be handled late
    handled = threading.Event()

    class _Seen(logging.Handler):
        def emit(self, record):
            if record.getMessage().startswith('Interrupted.'):
                handled.set()
    lt_logger = logging.getLogger('labtech')
    lt_logger.handlers = [_Seen()]
    lt_logger.setLevel(logging.INFO)
    gdir = cfg['gatedir']
    os.environ['LV_GATEDIR'] = gdir
    os.environ['LV_GATE_TIMEOUT'] = '30'
    if cfg.get('term_grace'):
        os.environ['LV_TERM_GRACE'] = str(cfg['term_grace'])
    n = cfg['n']
    tasks = [U.Ta(label=i) for i in range(n)]
    lab = Lab(storage=cfg['storage'], runner_backend=cfg['backend'], max_workers=cfg['max_workers'], notebook=False,
              continue_on_failure=cfg.get('cont', True))
    out = dict(started_at_interrupt=None)
    pid = os.getpid()

    def driver():
        # wait until `wait_started` tasks sit inside run(), then interrupt
        while len([f for f in os.listdir(gdir) if f.startswith('started_')]) < cfg['wait_started']:
            time.sleep(0.005)
        time.sleep(0.05)
        out['started_at_interrupt'] = sorted(int(f.split('_')[1]) for f in os.listdir(gdir) if f.startswith('started_'))
        out['t_first'] = time.monotonic()
        send = (lambda: os.killpg(os.getpgrp(), signal.SIGINT)) if cfg.get('group') else (lambda: os.kill(pid, signal.SIGINT))
        send()
        out['handled_first'] = handled.wait(20)
        if cfg['double']:
            time.sleep(cfg.get('gap', 0.3))
            out['t_second'] = time.monotonic()
            send()
        else:
            time.sleep(0.2)
            for i in range(n):          # let the running tasks finish
                open(os.path.join(gdir, f'go_{i}'), 'w').close()
    th = threading.Thread(target=driver, daemon=True)
    th.start()
    t0 = time.monotonic()
    try:
        lab.run_tasks(tasks, disable_progress=cfg.get('no_progress', True), disable_top=cfg.get('no_top', True))
        out['outcome'] = 'returned'
    except KeyboardInterrupt:
        out['outcome'] = 'interrupt'
    except BaseException as e:   # noqa
        out['outcome'] = type(e).__name__ + ': ' + str(e)[:100]
    out['t_end'] = time.monotonic()
    out['elapsed_after_last_signal'] = out['t_end'] - out.get('t_second', out.get('t_first', t0))
    time.sleep(0.1)
    out['started_total'] = sorted(int(f.split('_')[1]) for f in os.listdir(gdir) if f.startswith('started_'))
    lab2 = Lab(storage=cfg['storage'], runner_backend='serial', notebook=False)
    cached, unloadable = [], []
    for t in tasks:
        if lab2.is_cached(t):
            cached.append(t.label)
            try:
                t._lt.cache.load_result_with_meta(storage_of(lab2), t)
            except BaseException:   # noqa
                unloadable.append(t.label)
    out['cached'] = cached
    out['unloadable'] = unloadable
    with open(cfg['result_file'], 'w') as f:
        json.dump(out, f)


if __name__ == '__main__':
    main()
