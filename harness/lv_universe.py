"""Task universe used by every harness level.  Importable module (spawned interpreters and fresh
processes load it by name), nothing here depends on /verif state.

A task class N-like type has fields
    label : int      -- the task's id in the generated graph (also what its result term carries)
    deps  : Any      -- tasks nested in tuples / lists / dicts at any depth
    beh   : str      -- 'ok' | 'raise' | 'die' | 'unpicklable' | 'slow' | 'linger'
    reads : tuple    -- indices into flat(deps): which dependency results run() reads
    talk  : tuple    -- log/print/flush script executed by run()
and run() returns the free term ('N', label, (results read...)).
"""
import enum
import json
import logging
import os
import pickle
import sys
import threading
import time
from typing import Any, Optional

from frozendict import frozendict

import labtech
import labtech.cache
from labtech.cache import BaseCache
from labtech.types import is_task


def flat(v):
    """Task objects inside v in the order labtech's own search visits them (duplicates kept)."""
    if is_task(v):
        return [v]
    if isinstance(v, (list, tuple)):
        return [t for x in v for t in flat(x)]
    if isinstance(v, (dict, frozendict)):
        return [t for x in v.values() for t in flat(x)]
    return []


def _record(self, kind, **extra):
    recdir = os.environ.get('LV_RECDIR')
    if not recdir:
        return
    rec = dict(kind=kind, label=self.label, type=type(self).__name__, pid=os.getpid(), ppid=os.getppid(),
               thread=threading.get_ident(), main_thread=threading.main_thread().ident,
               t=time.monotonic(), wall=time.time(), **extra)
    with open(os.path.join(recdir, f'{os.getpid()}_{time.monotonic_ns()}_{self.label}_{kind}.json'), 'w') as f:
        json.dump(rec, f)


class Unpicklable:
    def __reduce__(self):
        raise pickle.PicklingError('unpicklable on purpose')


def _talk(self):
    for step in self.talk:
        op, arg = step[0], step[1] if len(step) > 1 else None
        if op == 'info':
            labtech.logger.info(arg)
        elif op == 'infobig':
            labtech.logger.info(arg + ' ' + 'x' * 8000)      # a record of several kilobytes
        elif op == 'infochild':
            labtech.logger.getChild('sub').info(arg)
        elif op == 'warn':
            labtech.logger.warning(arg)
        elif op == 'out':
            sys.stdout.write(arg)
        elif op == 'err':
            sys.stderr.write(arg)
        elif op == 'print':
            print(arg)
        elif op == 'flushout':
            sys.stdout.flush()
        elif op == 'flusherr':
            sys.stderr.flush()


def _gate(self, name):
    gdir = os.environ.get('LV_GATEDIR')
    if not gdir:
        return
    if os.environ.get('LV_TERM_GRACE'):
        # a task that shuts down gracefully: SIGTERM is honoured only after a while
        import signal

        def _later(signum, frame, grace=float(os.environ['LV_TERM_GRACE'])):
            time.sleep(grace)
            os._exit(0)
        try:
            signal.signal(signal.SIGTERM, _later)
        except ValueError:
            pass          # not the main thread of its process
    open(os.path.join(gdir, f'{name}_{self.label}'), 'w').close()
    path = os.path.join(gdir, f'go_{self.label}')
    deadline = time.monotonic() + float(os.environ.get('LV_GATE_TIMEOUT', '60'))
    while not os.path.exists(path):
        if time.monotonic() > deadline:
            raise RuntimeError('gate timeout')
        time.sleep(0.002)


def _lazy_lookup(ctx):
    if not isinstance(ctx, dict) or not os.environ.get('LV_LAZY_CONTEXT'):
        return None
    try:
        return ctx['__not_held_yet__']
    except BaseException as e:   # noqa
        return f'raised {type(e).__name__}'


class LazyContext(dict):
    """A context that computes what it is asked for and does not hold yet."""

    def __missing__(self, key):
        return f'lazy:{key}'


def _run(self):
    ctx = self.context
    if ctx is None:
        # run() is only ever reached through a runner, which hands the task its filtered view of the Lab context first
        raise RuntimeError('run() was called on a task that was given no context')
    _record(self, 'start', context=(None if ctx is None else {k: repr(v) for k, v in sorted(ctx.items())}),
            start_method=__import__('multiprocessing').get_start_method(allow_none=True),
            main_file=getattr(sys.modules.get('__main__'), '__file__', None),
            marker=getattr(sys.modules.get('lv_universe'), 'PARENT_MARKER', None),
            derived=getattr(self, 'derived', None), lazy=_lazy_lookup(ctx))
    _gate(self, 'started')
    _talk(self)
    if self.beh == 'raise':
        if self.label % 4 == 3:
            # a task that gives up by calling sys.exit(): a failed task like any other
            raise SystemExit(f'exit {self.label}')
        # explicitly chained: what run_tasks reports must be the task's own exception, not the one it was raised from
        raise ValueError(f'boom {self.label}') from KeyError(f'inner {self.label}')
    faildir = os.environ.get('LV_FAILDIR')
    if faildir and os.path.exists(os.path.join(faildir, f'fail_{self.label}')):
        raise ValueError(f'boom (this run) {self.label}')
    if self.beh == 'die':
        os._exit(3 if self.label % 2 else 0)      # a worker may also die 'successfully' (status 0) without reporting a result
    found = flat(self.deps)
    value = ('N', self.label, tuple(found[i].result for i in self.reads))
    if os.environ.get('LV_EPOCH'):
        # histories: the same task computes a different value in every run_tasks call (the model sees the first three parts)
        value = value + (os.environ['LV_EPOCH'],)
    _record(self, 'end')
    if self.beh == 'unpicklable':
        return (value, Unpicklable())
    if self.beh == 'linger' and os.environ.get('LV_LINGER_FLAG'):
        # the task is over, but its process stays alive for a while (a non-daemon helper thread that is still tidying up):
        # until the harness says so (after run_tasks has returned), at most LV_LINGER_MAX seconds
        import threading

        def _tidy(flag=os.environ['LV_LINGER_FLAG'], limit=float(os.environ.get('LV_LINGER_MAX', '12'))):
            deadline = time.monotonic() + limit
            while not os.path.exists(flag) and time.monotonic() < deadline:
                time.sleep(0.02)
        threading.Thread(target=_tidy, daemon=False).start()
    return value


class JsonCache(BaseCache):
    """A second BaseCache format sharing the storage with PickleCache."""
    KEY_PREFIX = 'json__'
    RESULT_FILENAME = 'data.json'

    def save_result(self, storage, task, result):
        with storage.file_handle(task.cache_key, self.RESULT_FILENAME, mode='w') as f:
            json.dump(_to_json(result), f)

    def load_result(self, storage, task):
        with storage.file_handle(task.cache_key, self.RESULT_FILENAME, mode='r') as f:
            return _from_json(json.load(f))


def _to_json(v):
    if isinstance(v, tuple):
        return {'t': [_to_json(x) for x in v]}
    return v


def _from_json(v):
    if isinstance(v, dict):
        return tuple(_from_json(x) for x in v['t'])
    return v


class Color(enum.Enum):
    RED = 1
    GREEN = 2


class Shade(enum.Enum):
    RED = 1
    DARK = 2


class Heavy(enum.Enum):            # members wrap values that are neither JSON nor hashable-by-value across sessions: only the name counts
    BIG = frozenset({1, 2})
    SMALL = frozenset({3})


class Level(enum.IntEnum):          # members compare equal to plain ints
    ONE = 1
    TWO = 2


class Opt(str, enum.Enum):          # members compare equal to plain strings
    ADAM = 'adam'
    SGD = 'sgd'


def _post_init(self):
    object.__setattr__(self, 'derived', ('derived', self.label))


def _filter_first(self, context):
    # deliberately not idempotent: 'applied' counts how many times the filter ran on the way to the task
    out = {k: v for k, v in context.items() if k in ('a', f'k{self.label}')}
    out['applied'] = context.get('applied', 0) + 1
    return out


_FIELDS = {'label': int, 'deps': Any, 'beh': str, 'reads': tuple, 'talk': tuple}


def make_type(name, *, cache, max_parallel, post_init=False, filter_context=None, module=__name__, run=None, bases=()):
    ns = {'__annotations__': dict(_FIELDS), 'deps': (), 'beh': 'ok', 'reads': (), 'talk': (),
          'run': run or _run, '__module__': module, '__qualname__': name}
    if post_init:
        ns['post_init'] = _post_init
    if filter_context is not None:
        ns['filter_context'] = filter_context
    cls = type(name, tuple(bases), ns)
    kw = {} if cache == 'default' else {'cache': cache}
    return labtech.task(max_parallel=max_parallel, **kw)(cls)


# Scheduler grid: max_parallel x cache kind.  Index = position in SCHED_TYPES.
SCHED_TYPES = []
for _mp in (None, 1, 2, 3):
    for _ck in ('P', 'N'):
        _name = f'T{_ck}{_mp if _mp is not None else "x"}'
        _t = make_type(_name, cache=('default' if _ck == 'P' else None), max_parallel=_mp)
        globals()[_name] = _t
        SCHED_TYPES.append(_t)

# Prefix-related names, a second cache format, a post_init type, a context-filtering type.
Ta = make_type('Ta', cache='default', max_parallel=None)
Tab = make_type('Tab', cache='default', max_parallel=None)
TJ = make_type('TJ', cache=JsonCache(), max_parallel=None)
TPost = make_type('TPost', cache='default', max_parallel=None, post_init=True)
TCtx = make_type('TCtx', cache='default', max_parallel=None, filter_context=_filter_first)


class _CtxMixin:
    """filter_context inherited from a base class instead of being defined in the task class body"""
    def filter_context(self, context):
        return _filter_first(self, context)


TCtxI = make_type('TCtxI', cache='default', max_parallel=None, bases=(_CtxMixin,))
class CacheHolder:
    """A cache class defined inside another class (its __qualname__ is not its __name__)."""
    class Nested(JsonCache):
        KEY_PREFIX = 'nested__'


TNest = make_type('TNest', cache=CacheHolder.Nested(), max_parallel=None)


def _filter_fails(self, context):
    # a task whose failure happens while its context is being filtered
    if self.beh == 'raise':
        raise LookupError(f'context lacks what task {self.label} needs')
    return context


TCtxF = make_type('TCtxF', cache='default', max_parallel=None, filter_context=_filter_fails)
TCtxNone = make_type('TCtxNone', cache='default', max_parallel=None, filter_context=lambda self, context: {})    # asks for nothing
def _rw_post_init(self):
    # a post_init that canonicalises one of the task's own parameters (the cache key was computed from what was given)
    object.__setattr__(self, 'beh', self.beh.strip().lower())


TRw = labtech.task(type('TRw', (), {'__annotations__': dict(_FIELDS), 'deps': (), 'beh': 'ok', 'reads': (), 'talk': (),
                                    'run': _run, 'post_init': _rw_post_init, '__module__': __name__, '__qualname__': 'TRw'}))
SCHED_TYPES += [Ta, Tab, TJ, TRw]


def _run_big(self):
    return ('R', 2, bytes(200_000), bytes(200_000))


TaBig = labtech.task(type('TaBig', (), {'__annotations__': {'label': int}, 'run': _run_big,
                                        '__module__': __name__, '__qualname__': 'TaBig'}))          # indices 8, 9, 10: prefix-related names and a second cache format


# ---- value-grammar universe (C07, C09, C15, C20): task types whose fields take arbitrary parameter trees
VRUN_COUNT = [0]


def _vrun(self):
    VRUN_COUNT[0] += 1
    return ('V', type(self).__name__)


def make_vtype(name, fields, *, cache='default', module=__name__, post_init=False, ret=None):
    ns = {'__annotations__': {f: Any for f in fields}, 'run': _vrun, '__module__': module, '__qualname__': name}
    if ret is not None:
        def run(self) -> ret:
            VRUN_COUNT[0] += 1
            return ('V', type(self).__name__)
        ns['run'] = run
    if post_init:
        ns['post_init'] = _vpost_init
    cls = type(name, (), ns)
    kw = {} if cache == 'default' else {'cache': cache}
    return labtech.task(**kw)(cls)


def _vpost_init(self):
    object.__setattr__(self, 'derived', ('derived', repr(getattr(self, 'x', None))))


def _canon(v):
    if isinstance(v, str):
        return v.strip().lower()
    if isinstance(v, tuple) and len(v) >= 2:
        return tuple(sorted(v, key=repr))      # idempotent, like any sensible canonicalisation
    return v


def _vrewrite_post_init(self):
    # a post_init that canonicalises one of the task's own parameters
    object.__setattr__(self, 'x', _canon(self.x))
    object.__setattr__(self, 'derived', ('canon', repr(self.x)))


def make_rewrite_type():
    cls = type('VRewrite', (), {'__annotations__': {'x': Any}, 'run': _vrun, 'post_init': _vrewrite_post_init,
                                '__module__': __name__, '__qualname__': 'VRewrite'})
    return labtech.task(cls)


V1 = make_vtype('V1', ['a', 'b'])
V2 = make_vtype('V2', ['x'])
V = make_vtype('V', ['x'])                       # name is a prefix of V1, V2, VV
VV = make_vtype('VV', ['x'], ret=int)
VJ = make_vtype('VJ', ['x'], cache=JsonCache())
VN = make_vtype('VN', ['x'], cache=None)
VPost = make_vtype('VPost', ['x'], post_init=True)
VRewrite = make_rewrite_type()


class FallbackCache(labtech.cache.PickleCache):
    """A cache with a say of its own about what is cached: results it finds in a read-only second store (here: a dict) count as
    cached and are loaded from there."""
    SHARED = {}

    def is_cached(self, storage, task):
        return task.cache_key in self.SHARED or super().is_cached(storage, task)

    def load_result_with_meta(self, storage, task):
        if not super().is_cached(storage, task) and task.cache_key in self.SHARED:
            from datetime import datetime, timedelta
            from labtech.types import ResultMeta, TaskResult
            return TaskResult(value=self.SHARED[task.cache_key], meta=ResultMeta(start=datetime(2021, 2, 3), duration=timedelta(seconds=5)))
        return super().load_result_with_meta(storage, task)


VShared = make_vtype('VShared', ['x'], cache=FallbackCache())


class _PostInitMixin:
    def post_init(self):
        object.__setattr__(self, 'derived', ('derived', repr(getattr(self, 'x', None))))


# post_init inherited from a mixin / from a parent task type, not defined in the class body itself
VPostMix = labtech.task(type('VPostMix', (_PostInitMixin,), {'__annotations__': {'x': Any}, 'run': _vrun, '__module__': __name__, '__qualname__': 'VPostMix'}))
VPostSub = labtech.task(type('VPostSub', (VPost,), {'__annotations__': {'y': Any}, 'y': 0, 'run': _vrun, '__module__': __name__, '__qualname__': 'VPostSub'}))


def _vrun_none(self) -> None:
    VRUN_COUNT[0] += 1


# run() declared `-> None` (as opposed to not annotated at all)
VNoneRet = labtech.task(type('VNoneRet', (), {'__annotations__': {'x': Any}, 'run': _vrun_none, '__module__': __name__, '__qualname__': 'VNoneRet'}))
# parameters with defaults: a value that is == to the default but of another type (1 / 1.0 / True) is still another parameter value
VDef = labtech.task(type('VDef', (), {'__annotations__': {'x': Any, 'y': Any}, 'x': 1, 'y': (1, 2), 'run': _vrun,
                                      '__module__': __name__, '__qualname__': 'VDef'}))
# module-level task types whose class names are not ASCII (valid Python identifiers)
Vuni1 = make_vtype('Exp\u00e9rience', ['x'])
Vuni2 = make_vtype('\u5b9f\u9a132', ['x'])
globals()[Vuni1.__qualname__] = Vuni1
globals()[Vuni2.__qualname__] = Vuni2
def _vret(self):
    return self.x


VRet = labtech.task(type('VRet', (), {'__annotations__': {'x': Any, 'i': int}, 'run': _vret, '__module__': __name__, '__qualname__': 'VRet'}))
def _nested_type(outer):
    # a class defined inside another class: __name__ 'V2', __qualname__ '<outer>.V2' (not reconstructible from metadata,
    # but its cache key must still differ from every other V2)
    cls = type('V2', (), {'__annotations__': {'x': Any}, 'run': _vrun, '__module__': __name__, '__qualname__': f'{outer}.V2'})
    return labtech.task(cls)


class NestA:
    class Kind(enum.Enum):
        FAST = 1


class NestB:
    class Kind(enum.Enum):
        FAST = 1


def _nested_ret_type(outer, tag):
    # same __name__ ('Leaf') under different enclosing classes, returning distinguishable values
    def run(self):
        return (tag, self.x)
    cls = type('Leaf', (), {'__annotations__': {'x': Any}, 'run': run, '__module__': __name__, '__qualname__': f'{outer}.Leaf'})
    return labtech.task(cache=None)(cls)      # (a nested class name contains '.', which LocalStorage keys may not)


NestA_Leaf = _nested_ret_type('NestA', 'from-A')
NestB_Leaf = _nested_ret_type('NestB', 'from-B')


def _vdep_run(self):
    return ('dep-says', self.x.result)


VDep = labtech.task(type('VDep', (), {'__annotations__': {'x': Any}, 'run': _vdep_run, '__module__': __name__, '__qualname__': 'VDep'}))
NestA_V2 = _nested_type('NestA')
# a task type defined inside a class, with a plain name no other type has (the diagram shows plain names)
VInner = labtech.task(type('VInner', (), {'__annotations__': {'x': Any}, 'run': _vrun, '__module__': __name__, '__qualname__': 'NestD.VInner'}))
NestB_V2 = _nested_type('NestB')
V0 = make_vtype('V0', [])                        # no parameters at all
VUnder = make_vtype('VUnder', ['_hidden', 'x_'])   # parameter names with underscores


def _make_inheriting():
    # a task type that inherits the parameters of another task type and adds one of its own
    cls = type('VInh', (V1,), {'__annotations__': {'c': Any}, 'run': _vrun, '__module__': __name__, '__qualname__': 'VInh'})
    return labtech.task(cls)


VInh = _make_inheriting()
VALUE_TYPES = {'V1': V1, 'V2': V2, 'V': V, 'VV': VV, 'VJ': VJ, 'VN': VN, 'VPost': VPost}
ENUMS = {'Color': Color, 'Shade': Shade}


class MyTuple(tuple):
    pass


def _run_ref(self):
    """A result that refers back to task objects (itself and its dependencies)."""
    _record(self, 'start', context=(None if self.context is None else {k: repr(v) for k, v in sorted(self.context.items())}),
            start_method=None, main_file=None, marker=getattr(sys.modules.get('lv_universe'), 'PARENT_MARKER', None), derived=None)
    deps = flat(self.deps)
    return {'by': self, 'deps': tuple(deps), 'vals': tuple(d.result['label'] if isinstance(d.result, dict) else d.result for d in deps),
            'label': self.label}


TRef = labtech.task(type('TRef', (), {'__annotations__': {'label': int, 'deps': Any}, 'deps': (), 'run': _run_ref,
                                      '__module__': __name__, '__qualname__': 'TRef'}))

PARENT_MARKER = 'import-time'
